"""Movie generators and the implementation driver for the linking properties."""
import numpy as np
from fractions import Fraction
import common
from common import cZ, cnat, clist, cN


def gen_movie(rng, ndim=None, nframes=None, quarter=False, dense=None):
    """Lattice movie: list of (n_i, ndim) float arrays whose entries are
    multiples of 1/4 (quarter) or integers.  Mixes sparse walkers with dense
    clusters so that subnets with several sources occur."""
    ndim = ndim or rng.choice([1, 2, 2, 2, 3])
    nframes = nframes or rng.randint(2, 7)
    unit = 4 if quarter else 1
    npart = rng.randint(1, 9)
    box = rng.choice([6, 10, 16, 30])
    if dense is None:
        dense = rng.random() < 0.6
    pos = [[rng.randint(0, box * unit) for _ in range(ndim)] for _ in range(npart)]
    if dense:
        # a tight cluster
        c = [rng.randint(0, box * unit) for _ in range(ndim)]
        for _ in range(rng.randint(2, 5)):
            pos.append([ci + rng.randint(-3 * unit, 3 * unit) for ci in c])
    step = rng.choice([1, 2, 3]) * unit
    p_vanish = rng.choice([0.0, 0.1, 0.3])
    p_new = rng.choice([0.0, 0.2])
    frames = []
    alive = [True] * len(pos)
    for t in range(nframes):
        if t > 0:
            for p in pos:
                for k in range(ndim):
                    p[k] += rng.randint(-step, step)
            if rng.random() < p_new:
                pos.append([rng.randint(0, box * unit) for _ in range(ndim)])
                alive.append(True)
        vis = []
        for i, p in enumerate(pos):
            if rng.random() >= p_vanish:
                vis.append(list(p))
        if rng.random() < 0.05:
            vis = []
        if vis and rng.random() < 0.1:
            vis.append(list(vis[0]))   # duplicate position
        rng.shuffle(vis)
        frames.append(np.array(vis, dtype=float).reshape(len(vis), ndim) / unit)
    return frames


def gen_range(rng, ndim, quarter=False, aniso=None):
    """search_range as Fraction or tuple of Fractions (multiples of 1/2)"""
    if aniso is None:
        aniso = ndim > 1 and rng.random() < 0.25
    if aniso:
        return tuple(Fraction(rng.choice([2, 3, 4, 5, 6])) for _ in range(ndim))
    if quarter:
        return Fraction(rng.choice([4, 5, 6, 7, 9, 10, 13]), 2)
    return Fraction(rng.choice([2, 3, 4, 5, 5, 6, 8]))


def metric_of(sr, ndim, scale):
    """(w, R2) in integer units: coordinates are multiplied by `scale`."""
    if isinstance(sr, tuple):
        # clear denominators of the ranges
        den = 1
        for r in sr:
            den = np.lcm(den, r.denominator)
        rs = [int(r * den) for r in sr]          # r_j * den
        # d2 = sum_i prod_{j!=i} rs_j^2 * (scale*delta_i)^2  <=  prod rs_j^2 * scale^2 / den^2 ... keep integers:
        # sum_i (delta_i/r_i)^2 <= 1  <=>  sum_i prod_{j!=i} r_j^2 * delta_i^2 <= prod r_j^2
        # with delta' = scale*delta, r' = den*r:  sum_i prod_{j!=i} r'_j^2 * den^2 * delta'_i^2 <= prod r'_j^2 * scale^2
        w = []
        P = 1
        for r in rs:
            P *= r * r
        for i in range(ndim):
            wi = 1
            for j in range(ndim):
                if j != i:
                    wi *= rs[j] * rs[j]
            w.append(wi * int(den) * int(den))
        return w, P * scale * scale
    r = Fraction(sr)
    R = r * scale
    assert (R * R).denominator == 1, (sr, scale)
    return [1] * ndim, int(R * R)


SPELL = None     # how an integral search_range is handed to trackpy: None/'float', 'int', 'list', 'array', 'arrayf'
SPELLINGS = [None, None, 'int', 'int', 'list', 'array', 'arrayf']


def sr_float(sr):
    """the search_range object given to trackpy.  Integral ranges are also spelled as Python ints, a list or an
    integer / float ndarray (module variable SPELL, set per case by the harness and recorded in the replay):
    callers write search_range=5 or (2, 5) as often as 5.0"""
    vals = sr if isinstance(sr, tuple) else (sr,)
    sp = SPELL if all(Fraction(r).denominator == 1 for r in vals) else None
    if isinstance(sr, tuple):
        if sp == 'int':
            return tuple(int(r) for r in sr)
        if sp == 'list':
            return [int(r) for r in sr]
        if sp == 'array':
            return np.array([int(r) for r in sr])
        if sp == 'arrayf':
            return np.array([float(r) for r in sr])
        return tuple(float(r) for r in sr)
    if sp in ('int', 'list', 'array'):
        return int(sr)
    return float(sr)


def cframes(frames, scale):
    out = []
    for f in frames:
        pts = []
        for p in f:
            ip = [Fraction(float(x)) * scale for x in p]
            assert all(v.denominator == 1 for v in ip)
            pts.append(clist([cZ(int(v)) for v in ip]))
        out.append(clist(pts))
    return clist(out)


def cmetric(w, R2):
    return "{| mw := %s; mR2 := %s |}" % (clist([cZ(x) for x in w]), cZ(R2))


def cobs(out):
    items = []
    for o in out:
        if o is None:
            items.append("Raised")
        else:
            items.append("(Labels %s)" % clist([cnat(x) for x in o]))
    return clist(items)


def max_inrange(frames, sr, memory):
    """largest number of earlier-frame features within range of one feature
    (upper bound on candidate sources; used to tag cap-binding cases)."""
    worst = 0
    for t in range(1, len(frames)):
        prev = [p for u in range(max(0, t - 1 - memory), t) for p in frames[u]]
        if not len(prev):
            continue
        prev = np.array(prev)
        for q in frames[t]:
            d = (prev - q)
            if isinstance(sr, tuple):
                dd = sum((d[:, k] / float(sr[k])) ** 2 for k in range(d.shape[1]))
                n = int((dd <= 1.0 + 1e-6).sum())
            else:
                dd = (d ** 2).sum(1)
                n = int((dd <= float(sr) ** 2 + 1e-6).sum())
            worst = max(worst, n)
    return worst


# a linking call on one of the small generated movies takes milliseconds (subnets are capped at LIMIT sources); a call that
# has not returned after WATCHDOG seconds has effectively produced no result: reported with the movie as the failing input
WATCHDOG = 120


class ImplError(Exception):
    """trackpy raised something other than SubnetOversizeException on a valid input."""
    def __init__(self, exc, call):
        Exception.__init__(self, '%s raised %r' % (call.get('fn'), exc))
        self.exc, self.call = exc, call


def replay_impl_call(call):
    """Re-run a recorded failing call; returns the exception text or None."""
    from fractions import Fraction
    assert call['fn'] == 'trackpy.link_iter'
    sr = call['search_range']
    sr = tuple(Fraction(x) for x in sr) if isinstance(sr, list) else Fraction(sr)
    frames = frames_from_json(call['frames'])
    ad = tuple(Fraction(x) for x in call['adaptive']) if call.get('adaptive') else None
    try:
        run_link_iter(frames, sr, memory=call['memory'], link_strategy=call['link_strategy'], max_size=call['max_size'],
                      adaptive=ad, neighbor_strategy=call.get('neighbor_strategy'), enumerate_t=call.get('enumerate_t'))
    except ImplError as e:
        return repr(e.exc)
    return None


def run_link_iter(frames, sr, memory=0, link_strategy=None, max_size=None, adaptive=None, predictor=None,
                  enumerate_t=None, neighbor_strategy=None, bystander=False, plain_limit=None):
    """Drive trackpy.link_iter frame by frame.  Returns list of label lists,
    None at the step that raised SubnetOversizeException (and stops there)."""
    import trackpy as tp
    from trackpy.linking.linking import Linker
    from trackpy.linking.utils import SubnetOversizeException
    kw = dict(memory=memory)
    if link_strategy is not None:
        kw['link_strategy'] = link_strategy
    if neighbor_strategy is not None:
        kw['neighbor_strategy'] = neighbor_strategy
    if predictor is not None:
        kw['predictor'] = predictor
    if adaptive is not None:
        kw['adaptive_stop'], kw['adaptive_step'] = adaptive
    old = (Linker.MAX_SUB_NET_SIZE, Linker.MAX_SUB_NET_SIZE_ADAPTIVE)
    if max_size is not None:
        Linker.MAX_SUB_NET_SIZE = max_size if plain_limit is None else plain_limit     # with adaptive search only the
        Linker.MAX_SUB_NET_SIZE_ADAPTIVE = max_size                                    # ADAPTIVE limit is in force
    out = []
    import signal

    def _late(signum, frame):
        raise TimeoutError('no result within %d s' % WATCHDOG)
    old_handler = signal.signal(signal.SIGALRM, _late)
    signal.alarm(WATCHDOG)
    try:
        if enumerate_t is not None:
            it = zip(enumerate_t, [f.copy() for f in frames])
        else:
            it = iter([f.copy() for f in frames])
        gen = tp.link_iter(it, sr_float(sr), **kw)
        by = None
        if bystander:
            # another linking job alive in the same process, started after this one and advanced between its steps:
            # what a label means for THIS movie must not depend on it
            by = tp.link_iter(iter([np.array([[0., 0.], [9., 9.]]), np.array([[0., 1.], [9., 8.], [30., 30.]])] * 40), 3.0, memory=1)
        while True:
            try:
                t, ids = next(gen)
                if by is not None:
                    next(by)
                out.append([int(i) for i in ids])
            except StopIteration:
                break
            except SubnetOversizeException:
                out.append(None)
                break
            except Exception as e:
                # the implementation itself failed on a valid movie: that movie is the failing input
                raise ImplError(e, dict(fn='trackpy.link_iter', frames=[np.asarray(f).tolist() for f in frames],
                                        search_range=[str(x) for x in sr] if isinstance(sr, tuple) else str(sr),
                                        memory=memory, link_strategy=link_strategy, neighbor_strategy=neighbor_strategy,
                                        max_size=max_size, adaptive=[str(x) for x in adaptive] if adaptive is not None else None,
                                        predictor=repr(predictor) if predictor is not None else None,
                                        enumerate_t=list(enumerate_t) if enumerate_t is not None else None,
                                        labels_before_the_failure=out))
    finally:
        signal.alarm(0)
        signal.signal(signal.SIGALRM, old_handler)
        Linker.MAX_SUB_NET_SIZE, Linker.MAX_SUB_NET_SIZE_ADAPTIVE = old
    return out



def run_linker_reused(first, frames, sr, memory=0, link_strategy=None, max_size=None):
    """ONE trackpy Linker object driven by hand: through the movie `first` (init_level + next_level), then re-initialised
    with init_level for `frames`; returns the label lists of `frames` (None at the step that raised SubnetOversizeException).
    What the linker remembers of the first movie must be gone after init_level."""
    from trackpy.linking.linking import Linker
    from trackpy.linking.utils import SubnetOversizeException
    old = (Linker.MAX_SUB_NET_SIZE, Linker.MAX_SUB_NET_SIZE_ADAPTIVE)
    if max_size is not None:
        Linker.MAX_SUB_NET_SIZE = max_size
        Linker.MAX_SUB_NET_SIZE_ADAPTIVE = max_size
    out = []
    try:
        lk = Linker(sr_float(sr), memory=memory, link_strategy=link_strategy)
        try:
            if len(first):
                lk.init_level(first[0].copy(), 0)
                for t, f in enumerate(first[1:], start=1):
                    lk.next_level(f.copy(), t)
        except SubnetOversizeException:
            pass
        try:
            lk.init_level(frames[0].copy(), 0)
            out.append([int(i) for i in lk.particle_ids])
            for t, f in enumerate(frames[1:], start=1):
                lk.next_level(f.copy(), t)
                out.append([int(i) for i in lk.particle_ids])
        except SubnetOversizeException:
            out.append(None)
        except Exception as e:
            raise ImplError(e, dict(fn='Linker.init_level / next_level on a reused Linker', first=[np.asarray(f).tolist() for f in first],
                                    frames=[np.asarray(f).tolist() for f in frames], search_range=[str(x) for x in sr] if isinstance(sr, tuple) else str(sr),
                                    memory=memory, link_strategy=link_strategy, max_size=max_size, labels_before_the_failure=out))
    finally:
        Linker.MAX_SUB_NET_SIZE, Linker.MAX_SUB_NET_SIZE_ADAPTIVE = old
    return out


def frames_from_json(lists, ndim=None):
    """per-frame coordinate arrays from the nested lists of a replay file; a frame without features is [] there and must
    come back as an array of shape (0, ndim)"""
    arrs = [np.array(f, dtype=float) for f in lists]
    if ndim is None:
        nds = [a.shape[1] for a in arrs if a.ndim == 2 and a.size]
        ndim = max(nds) if nds else 2
    return [a.reshape(len(a), ndim) if a.size else np.empty((0, ndim)) for a in arrs]

import contextlib


@contextlib.contextmanager
def size_limit(n):
    """temporarily lower Linker.MAX_SUB_NET_SIZE (and the adaptive one): keeps the exponential subnet solvers
    (run interpreted) and the model's search within seconds; a larger subnet raises SubnetOversizeException,
    which every harness handles and the model predicts"""
    from trackpy.linking.linking import Linker
    from trackpy.linking import legacy
    old = (Linker.MAX_SUB_NET_SIZE, Linker.MAX_SUB_NET_SIZE_ADAPTIVE, legacy.Linker.MAX_SUB_NET_SIZE, legacy.Linker.MAX_SUB_NET_SIZE_ADAPTIVE)
    Linker.MAX_SUB_NET_SIZE = n
    Linker.MAX_SUB_NET_SIZE_ADAPTIVE = n
    legacy.Linker.MAX_SUB_NET_SIZE = n
    legacy.Linker.MAX_SUB_NET_SIZE_ADAPTIVE = n
    try:
        yield
    finally:
        (Linker.MAX_SUB_NET_SIZE, Linker.MAX_SUB_NET_SIZE_ADAPTIVE, legacy.Linker.MAX_SUB_NET_SIZE, legacy.Linker.MAX_SUB_NET_SIZE_ADAPTIVE) = old


LIMIT = 10
