#!/usr/bin/env python3
"""Route T: regenerate every model file that is translated from /repo's source.
Called by setup.sh; each check of a property with generated files re-runs its own
translator as well (and treats a translation failure as a broken proof)."""
import os, subprocess, sys, glob
here = os.path.dirname(os.path.abspath(__file__))
rc = 0
for tr in sorted(glob.glob(os.path.join(here, 'py2coq_*.py'))):
    p = subprocess.run([sys.executable, tr], stdout=subprocess.PIPE, stderr=subprocess.STDOUT, text=True)
    print(os.path.basename(tr), 'exit', p.returncode, p.stdout.strip().splitlines()[-1:] )
    rc = rc or p.returncode
sys.exit(0 if rc == 0 else 1)
