#!/usr/bin/env python3
"""Fail-closed translator (route T) for C14: the linking step of find_link.

Reads  $TRACKPY_REPO/trackpy/linking/find_link.py  and  .../linking/subnet.py  (default /repo) with
the Python `ast` module and regenerates  /verif/coq/Gen/findstep.v :

    py_include_lost, py_merge_lost_subnets, py_add_dest_points      Subnets.include_lost / merge_lost_subnets / add_dest_points
    py_assign_links, py_next_level, py_FindLinker_init              FindLinker.assign_links / next_level / __init__
    py_find_link_iter                                               find_link_iter (the per-frame driver)

statement by statement, as let-bound, state-passing Gallina over coq/Model/PyFindstep.v (what every
construct and primitive means).  Proofs/FindstepGen.v, FindstepGen2.v, FindstepGen3.v prove the generated
functions equal to the hand-written model of the code (Model/FindLink3.v) for all inputs;
Properties/C14.v restates the headline theorems for them.

How it works
  * every function has a SCRIPT: the sequence of statement shapes it consists of (assignment to a
    given target, if / else, for over a given iterable, a call statement, a pinned block).  A
    statement that is not the next one of the script is an error, so is a missing one.
  * inside a statement every EXPRESSION (conditions, operators, arithmetic, call arguments, set
    algebra, tuple swaps) is translated structurally by type (table PAT + operators); an
    expression outside the table, or of the wrong type, is an error.  So a changed comparison,
    constant, operand or argument translates to different Gallina (the equality proofs then
    fail), anything else is refused.
  * numbers: `int` (pixels) and `num` (floats scaled by the common k); int + num coerces.
  * PINNED blocks (compared as source text after ast normalisation; named primitives of
    Model/PyFindstep.v): the KD-tree query of merge_lost_subnets / add_dest_points with the loop
    headers that walk its result, the five statements that merge subnets[i1] into subnets[i2],
    the ValueError block of find_link_iter, the after_link blocks (outside the modelled scope),
    the anisotropic branch of __init__ (outside the modelled scope), the dist_func warning.
  * `self.subnets.add_dest_points(source_set, new_cands, self.search_range)` changes its
    arguments in place: the translation rebinds source_set (new candidates appended), new_cands
    (the points within range, numbered) and dest_set, and advances the point counter.
  * the subnet linker may only be called when every source's forward_cands were sorted after the
    last append (checked statically: flag `sorted`).

Anything outside this subset: exit status 2, nothing written (the check treats that like a
broken proof).

Usage:  py2coq_findstep.py [--repo /repo] [--out /verif/coq/Gen/findstep.v] [--stdout]
"""
import ast, sys, os, argparse


class TranslationError(Exception):
    pass


def fail(node, msg):
    raise TranslationError('line %s: %s' % (getattr(node, 'lineno', '?'), msg))


def P(src):
    return ast.parse(src, mode='eval').body


def norm(node):
    return ast.dump(node, annotate_fields=True, include_attributes=False)


def match(p, n, b):
    if isinstance(p, ast.Name):
        if p.id.startswith('E_'):
            if p.id in b:
                return norm(b[p.id]) == norm(n)
            b[p.id] = n
            return True
        if p.id.startswith('F_'):
            if not isinstance(n, ast.Name):
                return False
            if p.id in b:
                return b[p.id] == n.id
            b[p.id] = n.id
            return True
        return isinstance(n, ast.Name) and n.id == p.id
    if type(p) is not type(n):
        return False
    for fld in p._fields:
        if fld in ('ctx', 'type_comment', 'kind'):
            continue
        pv, nv = getattr(p, fld, None), getattr(n, fld, None)
        if isinstance(pv, list):
            if not isinstance(nv, list) or len(pv) != len(nv):
                return False
            for x, y in zip(pv, nv):
                if isinstance(x, ast.AST):
                    if not match(x, y, b):
                        return False
                elif x != y:
                    return False
        elif isinstance(pv, ast.AST):
            if not isinstance(nv, ast.AST) or not match(pv, nv, b):
                return False
        elif pv != nv:
            return False
    return True


def cmt(s, text=None):
    if text is None:
        try:
            text = ast.unparse(s).split('\n')[0]
        except Exception:
            text = type(s).__name__
    text = text.replace('(*', '( *').replace('*)', '* )').replace('"', "'")
    if len(text) > 130:
        text = text[:127] + '...'
    return '(* %d: %s *)' % (getattr(s, 'lineno', 0), text)


# ---------------------------------------------------------------- typed expressions
# (pattern, binders, argument types, template, result type)
PAT = [(P(p), b, a, t, r) for p, b, a, t, r in [
    # Subnets
    ("len(self.subnets)", [], [], '(d_len (sn_subnets self))', 'nat'),
    ("max(self.subnets)", [], [], '(d_max (sn_subnets self))', 'nat'),
    ("itertools.count(start=E_s)", ['E_s'], ['nat'], '(itertools_count %s)', 'counter'),
    ("itertools.count()", [], [], '(itertools_count 0%%nat)', 'counter'),
    ("self.source_hash.points", [], [], '(source_points self)', 'items'),
    ("E_p.forward_cands", ['E_p'], ['item'], '(forward_cands %s)', 'cands'),
    ("next(E_c)", ['E_c'], ['counter'], '(py_next %s)', 'natcounter'),
    ("self.subnets[E_k]", ['E_k'], ['nat'], '(d_entry (sn_subnets self) %s)', 'entry'),
    ("E_p.subnet", ['E_p'], ['item'], '(point_subnet self %s)', 'optnat'),
    ("E_p.subnet", ['E_p'], ['sidx'], '(index_subnet self %s)', 'optnat'),
    ("E_r * 2", ['E_r'], ['metric'], '(range_twice %s)', 'metric'),
    ("len(E_x)", ['E_x'], ['group'], '(length %s)', 'nat'),
    ("len(E_x)", ['E_x'], ['natset'], '(length %s)', 'nat'),
    ("len(E_x)", ['E_x'], ['cands'], '(length %s)', 'nat'),
    ("len(E_x)", ['E_x'], ['pts'], '(length %s)', 'nat'),
    ("len(E_x)", ['E_x'], ['newset'], '(length %s)', 'nat'),
    ("len(E_x)", ['E_x'], ['zvec'], '(py_len %s)', 'int'),
    ("len(E_x)", ['E_x'], ['tup'], '(tup_len %s)', 'int'),
    # FindLinker
    ("self.search_range", [], [], '(fk_search_range self)', 'metric'),
    ("E_s.pos", ['E_s'], ['item'], '(point_pos self %s)', 'pt'),
    ("set()", [], [], '[]', 'newset'),
    ("set(E_x)", ['E_x'], ['optset'], '%s', 'optset'),
    ("E_a & E_b", ['E_a', 'E_b'], ['newset', 'optset'], '(new_inter %s %s)', 'newset'),
    ("E_a - E_b", ['E_a', 'E_b'], ['natset', 'optset'], '(set_diff_opt %s %s)', 'natset'),
    ("E_a - E_b", ['E_a', 'E_b'], ['natset', 'newset'], '(set_diff_new %s %s)', 'natset'),
    ("[None] * E_n", ['E_n'], ['nat'], '(nones %s)', 'optset'),
    # driver
    ("reader[0].shape", [], [], '(np_shape (r_image (fst reader)))', 'zvec'),
    ("validate_tuple(E_t, E_n)", ['E_t', 'E_n'], ['tup', 'int'], '(validate_tup %s %s)', 'tup'),
    ("next(reader_iter)", [], [], '(fst reader)', 'rframe'),
    ("proc_func(E_i)", ['E_i'], ['rframe'], '(proc_func (r_image %s))', 'image'),
    ("grey_dilation(E_i, E_s, E_p, E_m, precise=True)", ['E_i', 'E_s', 'E_p', 'E_m'], ['image', 'tup', 'Q', 'tup'],
     '(grey_dilation_f %s %s %s %s)', 'pts'),
    ("characterize(E_c, E_i, E_r)", ['E_c', 'E_i', 'E_r'], ['pts', 'rframe', 'tup'], '(characterize_f %s (r_image %s) %s)', 'extra'),
    ("E_e['mass'] >= E_m", ['E_e', 'E_m'], ['extra', 'Q'], '(vec_ge_minmass (extra_mass %s) %s)', 'bvec'),
    ("E_e['mass'] > E_m", ['E_e', 'E_m'], ['extra', 'Q'], '(vec_gt_minmass (extra_mass %s) %s)', 'bvec'),
    ("E_c[E_m]", ['E_m', 'E_c'], ['bvec', 'pts'], '(mask_select %s %s)', 'pts'),
    ("E_i.frame_no", ['E_i'], ['rframe'], '(r_no %s)', 'Z'),
    ("linker.coords_df", [], [], '(flk_coords_df linker)', 'table'),
    ("FindLinker(E_a, E_b, E_c, E_d, E_e, **kwargs)", ['E_a', 'E_b', 'E_c', 'E_d', 'E_e'], ['tup', 'tup', 'opttup', 'Q', 'Q'],
     '(py_FindLinker_init k %s %s %s %s %s kwargs)', 'flinit'),
]]

SELF_FIELDS = {
    'Subnets': {},
    'FindLinker': {},
    'init': {'ndim': 'int', 'radius': 'tupint', 'separation': 'tup', 'slice_radius': 'tupint'},
}


class Ctx:
    def __init__(self, cls):
        self.cls = cls
        self.env = {}

    def bind(self, n, t):
        self.env[n] = t

    def exT(self, e, want):
        if want == 'nat' and isinstance(e, ast.Constant) and type(e.value) is int and e.value >= 0:
            return '%d%%nat' % e.value
        if want == 'opttup':
            s, t = self.ex(e)
            if t == 'tup':
                return '(Some %s)' % s
            if t == 'opttup':
                return s
            fail(e, 'expected a tuple, got %s' % t)
        s, t = self.ex(e)
        if t == want:
            return s
        if want == 'num' and t == 'int':
            return '(int_num k %s)' % s
        fail(e, 'expression `%s` has type %s, expected %s' % (ast.unparse(e), t, want))

    def ex(self, e):
        for p, binders, tys, tmpl, rty in PAT:
            b = {}
            if match(p, e, b):
                try:
                    args = tuple(self.exT(b[k], t) for k, t in zip(binders, tys))
                except TranslationError:
                    continue
                return (tmpl % args), rty
        if isinstance(e, ast.Name):
            if e.id not in self.env:
                fail(e, 'name %s is read where it is not bound' % e.id)
            return e.id, self.env[e.id]
        if isinstance(e, ast.Attribute) and isinstance(e.value, ast.Name) and e.value.id == 'self' and self.cls == 'init':
            if e.attr not in SELF_FIELDS['init']:
                fail(e, 'unknown field self.%s' % e.attr)
            return '(i_%s self)' % e.attr, SELF_FIELDS['init'][e.attr]
        if isinstance(e, ast.Constant) and type(e.value) is int:
            return '%d' % e.value, 'int'
        if isinstance(e, ast.Tuple) and len(e.elts) == 2:
            a, ta = self.ex(e.elts[0])
            c, tc = self.ex(e.elts[1])
            return '(%s, %s)' % (a, c), 'pair:%s:%s' % (ta, tc)
        if isinstance(e, ast.BinOp):
            a, ta = self.ex(e.left)
            c, tc = self.ex(e.right)
            if isinstance(e.op, ast.Add) and ta == 'nat' and tc == 'int' and isinstance(e.right, ast.Constant):
                return '(%s + %s)%%nat' % (a, c), 'nat'
            if isinstance(e.op, ast.Sub) and ta == 'nat' and tc == 'nat':
                return '(py_sub_len %s %s)' % (a, c), 'Zdiff'
            if isinstance(e.op, ast.Add) and ta in ('int', 'num') and tc in ('int', 'num'):
                if ta == 'int' and tc == 'int':
                    return '(%s + %s)' % (a, c), 'int'
                return '(%s + %s)' % (self.exT(e.left, 'num'), self.exT(e.right, 'num')), 'num'
            fail(e, 'unsupported operator %s on %s and %s' % (type(e.op).__name__, ta, tc))
        if isinstance(e, ast.Call) and isinstance(e.func, ast.Name) and e.func.id == 'max' and len(e.args) == 2 and not e.keywords:
            a, ta = self.ex(e.args[0])
            c, tc = self.ex(e.args[1])
            if ta == 'int' and tc == 'int':
                return '(Z.max %s %s)' % (a, c), 'int'
            return '(Z.max %s %s)' % (self.exT(e.args[0], 'num'), self.exT(e.args[1], 'num')), 'num'
        if isinstance(e, ast.Call) and isinstance(e.func, ast.Name) and e.func.id == 'int' and len(e.args) == 1 and not e.keywords:
            x = e.args[0]
            b = {}
            if match(P("E_d // 2"), x, b):
                return '(num_half_int k %s)' % self.exT(b['E_d'], 'num'), 'int'
            if match(P("2 * E_s / np.sqrt(self.ndim)"), x, b) and self.cls == 'init':
                return '(dilation_entry k (i_ndim self) %s)' % self.exT(b['E_s'], 'num'), 'int'
            return '(num_int k %s)' % self.exT(x, 'num'), 'int'
        if isinstance(e, ast.Compare) and len(e.ops) == 1:
            return self.compare(e)
        if isinstance(e, ast.UnaryOp) and isinstance(e.op, ast.Not):
            return '(negb %s)' % self.exT(e.operand, 'bool'), 'bool'
        fail(e, 'unsupported expression `%s`' % ast.unparse(e))

    def compare(self, e):
        op, l, r = e.ops[0], e.left, e.comparators[0]
        a, ta = self.ex(l)
        if isinstance(r, ast.Constant) and r.value == 0 and type(r.value) is int:
            if ta == 'nat':
                if isinstance(op, ast.Gt):
                    return '(0 <? %s)%%nat' % a, 'bool'
                if isinstance(op, ast.Eq):
                    return '(%s =? 0)%%nat' % a, 'bool'
                if isinstance(op, ast.GtE):
                    return '(0 <=? %s)%%nat' % a, 'bool'
            if ta == 'Zdiff':
                if isinstance(op, ast.Gt):
                    return '(0 <? %s)' % a, 'bool'
                if isinstance(op, ast.GtE):
                    return '(0 <=? %s)' % a, 'bool'
                if isinstance(op, ast.Lt):
                    return '(%s <? 0)' % a, 'bool'
            fail(e, 'unsupported comparison of a %s with 0' % ta)
        c, tc = self.ex(r)
        if ta == 'optnat' and tc == 'optnat':
            if isinstance(op, ast.NotEq):
                return '(negb (optnat_eqb %s %s))' % (a, c), 'bool'
            if isinstance(op, ast.Eq):
                return '(optnat_eqb %s %s)' % (a, c), 'bool'
            if isinstance(op, ast.Gt):
                return '(optnat_ltb %s %s)' % (c, a), 'bool'
            if isinstance(op, ast.Lt):
                return '(optnat_ltb %s %s)' % (a, c), 'bool'
        fail(e, 'unsupported comparison %s of a %s with a %s' % (type(op).__name__, ta, tc))


# ---------------------------------------------------------------- script helpers
class Script:
    def __init__(self, fdef):
        self.f = fdef
        self.stmts = [s for s in fdef.body
                      if not (isinstance(s, ast.Expr) and isinstance(s.value, ast.Constant) and isinstance(s.value.value, str))]
        self.i = 0

    def peek(self):
        if self.i >= len(self.stmts):
            fail(self.f, 'function %s ends early' % self.f.name)
        return self.stmts[self.i]

    def take(self):
        s = self.peek()
        self.i += 1
        return s

    def done(self):
        if self.i != len(self.stmts):
            fail(self.stmts[self.i], 'unexpected statement `%s`' % ast.unparse(self.stmts[self.i]).split('\n')[0])


def expect(s, kind, what):
    if not isinstance(s, kind):
        fail(s, 'expected %s, found `%s`' % (what, ast.unparse(s).split('\n')[0]))
    return s


def assign_to(s, name):
    expect(s, ast.Assign, 'assignment to %s' % name)
    if len(s.targets) != 1 or ast.unparse(s.targets[0]).strip('()') != name.strip('()'):
        fail(s, 'expected assignment to %s, found `%s`' % (name, ast.unparse(s).split('\n')[0]))
    return s.value


def same_src(nodes, src, what):
    want = ast.parse(src).body
    if len(nodes) != len(want) or any(norm(a) != norm(b) for a, b in zip(nodes, want)):
        fail(nodes[0] if nodes else None, 'the %s differs from the pinned text' % what)


def only(body, n, node, what):
    if len(body) != n:
        fail(node, '%s: expected %d statement(s), found %d' % (what, n, len(body)))


def no_else(s):
    if s.orelse:
        fail(s, 'unexpected else')


def check_sig(f, args, defaults, vararg=None, kwarg=None):
    a = f.args
    got = [x.arg for x in a.args]
    gd = [ast.unparse(d) for d in a.defaults]
    if got != args or gd != defaults or a.kwonlyargs or a.posonlyargs or \
            (a.vararg.arg if a.vararg else None) != vararg or (a.kwarg.arg if a.kwarg else None) != kwarg or f.decorator_list:
        fail(f, 'signature of %s changed: (%s) defaults (%s)' % (f.name, ', '.join(got), ', '.join(gd)))


# ---------------------------------------------------------------- Subnets.include_lost
def gen_include_lost(f):
    check_sig(f, ['self'], [])
    S = Script(f)
    c = Ctx('Subnets')
    o = []
    o.append('(* ===== Subnets.include_lost (line %d) ===== *)' % f.lineno)
    o.append('Definition py_include_lost (self : subnets_t) : subnets_t :=')
    s = expect(S.take(), ast.If, 'if len(self.subnets) > 0')
    only(s.body, 1, s, 'then'); only(s.orelse, 1, s, 'else')
    cond = c.exT(s.test, 'bool')
    v1 = c.exT(assign_to(s.body[0], 'counter'), 'counter')
    v2 = c.exT(assign_to(s.orelse[0], 'counter'), 'counter')
    o += ['  %s' % cmt(s, 'if %s:' % ast.unparse(s.test)), '  let counter :=', '    if %s then' % cond, '      %s' % cmt(s.body[0]),
          '      %s' % v1, '    else', '      %s' % cmt(s.orelse[0]), '      %s in' % v2]
    c.bind('counter', 'counter')
    s = expect(S.take(), ast.For, 'for p in self.source_hash.points')
    no_else(s)
    if ast.unparse(s.target) != 'p':
        fail(s, 'loop variable')
    it = c.exT(s.iter, 'items')
    c.bind('p', 'item')
    only(s.body, 1, s, 'loop body')
    i = expect(s.body[0], ast.If, 'if len(p.forward_cands) == 0')
    no_else(i)
    only(i.body, 3, i, 'body of the if')
    cond = c.exT(i.test, 'bool')
    a = i.body[0]
    nx = c.exT(assign_to(a, 'subnet'), 'natcounter')
    c.bind('subnet', 'nat')
    b = {}
    st = i.body[1]
    if not (isinstance(st, ast.Assign) and match(P("self.subnets[E_k]"), st.targets[0], b) and match(P("({E_p}, set())"), st.value, b)):
        fail(st, 'expected self.subnets[subnet] = {p}, set()')
    key = c.exT(b['E_k'], 'nat')
    pnt = c.exT(b['E_p'], 'item')
    st2 = i.body[2]
    if not (isinstance(st2, ast.Assign) and ast.unparse(st2.targets[0]) == ast.unparse(b['E_p']) + '.subnet'
            and ast.unparse(st2.value) == ast.unparse(b['E_k'])):
        fail(st2, 'expected %s.subnet = %s (the attribute is derived from the dictionary)' % (ast.unparse(b['E_p']), ast.unparse(b['E_k'])))
    o += ['  %s' % cmt(s, 'for p in %s:' % ast.unparse(s.iter)), "  let '(self, counter) :=",
          "    fold_left (fun acc p => let '(self, counter) := acc in",
          '      %s' % cmt(i, 'if %s:' % ast.unparse(i.test)), '      if %s then' % cond,
          '        %s' % cmt(a), "        let '(subnet, counter) := %s in" % nx,
          '        %s' % cmt(st), '        let self := set_sn_subnets self (d_set %s [%s] (sn_subnets self)) in' % (key, pnt),
          '        %s' % cmt(st2), '        (self, counter)', '      else', '        (self, counter)) %s (self, counter) in' % it]
    s = S.take()
    if not (isinstance(s, ast.Assign) and ast.unparse(s) == 'self.includes_lost = True'):
        fail(s, 'expected self.includes_lost = True')
    o += ['  %s' % cmt(s), '  let self := set_sn_includes_lost self true in', '  self.']
    S.done()
    return '\n'.join(o)


QUERY_MERGE = """
source_hash = self.source_hash
lost_coords = source_hash.predict(lost_source)
dists, inds = source_hash.query(lost_coords, self.max_neighbors, rescale=True, search_range=RANGE)
nn = np.sum(np.isfinite(dists), 1)
"""
MERGE_BLOCK = """
self.subnets[i2][0].update(self.subnets[i1][0])
self.subnets[i2][1].update(self.subnets[i1][1])
for p in itertools.chain(*self.subnets[i1]):
    p.subnet = i2
del self.subnets[i1]
"""


# ---------------------------------------------------------------- Subnets.merge_lost_subnets
def gen_merge_lost(f):
    check_sig(f, ['self', 'search_range'], [])
    S = Script(f)
    c = Ctx('Subnets')
    c.bind('search_range', 'metric')
    o = ['(* ===== Subnets.merge_lost_subnets (line %d) ===== *)' % f.lineno,
         'Definition py_merge_lost_subnets (self : subnets_t) (search_range : metric) : subnets_t :=']
    s = expect(S.take(), ast.If, 'if not self.includes_lost')
    no_else(s); only(s.body, 1, s, 'body')
    if ast.unparse(s.test) != 'not self.includes_lost' or ast.unparse(s.body[0]) != 'self.include_lost()':
        fail(s, 'expected if not self.includes_lost: self.include_lost()')
    o += ['  %s' % cmt(s, 'if not self.includes_lost:'), '  let self :=', '    if (negb (sn_includes_lost self)) then',
          '      %s' % cmt(s.body[0]), '      (py_include_lost self)', '    else', '      self in']
    s = S.take()
    if ast.unparse(s) != 'lost_source = []':
        fail(s, 'expected lost_source = []')
    o += ['  %s' % cmt(s), '  let lost_source := [] in']
    c.bind('lost_source', 'group')
    s = expect(S.take(), ast.For, 'for key in self.subnets')
    no_else(s)
    if ast.unparse(s.target) != 'key' or ast.unparse(s.iter) != 'self.subnets':
        fail(s, 'expected for key in self.subnets')
    c.bind('key', 'nat')
    only(s.body, 3, s, 'loop body')
    a0 = s.body[0]
    ent = c.exT(assign_to(a0, 'source, dest'), 'entry')
    c.bind('source', 'group'); c.bind('dest', 'natset')
    a1 = s.body[1]
    sh = c.exT(assign_to(a1, 'shortage'), 'Zdiff')
    c.bind('shortage', 'Zdiff')
    i = expect(s.body[2], ast.If, 'if shortage > 0')
    no_else(i); only(i.body, 1, i, 'body')
    cond = c.exT(i.test, 'bool')
    b = {}
    if not (isinstance(i.body[0], ast.Expr) and match(P("lost_source.extend(E_x)"), i.body[0].value, b)):
        fail(i.body[0], 'expected lost_source.extend(..)')
    ext = c.exT(b['E_x'], 'group')
    o += ['  %s' % cmt(s, 'for key in self.subnets:'), '  let lost_source :=', '    fold_left (fun lost_source key =>',
          '      %s' % cmt(a0), "      let '(source, dest) := %s in" % ent, '      %s' % cmt(a1), '      let shortage := %s in' % sh,
          '      %s' % cmt(i, 'if %s:' % ast.unparse(i.test)), '      if %s then' % cond, '        %s' % cmt(i.body[0]),
          '        (lost_source ++ %s)' % ext, '      else', '        lost_source) (d_keys (sn_subnets self)) lost_source in']
    s = expect(S.take(), ast.If, 'if len(lost_source) == 0')
    no_else(s); only(s.body, 1, s, 'body')
    if not (isinstance(s.body[0], ast.Return) and s.body[0].value is None):
        fail(s, 'expected a bare return')
    cond = c.exT(s.test, 'bool')
    o += ['  %s' % cmt(s, 'if %s:' % ast.unparse(s.test)), '  if %s then' % cond, '    %s' % cmt(s.body[0]), '    self', '  else']
    q = [S.take() for _ in range(4)]
    b = {}
    if not match(P("source_hash.query(lost_coords, self.max_neighbors, rescale=True, search_range=E_r)"), q[2].value if isinstance(q[2], ast.Assign) else None or ast.Constant(0), b):
        fail(q[2], 'the neighbour query of merge_lost_subnets differs from the pinned text')
    rng = c.exT(b['E_r'], 'metric')
    same_src(q, QUERY_MERGE.replace('RANGE', ast.unparse(b['E_r'])), 'neighbour query of merge_lost_subnets')
    o += ['  (* %d-%d: source_hash.query(lost_coords, self.max_neighbors, rescale=True, search_range=%s) *)'
          % (q[0].lineno, q[3].lineno, ast.unparse(b['E_r']))]
    s = expect(S.take(), ast.For, 'for i, p in enumerate(lost_source)')
    no_else(s)
    if ast.unparse(s.target) != '(i, p)' or ast.unparse(s.iter) != 'enumerate(lost_source)':
        fail(s, 'expected for i, p in enumerate(lost_source)')
    only(s.body, 1, s, 'loop body')
    s2 = expect(s.body[0], ast.For, 'for j in range(nn[i])')
    no_else(s2)
    if ast.unparse(s2.target) != 'j' or ast.unparse(s2.iter) != 'range(nn[i])':
        fail(s2, 'expected for j in range(nn[i])')
    only(s2.body, 3, s2, 'inner loop body')
    w = s2.body[0]
    if ast.unparse(w) != 'wp = self.source_hash.points[inds[i, j]]':
        fail(w, 'expected wp = self.source_hash.points[inds[i, j]]')
    c.bind('p', 'item'); c.bind('wp', 'sidx')
    a = s2.body[1]
    pr, tp = c.ex(assign_to(a, 'i1, i2'))
    if tp != 'pair:optnat:optnat':
        fail(a, 'i1, i2 must be two subnet keys')
    c.bind('i1', 'optnat'); c.bind('i2', 'optnat')
    i = expect(s2.body[2], ast.If, 'if i1 != i2')
    no_else(i)
    cond = c.exT(i.test, 'bool')
    if len(i.body) != 5:
        fail(i, 'body of `if i1 != i2`: expected the swap and the five merging statements')
    sw = expect(i.body[0], ast.If, 'if i2 > i1')
    no_else(sw); only(sw.body, 1, sw, 'swap')
    swc = c.exT(sw.test, 'bool')
    sv, st = c.ex(assign_to(sw.body[0], 'i1, i2'))
    if st != 'pair:optnat:optnat':
        fail(sw, 'swap')
    same_src(i.body[1:], MERGE_BLOCK, 'block that merges subnets[i1] into subnets[i2]')
    o += ['  %s' % cmt(s, 'for i, p in enumerate(lost_source):'), '  let self :=', '    fold_left (fun self p =>',
          '      (* %d: for j in range(nn[i]): %d: %s *)' % (s2.lineno, w.lineno, ast.unparse(w)),
          '      fold_left (fun self wp =>', '        %s' % cmt(a), "        let '(i1, i2) := %s in" % pr,
          '        %s' % cmt(i, 'if %s:' % ast.unparse(i.test)), '        if %s then' % cond,
          '          %s' % cmt(sw, 'if %s:' % ast.unparse(sw.test)), "          let '(i1, i2) :=", '            if %s then' % swc,
          '              %s' % cmt(sw.body[0]), '              %s' % sv, '            else', '              (i1, i2) in',
          '          (* %d-%d: subnets[i2] takes over subnets[i1]; del self.subnets[i1] *)' % (i.body[1].lineno, i.body[-1].lineno),
          '          (subnets_merge self i2 i1)', '        else',
          '          self) (hash_query_within self %s p) self) lost_source self in' % rng, '  self.']
    S.done()
    return '\n'.join(o)


QUERY_ADD = """
source_hash = self.source_hash
source_coord = source_hash.predict(source_points)
new_dest_hash = source_hash.__class__(dest_points, search_range)
dists, inds = new_dest_hash.query(source_coord, max(len(source_points), 2), rescale=True, search_range=search_range)
nn = np.sum(np.isfinite(dists), 1)
"""


# ---------------------------------------------------------------- Subnets.add_dest_points
def gen_add_dest(f):
    check_sig(f, ['self', 'source_points', 'dest_points', 'search_range'], [])
    S = Script(f)
    c = Ctx('Subnets')
    c.bind('source_points', 'group'); c.bind('dest_points', 'pts'); c.bind('search_range', 'metric')
    o = ['(* ===== Subnets.add_dest_points (line %d) ===== *)' % f.lineno,
         'Definition py_add_dest_points (self : subnets_t) (source_points : group) (dest_points : list pt) (search_range : metric) (base : nat) : group * list new_pt :=']
    s = expect(S.take(), ast.If, 'if len(dest_points) == 0')
    no_else(s); only(s.body, 1, s, 'body')
    if not (isinstance(s.body[0], ast.Return) and s.body[0].value is None):
        fail(s, 'expected a bare return')
    o += ['  %s' % cmt(s, 'if %s:' % ast.unparse(s.test)), '  if %s then' % c.exT(s.test, 'bool'), '    %s' % cmt(s.body[0]),
          '    (source_points, [])', '  else']
    s = S.take()
    if ast.unparse(s) != 'source_points = list(source_points)':
        fail(s, 'expected source_points = list(source_points)')
    o += ['  %s' % cmt(s), '  let source_points := source_points in']
    q = [S.take() for _ in range(5)]
    same_src(q, QUERY_ADD, 'neighbour query of add_dest_points')
    o += ['  (* %d-%d: new_dest_hash.query(source_coord, max(len(source_points), 2), rescale=True, search_range=search_range) *)'
          % (q[0].lineno, q[4].lineno),
          '  let new_points := (number_from base (filter (in_range_of self search_range source_points) dest_points)) in']
    s = expect(S.take(), ast.For, 'for i, source in enumerate(source_points)')
    no_else(s)
    if ast.unparse(s.target) != '(i, source)' or ast.unparse(s.iter) != 'enumerate(source_points)':
        fail(s, 'expected for i, source in enumerate(source_points)')
    only(s.body, 1, s, 'loop body')
    s2 = expect(s.body[0], ast.For, 'for j in range(nn[i])')
    no_else(s2)
    if ast.unparse(s2.target) != 'j' or ast.unparse(s2.iter) != 'range(nn[i])':
        fail(s2, 'expected for j in range(nn[i])')
    only(s2.body, 4, s2, 'inner loop body')
    w = s2.body[0]
    if ast.unparse(w) != 'dest = new_dest_hash.points[inds[i, j]]':
        fail(w, 'expected dest = new_dest_hash.points[inds[i, j]]')
    ap = s2.body[1]
    if ast.unparse(ap) != 'source.forward_cands.append((dest, dists[i, j]))':
        fail(ap, 'expected source.forward_cands.append((dest, dists[i, j]))')
    d1, d2 = s2.body[2], s2.body[3]
    if ast.unparse(d1) != 'self.subnets[source.subnet][1].add(dest)' or ast.unparse(d2) != 'dest.subnet = source.subnet':
        fail(d1, 'expected the destination to join the subnet of its source (derived state)')
    o += ['  %s' % cmt(s, 'for i, source in enumerate(source_points):'), '  let source_points :=', '    map (fun source =>',
          '      (* %d: for j in range(nn[i]): %d: %s *)' % (s2.lineno, w.lineno, ast.unparse(w)),
          '      fold_left (fun source dest =>', '        %s' % cmt(ap), '        let source := (fc_append source dest) in',
          '        %s' % cmt(d1), '        %s' % cmt(d2),
          '        source) (near_new self search_range source (map snd new_points) base) source) source_points in']
    s = expect(S.take(), ast.For, 'for p in source_points')
    no_else(s); only(s.body, 1, s, 'loop body')
    if ast.unparse(s.target) != 'p' or ast.unparse(s.iter) != 'source_points' or \
            ast.unparse(s.body[0]) != 'p.forward_cands.sort(key=lambda x: x[1])':
        fail(s, 'expected the loop that sorts the forward candidates by distance')
    o += ['  %s' % cmt(s, 'for p in source_points:'), '  let source_points :=', '    map (fun p =>', '      %s' % cmt(s.body[0]),
          '      (fc_sort p)) source_points in', '  (source_points, new_points).']
    S.done()
    return '\n'.join(o)


# ---------------------------------------------------------------- FindLinker.assign_links
def gen_assign_links(f):
    check_sig(f, ['self'], [])
    S = Script(f)
    c = Ctx('FindLinker')
    o = ['(* ===== FindLinker.assign_links (line %d) ===== *)' % f.lineno,
         'Definition py_assign_links (self : flk) : result (flk * list (option nat) * list (option nat)) :=']
    s = S.take()
    if ast.unparse(s) != 'self.subnets.include_lost()':
        fail(s, 'expected self.subnets.include_lost()')
    o += ['  %s' % cmt(s), '  let self := set_k_subnets self (py_include_lost (k_subnets self)) in']
    s = S.take()
    b = {}
    if not (isinstance(s, ast.Expr) and match(P("self.subnets.merge_lost_subnets(E_r)"), s.value, b)):
        fail(s, 'expected self.subnets.merge_lost_subnets(..)')
    o += ['  %s' % cmt(s), '  let self := set_k_subnets self (py_merge_lost_subnets (k_subnets self) %s) in' % c.exT(b['E_r'], 'metric')]
    s = S.take()
    if ast.unparse(s) != 'spl, dpl = ([], [])':
        fail(s, 'expected spl, dpl = [], []')
    o += ['  %s' % cmt(s), "  let '(spl, dpl) := ([], []) in"]
    c.bind('spl', 'optset'); c.bind('dpl', 'optset')
    lp = expect(S.take(), ast.For, 'for source_set, dest_set in self.subnets')
    no_else(lp)
    if ast.unparse(lp.target) != '(source_set, dest_set)' or ast.unparse(lp.iter) != 'self.subnets':
        fail(lp, 'expected for source_set, dest_set in self.subnets')
    c.bind('source_set', 'group'); c.bind('dest_set', 'natset')
    B = Script(lp)
    o += ['  %s' % cmt(lp, 'for source_set, dest_set in self.subnets:'),
          "  fold_result (fun acc it => let '(self, spl, dpl) := acc in let '(source_set, dest_set) := it in"]
    s = B.take()
    o += ['    %s' % cmt(s), '    let shortage := %s in' % c.exT(assign_to(s, 'shortage'), 'Zdiff')]
    c.bind('shortage', 'Zdiff')
    i = expect(B.take(), ast.If, 'if shortage > 0')
    cond = c.exT(i.test, 'bool')
    only(i.body, 3, i, 'then-branch'); only(i.orelse, 1, i, 'else-branch')
    pi = expect(i.body[0], ast.If, 'if self.predictor is not None')
    if ast.unparse(pi.test) != 'self.predictor is not None':
        fail(pi, 'expected if self.predictor is not None')
    same_src(pi.body, "sh = self.subnets.source_hash\npos = [c for c, p in zip(sh.coords_mapped, sh.points) if p in source_set]\n",
             'predicted positions of the sources')
    only(pi.orelse, 1, pi, 'else')
    pe = pi.orelse[0]
    b = {}
    if not (isinstance(pe, ast.Assign) and ast.unparse(pe.targets[0]) == 'pos' and match(P("[E_x for F_s in E_l]"), pe.value, b)):
        fail(pe, 'expected pos = [s.pos for s in source_set]')
    c.bind(b['F_s'], 'item')
    elt = c.exT(b['E_x'], 'pt')
    lst = c.exT(b['E_l'], 'group')
    c.bind('pos', 'pts')
    rc = i.body[1]
    b2 = {}
    if not (isinstance(rc, ast.Assign) and ast.unparse(rc.targets[0]) == 'new_cands' and match(P("self.relocate(E_p, E_n)"), rc.value, b2)):
        fail(rc, 'expected new_cands = self.relocate(pos, shortage)')
    rp = c.exT(b2['E_p'], 'pts')
    rn = c.exT(b2['E_n'], 'Zdiff')
    c.bind('new_cands', 'pts')
    ad = i.body[2]
    b3 = {}
    if not (isinstance(ad, ast.Expr) and match(P("self.subnets.add_dest_points(E_s, E_d, E_r)"), ad.value, b3)):
        fail(ad, 'expected self.subnets.add_dest_points(source_set, new_cands, self.search_range)')
    if ast.unparse(b3['E_s']) != 'source_set':
        fail(ad, 'add_dest_points must be given the source set of the subnet')
    a1 = c.exT(b3['E_s'], 'group'); a2 = c.exT(b3['E_d'], 'pts'); a3 = c.exT(b3['E_r'], 'metric')
    if ast.unparse(b3['E_d']) != 'new_cands':
        fail(ad, 'add_dest_points must be given new_cands')
    el = i.orelse[0]
    c.bind('new_cands', 'newset')
    ev = c.exT(assign_to(el, 'new_cands'), 'newset')
    o += ['    %s' % cmt(i, 'if %s:' % ast.unparse(i.test)), "    let '(self, source_set, dest_set, new_cands) :=", '      if %s then' % cond,
          '        %s' % cmt(pi, 'if self.predictor is not None:'), '        let pos :=', '          match k_pred self with', '          | Some _ =>',
          '            %s' % cmt(pi.body[0]), '            %s' % cmt(pi.body[1]), '            (pos_hash_order self source_set)', '          | None =>',
          '            %s' % cmt(pe), '            (map (fun %s => %s) %s)' % (b['F_s'], elt, lst), '          end in',
          '        %s' % cmt(rc), '        let new_cands := (flk_relocate relocate_m self %s (Z.to_nat %s)) in' % (rp, rn),
          '        %s' % cmt(ad),
          "        let '(source_set, new_cands) := (py_add_dest_points (k_subnets self) %s %s %s (k_next self)) in" % (a1, a2, a3),
          '        let self := set_k_next self (k_next self + length new_cands)%nat in',
          '        let dest_set := dest_set ++ map fst new_cands in', '        (self, source_set, dest_set, new_cands)', '      else',
          '        %s' % cmt(el), '        let new_cands := %s in' % ev, '        (self, source_set, dest_set, new_cands) in']
    s = expect(B.take(), ast.For, 'for sp in source_set')
    no_else(s); only(s.body, 1, s, 'loop body')
    if ast.unparse(s.target) != 'sp' or ast.unparse(s.iter) != 'source_set' or \
            ast.unparse(s.body[0]) != 'sp.forward_cands.sort(key=lambda x: x[1])':
        fail(s, 'expected the loop that sorts the forward candidates of the sources by distance (it has to stand between the last append and the subnet linker)')
    o += ['    %s' % cmt(s, 'for sp in source_set:'), '    let source_set :=', '      map (fun sp =>', '        %s' % cmt(s.body[0]),
          '        (fc_sort sp)) source_set in']
    s = B.take()
    b = {}
    if not (isinstance(s, ast.Assign) and ast.unparse(s.targets[0]) == '(sn_spl, sn_dpl)'
            and match(P("self.subnet_linker(E_s, E_d, E_r)"), s.value, b)):
        fail(s, 'expected sn_spl, sn_dpl = self.subnet_linker(source_set, dest_set, self.search_range)')
    l1 = c.exT(b['E_s'], 'group'); l2 = c.exT(b['E_d'], 'natset'); c.exT(b['E_r'], 'metric')
    if ast.unparse(b['E_r']) != 'self.search_range':
        fail(s, 'the subnet linker must be given self.search_range')
    o += ['    %s' % cmt(s), '    match (subnet_linker self %s %s) with' % (l1, l2), '    | Oversize => Oversize', '    | Ok (sn_spl, sn_dpl) =>']
    c.bind('sn_spl', 'optset'); c.bind('sn_dpl', 'optset')
    s = B.take()
    o += ['    %s' % cmt(s), '    let sn_dpl_set := %s in' % c.exT(assign_to(s, 'sn_dpl_set'), 'optset')]
    c.bind('sn_dpl_set', 'optset')
    s = expect(B.take(), ast.For, 'for p in new_cands & sn_dpl_set')
    no_else(s); only(s.body, 1, s, 'loop body')
    if ast.unparse(s.target) != 'p' or ast.unparse(s.body[0]) != 'self.hash.add_point(p)':
        fail(s, 'expected for p in ..: self.hash.add_point(p)')
    o += ['    %s' % cmt(s, 'for p in %s:' % ast.unparse(s.iter)), '    let self :=', '      fold_left (fun self p =>', '        %s' % cmt(s.body[0]),
          '        (hash_add_new self p)) %s self in' % c.exT(s.iter, 'newset')]
    s = B.take()
    o += ['    %s' % cmt(s), '    let unclaimed := %s in' % c.exT(assign_to(s, 'unclaimed'), 'natset')]
    c.bind('unclaimed', 'natset')
    s = B.take(); b = {}
    if not (isinstance(s, ast.Expr) and match(P("sn_spl.extend(E_x)"), s.value, b)):
        fail(s, 'expected sn_spl.extend([None] * len(unclaimed))')
    o += ['    %s' % cmt(s), '    let sn_spl := sn_spl ++ %s in' % c.exT(b['E_x'], 'optset')]
    s = B.take(); b = {}
    if not (isinstance(s, ast.Expr) and match(P("sn_dpl.extend(E_x)"), s.value, b)):
        fail(s, 'expected sn_dpl.extend(unclaimed)')
    o += ['    %s' % cmt(s), '    let sn_dpl := sn_dpl ++ (somes %s) in' % c.exT(b['E_x'], 'natset')]
    for nm, src in (('spl', 'sn_spl'), ('dpl', 'sn_dpl')):
        s = B.take(); b = {}
        if not (isinstance(s, ast.Expr) and match(P("%s.extend(E_x)" % nm), s.value, b)):
            fail(s, 'expected %s.extend(%s)' % (nm, src))
        o += ['    %s' % cmt(s), '    let %s := %s ++ %s in' % (nm, nm, c.exT(b['E_x'], 'optset'))]
    B.done()
    o += ['    Ok (self, spl, dpl)', '    end) (subnets_iter ord (k_subnets self)) (self, spl, dpl).']
    s = S.take()
    if ast.unparse(s) != 'return (spl, dpl)':
        fail(s, 'expected return spl, dpl')
    S.done()
    return '\n'.join(o)


# ---------------------------------------------------------------- FindLinker.next_level
def gen_next_level(f):
    check_sig(f, ['self', 'coords', 't', 'image', 'extra_data'], ['None'])
    S = Script(f)
    o = ['(* ===== FindLinker.next_level (line %d) ===== *)' % f.lineno,
         'Definition py_next_level (self : flk) (coords : list pt) (t : Z) (image : image) : result flk :=']
    for tgt, arg, setter in (('self.image', 'image', 'set_k_image'), ('self.curr_t', 't', 'set_k_curr_t')):
        s = S.take()
        if ast.unparse(s) != '%s = %s' % (tgt, arg):
            fail(s, 'expected %s = %s' % (tgt, arg))
        o += ['  %s' % cmt(s), '  let self := %s self %s in' % (setter, arg)]
    s = S.take()
    if ast.unparse(s) != 'prev_hash = self.update_hash(coords, t, extra_data)':
        fail(s, 'expected prev_hash = self.update_hash(coords, t, extra_data)')
    o += ['  %s' % cmt(s), '  let self := (flk_update_hash self coords) in']
    s = S.take()
    if ast.unparse(s) != 'self.subnets = Subnets(prev_hash, self.hash, self.search_range, self.MAX_NEIGHBORS)':
        fail(s, 'expected self.subnets = Subnets(prev_hash, self.hash, self.search_range, self.MAX_NEIGHBORS)')
    o += ['  %s' % cmt(s), '  let self := set_k_subnets self (subnets_new self) in']
    s = S.take()
    if ast.unparse(s) != 'spl, dpl = self.assign_links()':
        fail(s, 'expected spl, dpl = self.assign_links()')
    o += ['  %s' % cmt(s), '  match (py_assign_links self) with', '  | Oversize => Oversize', '  | Ok (self, spl, dpl) =>']
    s = S.take()
    if ast.unparse(s) != 'self.apply_links(spl, dpl)':
        fail(s, 'expected self.apply_links(spl, dpl)')
    o += ['  %s' % cmt(s), '  let self := (flk_apply_links self spl dpl) in', '  Ok self', '  end.']
    S.done()
    return '\n'.join(o)


ANISO = "self.bg_radius = max([a / b for a, b in zip(bg_radius, search_range)])"


# ---------------------------------------------------------------- FindLinker.__init__
def comp(c, node, what):
    """tuple([E for vars in zip(..)/iterable]) or [E for ...] over isotropic tuples -> tup_map*"""
    b = {}
    inner = node
    if match(P("tuple(E_l)"), node, b):
        inner = b['E_l']
    if not (isinstance(inner, ast.ListComp) and len(inner.generators) == 1 and not inner.generators[0].ifs
            and not inner.generators[0].is_async):
        fail(node, '%s: expected a list comprehension' % what)
    g = inner.generators[0]
    if isinstance(g.target, ast.Name):
        names = [g.target.id]
        its = [g.iter]
    elif isinstance(g.target, ast.Tuple) and all(isinstance(x, ast.Name) for x in g.target.elts) and \
            isinstance(g.iter, ast.Call) and ast.unparse(g.iter.func) == 'zip' and len(g.iter.args) == len(g.target.elts) and not g.iter.keywords:
        names = [x.id for x in g.target.elts]
        its = list(g.iter.args)
    else:
        fail(node, '%s: unsupported comprehension' % what)
    if len(set(names)) != len(names) or len(names) > 3:
        fail(node, '%s: comprehension variables' % what)
    args = []
    snap = dict(c.env)
    for n, it in zip(names, its):
        s, t = c.ex(it)
        if t not in ('tup', 'tupint'):
            fail(it, '%s: iteration over a %s' % (what, t))
        c.bind(n, 'num' if t == 'tup' else 'int')
        args.append(s)
    body, bt = c.ex(inner.elt)
    c.env = snap
    fn = {1: 'tup_map', 2: 'tup_map2', 3: 'tup_map3'}[len(names)]
    return '(%s (fun %s => %s) %s)' % (fn, ' '.join(names), body, ' '.join(args)), ('tup' if bt == 'num' else 'tupint')


def gen_init(f):
    check_sig(f, ['self', 'search_range', 'separation', 'diameter', 'minmass', 'percentile'], ['None', '0', '64'], kwarg='kwargs')
    S = Script(f)
    c = Ctx('init')
    c.bind('search_range', 'tup'); c.bind('separation', 'tup'); c.bind('minmass', 'Q'); c.bind('percentile', 'Q')
    o = ['(* ===== FindLinker.__init__ (line %d) ===== *)' % f.lineno,
         'Definition py_FindLinker_init (k : Z) (search_range : tup) (separation : tup) (diameter : option tup) (minmass : Q) (percentile : Q) (kwargs : kwargs_t) : flinit :=']
    s = expect(S.take(), ast.If, "the dist_func warning")
    if ast.unparse(s.test) != "'dist_func' in kwargs" or len(s.body) != 1 or s.orelse or not ast.unparse(s.body[0]).startswith('warnings.warn('):
        fail(s, 'expected the dist_func warning')
    o += ["  %s" % cmt(s, "if 'dist_func' in kwargs: warnings.warn(...)")]
    s = S.take()
    if ast.unparse(s) != 'super().__init__(search_range, **kwargs)':
        fail(s, 'expected super().__init__(search_range, **kwargs)')
    o += ['  %s' % cmt(s), '  let self := (linker_init k search_range kwargs) in']
    s = S.take()
    v = c.exT(assign_to(s, 'self.ndim'), 'int')
    o += ['  %s' % cmt(s), '  let self := set_i_ndim self %s in' % v]
    s = expect(S.take(), ast.If, 'if diameter is None')
    if ast.unparse(s.test) != 'diameter is None' or s.orelse or len(s.body) != 1:
        fail(s, 'expected if diameter is None: diameter = ..')
    dv = c.exT(assign_to(s.body[0], 'diameter'), 'tup')
    o += ['  %s' % cmt(s, 'if diameter is None:'), '  let diameter :=', '    match diameter with', '    | None =>', '      %s' % cmt(s.body[0]),
          '      %s' % dv, '    | Some diameter =>', '      diameter', '    end in']
    c.bind('diameter', 'tup')
    s = S.take()
    v, t = comp(c, assign_to(s, 'self.radius'), 'self.radius')
    if t != 'tupint':
        fail(s, 'self.radius must be a tuple of integers')
    o += ['  %s' % cmt(s), '  let self := set_i_radius self %s in' % v]
    for fld, ty in (('separation', 'tup'), ('minmass', 'Q'), ('percentile', 'Q')):
        s = S.take()
        v = c.exT(assign_to(s, 'self.%s' % fld), ty)
        o += ['  %s' % cmt(s), '  let self := set_i_%s self %s in' % (fld, v)]
    s = S.take()
    v, t = comp(c, assign_to(s, 'self.dilation_size'), 'self.dilation_size')
    if t != 'tupint':
        fail(s, 'self.dilation_size must be a tuple of integers')
    o += ['  %s' % cmt(s), '  let self := set_i_dilation_size self %s in' % v]
    s = S.take()
    v, t = comp(c, assign_to(s, 'self.slice_radius'), 'self.slice_radius')
    if t != 'tupint':
        fail(s, 'self.slice_radius must be a tuple of integers')
    o += ['  %s' % cmt(s), '  let self := set_i_slice_radius self %s in' % v]
    s = S.take()
    v, t = comp(c, assign_to(s, 'bg_radius'), 'bg_radius')
    if t != 'tup':
        fail(s, 'bg_radius must be a list of numbers (it is compared with distances)')
    o += ['  %s' % cmt(s), '  let bg_radius := %s in' % v]
    c.bind('bg_radius', 'tup')
    s = expect(S.take(), ast.If, 'if is_isotropic(search_range)')
    if ast.unparse(s.test) != 'is_isotropic(search_range)' or len(s.body) != 1 or len(s.orelse) != 1:
        fail(s, 'expected if is_isotropic(search_range): .. else: ..')
    b = {}
    a = s.body[0]
    if not (isinstance(a, ast.Assign) and ast.unparse(a.targets[0]) == 'self.bg_radius' and match(P("max(E_x)"), a.value, b)):
        fail(a, 'expected self.bg_radius = max(bg_radius)')
    v = c.exT(b['E_x'], 'tup')
    if ast.unparse(s.orelse[0]) != ANISO:
        fail(s.orelse[0], 'the anisotropic branch differs from the pinned text')
    o += ['  %s' % cmt(s, 'if is_isotropic(search_range):'), '  %s' % cmt(a), '  let self := set_i_bg_radius self (tup_max %s) in' % v,
          '  (* %d: (anisotropic search_range: outside the modelled scope) *)' % s.orelse[0].lineno]
    s = S.take()
    if ast.unparse(s) != 'self.threshold = (None, None)':
        fail(s, 'expected self.threshold = (None, None)')
    o += ['  %s' % cmt(s), '  let self := set_i_threshold self (None, None) in', '  self.']
    S.done()
    return '\n'.join(o)


MARGIN_BLOCK = """
if np.any([s <= 2*m for (s, m) in zip(shape, margin)]):
    if np.any([s <= 4 for s in shape]) and (ndim > 2):
        raise ValueError('One of the image dimensions is very small. '
                         'Please make sure that you are not using an RGB '
                         'or other multichannel (color) image.')
    else:
        raise ValueError('The feature finding margins are larger than the '
                         'image shape. Please use smaller radius, '
                         'separation or smoothing_size.')
"""
AFTER_BLOCK = """
if after_link is not None and features is not None:
    features = after_link(features=features, reader=reader, image=image,
                          image_proc=image_proc,
                          diameter=diameter, separation=separation,
                          search_range=search_range, margin=margin,
                          minmass=minmass)
    linker.coords_df = features  # for next iteration
"""
BEFORE_CALL = ("before_link(coords=coords, reader=reader, image=image, image_proc=image_proc, diameter=diameter, "
               "separation=separation, search_range=search_range, margin=margin, minmass=minmass)")
EXTRA_LOOP = "for key in extra_data:\n    extra_data[key] = extra_data[key][mask]\n"


def frame_part(c, S, o, ind, first):
    """the statements both the first frame and the loop body consist of, up to the linker call"""
    s = S.take()
    o += [ind + cmt(s), ind + 'let image_proc := %s in' % c.exT(assign_to(s, 'image_proc'), 'image')]
    c.bind('image_proc', 'image')
    w = expect(S.take(), ast.With, 'with warnings.catch_warnings()')
    if len(w.items) != 1 or ast.unparse(w.items[0]) != 'warnings.catch_warnings()' or len(w.body) != 2 or \
            ast.unparse(w.body[0]) != "warnings.simplefilter('ignore')":
        fail(w, 'expected the warnings block around grey_dilation')
    s = w.body[1]
    o += [ind + cmt(s), ind + 'let coords := %s in' % c.exT(assign_to(s, 'coords'), 'pts')]
    c.bind('coords', 'pts')
    s = expect(S.take(), ast.If, 'if before_link is not None')
    if ast.unparse(s.test) != 'before_link is not None' or s.orelse or len(s.body) != 1:
        fail(s, 'expected if before_link is not None: coords = before_link(..)')
    a = s.body[0]
    if not (isinstance(a, ast.Assign) and ast.unparse(a.targets[0]) == 'coords' and ast.unparse(a.value) == BEFORE_CALL):
        fail(a, 'the before_link call differs from the pinned text')
    o += [ind + cmt(s, 'if before_link is not None:'), ind + 'let coords :=', ind + '  match before_link with', ind + '  | Some before_link =>',
          ind + '    ' + cmt(a, 'coords = before_link(coords=coords, reader=reader, image=image, image_proc=image_proc, ...)'),
          ind + '    (before_link coords image image_proc)', ind + '  | None =>', ind + '    coords', ind + '  end in']
    s = S.take()
    o += [ind + cmt(s), ind + 'let extra_data := %s in' % c.exT(assign_to(s, 'extra_data'), 'extra')]
    c.bind('extra_data', 'extra')
    s = S.take()
    o += [ind + cmt(s), ind + 'let mask := %s in' % c.exT(assign_to(s, 'mask'), 'bvec')]
    c.bind('mask', 'bvec')
    s = S.take()
    o += [ind + cmt(s), ind + 'let coords := %s in' % c.exT(assign_to(s, 'coords'), 'pts')]
    s = S.take()
    same_src([s], EXTRA_LOOP, 'loop that cuts extra_data')
    o += [ind + cmt(s, 'for key in extra_data: extra_data[key] = extra_data[key][mask]'), ind + 'let extra_data := (mask_select mask extra_data) in']


def gen_driver(f):
    check_sig(f, ['reader', 'search_range', 'separation', 'diameter', 'percentile', 'minmass', 'proc_func', 'before_link', 'after_link'],
              ['None', '64', '0', 'None', 'None', 'None'], kwarg='kwargs')
    S = Script(f)
    c = Ctx('driver')
    for n, t in (('search_range', 'tup'), ('separation', 'tup'), ('percentile', 'Q'), ('minmass', 'Q')):
        c.bind(n, t)
    o = ['(* ===== find_link_iter (line %d) ===== *)' % f.lineno,
         'Definition py_find_link_iter (k : Z) (max_size : nat) (reader : rframe * list rframe) (search_range : tup) (separation : tup) (diameter : option tup) (percentile : Q) (minmass : Q) (proc_func : option (image -> image)) (before_link : option (list pt -> rframe -> image -> list pt)) (kwargs : kwargs_t) : option (result (list (list nat * list pt))) :=']
    for name, ty in (('shape', 'zvec'), ('ndim', 'int'), ('search_range', 'tup'), ('separation', 'tup')):
        s = S.take()
        o += ['  %s' % cmt(s), '  let %s := %s in' % (name, c.exT(assign_to(s, name), ty))]
        c.bind(name, ty)
    s = S.take()
    if ast.unparse(s) != 'isotropic = is_isotropic(diameter)':
        fail(s, 'expected isotropic = is_isotropic(diameter)')
    o += ['  %s' % cmt(s)]
    s = expect(S.take(), ast.If, 'if proc_func is None')
    if ast.unparse(s.test) != 'proc_func is None' or s.orelse or len(s.body) != 1 or ast.unparse(s.body[0]) != 'proc_func = lambda x: x':
        fail(s, 'expected if proc_func is None: proc_func = lambda x: x')
    o += ['  %s' % cmt(s, 'if proc_func is None:'), '  let proc_func :=', '    match proc_func with', '    | None =>', '      %s' % cmt(s.body[0]),
          '      identity_proc', '    | Some proc_func =>', '      proc_func', '    end in']
    s = expect(S.take(), ast.If, 'if diameter is None')
    if ast.unparse(s.test) != 'diameter is None' or len(s.body) != 1 or len(s.orelse) != 1:
        fail(s, 'expected if diameter is None: .. else: ..')
    v1 = c.exT(assign_to(s.body[0], 'diameter'), 'tup')
    c.bind('diameter', 'tup')
    v2 = c.exT(assign_to(s.orelse[0], 'diameter'), 'tup')
    o += ['  %s' % cmt(s, 'if diameter is None:'), '  let diameter :=', '    match diameter with', '    | None =>', '      %s' % cmt(s.body[0]),
          '      %s' % v1, '    | Some diameter =>', '      %s' % cmt(s.orelse[0]), '      %s' % v2, '    end in']
    s = S.take()
    v, t = comp(c, assign_to(s, 'radius'), 'radius')
    if t != 'tupint':
        fail(s, 'radius must be a tuple of integers')
    o += ['  %s' % cmt(s), '  let radius := %s in' % v]
    c.bind('radius', 'tup')     # an isotropic integer tuple, handed on as a tuple
    s = S.take()
    o += ['  %s' % cmt(s), '  let margin := %s in' % c.exT(assign_to(s, 'margin'), 'tup')]
    c.bind('margin', 'tup')
    s = S.take()
    same_src([s], MARGIN_BLOCK, 'check that the margins leave room in the image')
    o += ['  %s' % cmt(s, 'if np.any([s <= 2 * m for s, m in zip(shape, margin)]): raise ValueError'), '  if (margins_cover shape margin) then', '    None', '  else']
    s = S.take()
    o += ['  %s' % cmt(s), '  let linker := %s in' % c.exT(assign_to(s, 'linker'), 'flinit')]
    s = S.take()
    if ast.unparse(s) != 'reader_iter = iter(reader)':
        fail(s, 'expected reader_iter = iter(reader)')
    o += ['  %s' % cmt(s)]
    s = S.take()
    o += ['  %s' % cmt(s), '  let image := %s in' % c.exT(assign_to(s, 'image'), 'rframe')]
    c.bind('image', 'rframe')
    frame_part(c, S, o, '  ', True)
    s = S.take()
    b = {}
    if not (isinstance(s, ast.Expr) and match(P("linker.init_level(E_c, E_t, E_e)"), s.value, b)):
        fail(s, 'expected linker.init_level(coords, image.frame_no, extra_data)')
    c.exT(b['E_e'], 'extra')
    o += ['  %s' % cmt(s), '  let linker := (flk_init_level linker max_size %s %s) in' % (c.exT(b['E_c'], 'pts'), c.exT(b['E_t'], 'Z'))]
    s = S.take()
    o += ['  %s' % cmt(s), '  let features := %s in' % c.exT(assign_to(s, 'features'), 'table')]
    c.bind('features', 'table')
    s = S.take()
    same_src([s], AFTER_BLOCK, 'after_link block')
    o += ['  (* %d: after_link: outside the modelled scope (after_link = None) *)' % s.lineno]
    s = S.take()
    if ast.unparse(s) != 'yield (image.frame_no, features)':
        fail(s, 'expected yield image.frame_no, features')
    o += ['  %s' % cmt(s), '  let yielded := [features] in']
    lp = expect(S.take(), ast.For, 'for image in reader_iter')
    no_else(lp)
    if ast.unparse(lp.target) != 'image' or ast.unparse(lp.iter) != 'reader_iter':
        fail(lp, 'expected for image in reader_iter')
    o += ['  %s' % cmt(lp, 'for image in reader_iter:'), '  Some (', '  match', "    fold_result (fun acc image => let '(linker, yielded) := acc in"]
    B = Script(lp)
    frame_part(c, B, o, '      ', False)
    s = B.take()
    b = {}
    if not (isinstance(s, ast.Expr) and match(P("linker.next_level(E_c, E_t, image=E_i, extra_data=E_e)"), s.value, b)):
        fail(s, 'expected linker.next_level(coords, image.frame_no, image=image_proc, extra_data=extra_data)')
    c.exT(b['E_e'], 'extra')
    o += ['      %s' % cmt(s), '      match (py_next_level relocate_m ord linker %s %s %s) with'
          % (c.exT(b['E_c'], 'pts'), c.exT(b['E_t'], 'Z'), c.exT(b['E_i'], 'image')), '      | Oversize => Oversize', '      | Ok linker =>']
    s = B.take()
    o += ['      %s' % cmt(s), '      let features := %s in' % c.exT(assign_to(s, 'features'), 'table')]
    s = B.take()
    same_src([s], AFTER_BLOCK, 'after_link block')
    o += ['      (* %d: after_link: outside the modelled scope (after_link = None) *)' % s.lineno]
    s = B.take()
    if ast.unparse(s) != 'yield (image.frame_no, features)':
        fail(s, 'expected yield image.frame_no, features')
    o += ['      %s' % cmt(s), '      let yielded := yielded ++ [features] in', '      Ok (linker, yielded)', '      end) (snd reader) (linker, yielded)',
          '  with', '  | Oversize => Oversize', '  | Ok (linker, yielded) => Ok yielded', '  end).']
    B.done()
    S.done()
    return '\n'.join(o)


HEADER = """(* GENERATED by tools/py2coq_findstep.py from trackpy/linking/find_link.py and trackpy/linking/subnet.py -- do not edit.
   Subnets.include_lost / merge_lost_subnets / add_dest_points, FindLinker.__init__ / assign_links / next_level
   and find_link_iter, statement by statement (the numbered comments are the Python statements), as let-bound,
   state-passing Gallina over Model/PyFindstep.v (vocabulary, primitives, conventions; see also the translator's docstring). *)
From Coq Require Import ZArith QArith List Bool Arith.
From TP Require Import Model.Assign Model.Link Model.Dilation Model.FindLink Model.FindLink3 Model.PyFind Model.PyFindlink Model.PyFindstep.
Import ListNotations.
Open Scope Z_scope.
"""


def find_def(tree, cls, name):
    body = tree.body
    if cls is not None:
        cs = [n for n in tree.body if isinstance(n, ast.ClassDef) and n.name == cls]
        if len(cs) != 1:
            raise TranslationError('class %s not found' % cls)
        body = cs[0].body
    fs = [n for n in body if isinstance(n, ast.FunctionDef) and n.name == name]
    if len(fs) != 1:
        raise TranslationError('%s.%s: expected exactly one definition' % (cls, name))
    return fs[0]


def check_imports(fl):
    need = {'from ..find import grey_dilation, drop_close', 'from ..feature import characterize', 'from .subnet import Subnets',
            'from .linking import Linker', 'from ..utils import default_pos_columns, is_isotropic, validate_tuple, pandas_concat'}
    have = {ast.unparse(n) for n in fl.body if isinstance(n, (ast.Import, ast.ImportFrom))}
    for n in need:
        if n not in have:
            raise TranslationError('find_link.py: import `%s` not found (the primitives are pinned to these names)' % n)
    cs = [n for n in fl.body if isinstance(n, ast.ClassDef) and n.name == 'FindLinker']
    if len(cs) != 1 or [ast.unparse(b) for b in cs[0].bases] != ['Linker']:
        raise TranslationError('FindLinker must derive from Linker')


def translate(repo):
    fl = ast.parse(open(os.path.join(repo, 'trackpy', 'linking', 'find_link.py')).read())
    sn = ast.parse(open(os.path.join(repo, 'trackpy', 'linking', 'subnet.py')).read())
    check_imports(fl)
    parts = [HEADER]
    parts.append(gen_include_lost(find_def(sn, 'Subnets', 'include_lost')))
    parts.append(gen_merge_lost(find_def(sn, 'Subnets', 'merge_lost_subnets')))
    parts.append(gen_add_dest(find_def(sn, 'Subnets', 'add_dest_points')))
    parts.append('Section Linker.\nVariable relocate_m : relocate_method.          (* FindLinker.relocate (Gen/findlink.v: py_relocate) *)\n'
                 'Variable ord : sdict -> list group.             (* the order in which `for .. in self.subnets` visits the dictionary *)')
    parts.append(gen_assign_links(find_def(fl, 'FindLinker', 'assign_links')))
    parts.append(gen_next_level(find_def(fl, 'FindLinker', 'next_level')))
    parts.append('End Linker.')
    parts.append(gen_init(find_def(fl, 'FindLinker', '__init__')))
    parts.append('Section Driver.\nVariable relocate_m : relocate_method.\nVariable ord : sdict -> list group.\n'
                 'Variable grey_dilation_f : image -> tup -> Q -> tup -> list pt.      (* find.grey_dilation(.., precise=True): route T of C06 *)\n'
                 "Variable characterize_f : list pt -> image -> tup -> extra_t.         (* feature.characterize: the 'mass' column *)")
    parts.append(gen_driver(find_def(fl, None, 'find_link_iter')))
    parts.append('End Driver.')
    return '\n\n'.join(parts) + '\n'


def main():
    ap = argparse.ArgumentParser()
    ap.add_argument('--repo', default=os.environ.get('TRACKPY_REPO', '/repo'))
    ap.add_argument('--out', default='/verif/coq/Gen/findstep.v')
    ap.add_argument('--stdout', action='store_true')
    a = ap.parse_args()
    try:
        text = translate(a.repo)
    except TranslationError as e:
        sys.stderr.write('py2coq_findstep: TRANSLATION ERROR: %s\n' % e)
        sys.exit(2)
    except (OSError, SyntaxError) as e:
        sys.stderr.write('py2coq_findstep: TRANSLATION ERROR: cannot read the source: %s\n' % e)
        sys.exit(2)
    if a.stdout:
        sys.stdout.write(text)
        return
    if os.path.exists(a.out) and open(a.out).read() == text:
        print('py2coq_findstep: %s up to date' % a.out)
        return
    tmp = a.out + '.tmp%d' % os.getpid()
    with open(tmp, 'w') as fh:
        fh.write(text)
    os.replace(tmp, a.out)
    print('py2coq_findstep: wrote %s (changed)' % a.out)


if __name__ == '__main__':
    main()
