#!/usr/bin/env python3
"""Fail-closed translator (route T) for C15: parameter packing and the assembly
of residual and jacobian.

Reads  $TRACKPY_REPO/trackpy/refine/least_squares.py  (default /repo) with the
Python `ast` module and regenerates  /verif/coq/Gen/fitpack.v :

    MODE_DICT                   the module-level table
    vect_from_params            whole function
    vect_to_params              whole function
    FitFunctions.__init__       `self.params = ...` and everything from
                                `_default_param_mode = ...` to `self.modes = ...`
                                (default / broadcast / MODE_DICT / defaults / the
                                rewrite of a `var` background to `cluster` with its
                                warning / the list comprehension building self.modes)
                                -> init_modes
    FitFunctions.get_residual   cl_groups, and the closures residual and jacobian
                                -> get_residual_cl_groups, get_residual_residual,
                                   get_residual_jacobian

as shallow, state-passing Gallina over the vocabulary of coq/Model/PyFitpack.v
(read its header: it lists every numpy / dict operation that is a NAMED
PRIMITIVE and the meaning it is given).  Proofs/FitpackGen.v proves the
generated functions equal to the hand-written models (Model/Pack.v,
Model/Jacobian.v, Model/Jacobian2.v) and Properties/C15.v restates the
headline theorems for them.

Embedding
  * a Python variable is a let-bound Coq variable of the same name
    (`self.x` is `self_x`); every assignment, `x += e`, `l.append(e)`,
    `a[..] = e`, `d[k] = e`, `del d[k]` rebinds the variable it changes;
    a variable keeps one type for its whole life;
  * every block is a term of type `pres T` (POk value | PRaise exception);
    operations that can raise are hoisted in evaluation order into `bind`;
  * `for` loops are lambda-lifted: `<fn>_loop<k> <variables read> st it`,
    st = tuple of the variables the body assigns that exist before the loop;
    the loop is `foldM`; `continue` = `POk st`;
  * an `if` that is not the last statement of its block yields the tuple of the
    variables it assigns that exist before it; a variable first bound inside a
    branch is not visible afterwards (reading it: translation error);
    `if c: <... return/raise/continue>` without else in the middle of a block
    is `if c then .. else <rest of the block>`;
  * `assert c` raises EAssert;  `x is None` is `is_none x`;
  * a 2-d array is its list of columns; its row count travels as `<name>_n`;
  * the closures are generated once, polymorphic in the number type (section
    variable `ops : num_ops A`): the R instance is the one the theorems are
    about, the Q instance is executed next to FitFunctions;
  * expressions over pixel arrays are translated pointwise: `fun x => ...`.

Anything outside the subset, a missing function, a changed signature: exit
status 2 and nothing written (the check treats that like a broken proof).

Usage:  py2coq_fitpack.py [--repo /repo] [--out /verif/coq/Gen/fitpack.v] [--stdout]
"""
import ast, sys, os, argparse


class TranslationError(Exception):
    pass


def fail(node, msg):
    raise TranslationError('line %s: %s' % (getattr(node, 'lineno', '?'), msg))


COQTY = {
    'nat': 'nat', 'bool': 'bool', 'num': 'A', 'vec': 'list A', 'veclist': 'list (list A)', 'arr': 'list (list A)',
    'natlist': 'list nat', 'ggroups': 'list (list nat)', 'groups': 'groups_t', 'op': 'option (list A -> option A)',
    'modes': 'list nat',
    'parr': 'X -> A', 'pvec': 'X -> list A', 'mask': 'X -> bool', 'masklist': 'list (X -> bool)', 'mesh': 'X -> list A',
    'image': 'image A X', 'd3': 'list (X -> list A)', 'images': 'list (image A X)', 'meshes': 'list (X -> list A)',
    'maskss': 'list (list (X -> bool))', 'mat': 'list (list A)',
    'r2fun': 'list A -> list A -> A', 'dr2fun': 'list A -> list A -> list A', 'mfun': 'A -> list A -> A -> A',
    'mdfun': 'A -> list A -> A -> A * list A',
    'str': 'string', 'strlist': 'list string', 'dict': 'pydict', 'pyval': 'pyval', 'Z': 'Z', 'zlist': 'list Z',
    'odict': 'option pydict',
}
ELEM = {'modes': 'nat', 'ggroups': 'natlist', 'vec': 'num', 'natlist': 'nat', 'strlist': 'str', 'masklist': 'mask',
        'images': 'image', 'meshes': 'mesh', 'maskss': 'masklist'}


def is_np(e, attr):
    return isinstance(e, ast.Attribute) and e.attr == attr and isinstance(e.value, ast.Name) and e.value.id == 'np'


def vname(e):
    """variable name of a Name or of self.<attr>"""
    if isinstance(e, ast.Name):
        return e.id
    if isinstance(e, ast.Attribute) and isinstance(e.value, ast.Name) and e.value.id == 'self':
        return 'self_' + e.attr
    return None


def is_const(e, v):
    return isinstance(e, ast.Constant) and type(e.value) is type(v) and e.value == v


def full_slice(e):
    return isinstance(e, ast.Slice) and e.lower is None and e.upper is None and e.step is None


def cmt(text):
    return text.replace('(*', '( *').replace('*)', '* )')


def body_wo_doc(fn):
    b = list(fn.body)
    if b and isinstance(b[0], ast.Expr) and isinstance(b[0].value, ast.Constant) and isinstance(b[0].value.value, str):
        b = b[1:]
    return b


def cty(t):
    c = COQTY[t]
    return '(%s)' % c if '->' in c else c


def tup(names):
    return names[0] if len(names) == 1 else '(' + ', '.join(names) + ')'


def pat(names):
    return names[0] if len(names) == 1 else "'(" + ', '.join(names) + ')'


class Fn:
    """one translated function body"""
    total_arrays = False

    def __init__(self, name, env, arr_n=None, pixel_image=None):
        self.name = name
        self.env = dict(env)            # python variable -> type tag
        self.arr_n = dict(arr_n or {})  # array variable -> name of the nat variable holding its row count
        self.defs = []                  # lambda-lifted loop definitions (text)
        self.nloop = 0
        self.ntmp = 0
        self.pre = []
        self.loop_tails = []
        self.image = pixel_image        # name of the loop variable `image` (live pixel list for np.nansum)
        self.shape3 = {}                # 3-d array variable -> (a, b) Coq texts

    # ------------------------------------------------------------------ helpers
    def tmp(self):
        self.ntmp += 1
        return 'tmp%d' % self.ntmp

    def hoist(self, term):
        t = self.tmp()
        self.pre.append((t, term))
        return t

    def var(self, node, want=None):
        n = vname(node)
        if n is None or n not in self.env:
            fail(node, 'name `%s` is read where it is not bound' % ast.unparse(node))
        if want is not None and self.env[n] not in (want if isinstance(want, tuple) else (want,)):
            fail(node, '%s has type %s, expected %s' % (n, self.env[n], want))
        return n, self.env[n]

    def bind_var(self, node, name, ty):
        old = self.env.get(name)
        if old is not None and old != ty:
            fail(node, 'variable %s changes type from %s to %s' % (name, old, ty))
        self.env[name] = ty

    def exT(self, e, want):
        s, t = self.ex(e)
        if t not in (want if isinstance(want, tuple) else (want,)):
            fail(e, 'expression `%s` has type %s, expected %s' % (ast.unparse(e), t, want))
        return s

    def wrap(self, inner):
        """wrap `inner` in the pending hoisted bindings (in evaluation order)"""
        pre, self.pre = self.pre, []
        for p, m in reversed(pre):
            inner = 'bind (%s) (fun %s =>\n%s)' % (m, p, inner)
        return inner

    # ------------------------------------------------------------------ expressions
    def nat_lit(self, e):
        return isinstance(e, ast.Constant) and type(e.value) is int and e.value >= 0

    def ex(self, e):
        for h in (self.ex_common, self.ex_pack, self.ex_dict, self.ex_pixel):
            r = h(e)
            if r is not None:
                return r
        fail(e, 'unsupported expression `%s`' % ast.unparse(e))

    def ex_common(self, e):
        if vname(e) is not None and vname(e) in self.env:
            return self.var(e)
        if self.nat_lit(e):
            return '%d' % e.value, 'nat'
        if isinstance(e, ast.Call) and isinstance(e.func, ast.Name) and e.func.id == 'len' and len(e.args) == 1 and not e.keywords:
            a = e.args[0]
            if vname(a) in self.env and self.env[vname(a)] == 'image':
                return '(im_len %s)' % vname(a), 'nat'
            if vname(a) in self.env and self.env[vname(a)] == 'pvec':
                if vname(a) == 'dr2dx':
                    return self.var(ast.Name(id='dr2_len'), 'nat')[0], 'nat'
                if vname(a) == 'deriv':
                    return self.var(ast.Name(id='dfun_len'), 'nat')[0], 'nat'
                fail(e, 'len of a stack of pixel arrays other than dr2dx / deriv')
            s, t = self.ex(a)
            if t not in ('vec', 'veclist', 'natlist', 'ggroups', 'modes', 'strlist', 'masklist'):
                fail(e, 'len of a %s' % t)
            return '(length %s)' % s, 'nat'
        if isinstance(e, ast.Call) and isinstance(e.func, ast.Name) and e.func.id == 'int' and len(e.args) == 1 and not e.keywords:
            s, t = self.ex(e.args[0])
            if t == 'nat':
                return '(py_int %s)' % s, 'nat'
            if t == 'pyval':
                return self.hoist('pyval_int %s' % s), 'Z'
            fail(e, 'int() of a %s' % t)
        if isinstance(e, ast.BinOp) and isinstance(e.op, (ast.Add, ast.Sub, ast.Mult)):
            a, ta = self.ex(e.left)
            if ta == 'nat':
                b = self.exT(e.right, 'nat')
                return '(%s %s %s)' % (a, {ast.Add: '+', ast.Sub: '-', ast.Mult: '*'}[type(e.op)], b), 'nat'
            return self.arith(e, a, ta)
        if isinstance(e, ast.BinOp) or (isinstance(e, ast.UnaryOp) and isinstance(e.op, ast.USub)) or \
                (isinstance(e, ast.Constant) and type(e.value) in (int, float)):
            return self.arith(e, None, None)
        if isinstance(e, ast.UnaryOp) and isinstance(e.op, ast.Not):
            return '(negb %s)' % self.exT(e.operand, 'bool'), 'bool'
        if isinstance(e, ast.BoolOp):
            parts = [self.exT(v, 'bool') for v in e.values]
            if self.pre and len(parts) > 1:
                fail(e, 'an operation that can raise inside and/or (short-circuit evaluation is not modelled)')
            return '(' + (' && ' if isinstance(e.op, ast.And) else ' || ').join(parts) + ')', 'bool'
        if isinstance(e, ast.Compare) and len(e.ops) == 1:
            op, l, r = e.ops[0], e.left, e.comparators[0]
            if isinstance(op, (ast.Is, ast.IsNot)) and is_const(r, None):
                s = self.exT(l, ('groups', 'op', 'odict'))
                return ('(is_none %s)' if isinstance(op, ast.Is) else '(negb (is_none %s))') % s, 'bool'
            if isinstance(op, (ast.In, ast.NotIn)):
                k = self.exT(l, 'str')
                d = self.exT(r, 'dict')
                return ('(d_mem %s %s)' if isinstance(op, ast.In) else '(negb (d_mem %s %s))') % (k, d), 'bool'
            a, ta = self.ex(l)
            if ta == 'pyval' and isinstance(op, ast.Eq) and isinstance(r, ast.Constant) and type(r.value) is int:
                return '(pyval_is_int %s %d%%Z)' % (a, r.value), 'bool'
            if ta != 'nat':
                fail(e, 'comparison of a %s' % ta)
            b = self.exT(r, 'nat')
            if isinstance(op, ast.Eq):
                return '(%s =? %s)' % (a, b), 'bool'
            if isinstance(op, ast.GtE):
                return '(%s <=? %s)' % (b, a), 'bool'
            if isinstance(op, ast.Gt):
                return '(%s <? %s)' % (b, a), 'bool'
            if isinstance(op, ast.LtE):
                return '(%s <=? %s)' % (a, b), 'bool'
            if isinstance(op, ast.Lt):
                return '(%s <? %s)' % (a, b), 'bool'
            fail(e, 'unsupported comparison')
        return None

    # ---- vect_from_params / vect_to_params
    def ex_pack(self, e):
        if isinstance(e, ast.Call) and isinstance(e.func, ast.Name) and e.func.id == 'min' and len(e.args) == 1 and not e.keywords:
            return self.hoist('py_min %s' % self.exT(e.args[0], 'modes')), 'nat'
        if isinstance(e, ast.Subscript) and vname(e.value) in self.env:
            n, t = self.var(e.value)
            sl = e.slice
            if t == 'arr' and isinstance(sl, ast.Tuple) and len(sl.elts) == 2 and not self.total_arrays:
                r, c = sl.elts
                if full_slice(r):
                    return self.hoist('arr_col %s %s' % (n, self.exT(c, 'nat'))), 'vec'
                rs, rt = self.ex(r)
                if rt == 'nat':
                    return self.hoist('arr_at %s %s %s' % (n, rs, self.exT(c, 'nat'))), 'num'
                if rt == 'natlist':
                    return self.hoist('arr_gather %s %s %s' % (n, rs, self.exT(c, 'nat'))), 'vec'
                fail(e, 'unsupported array index')
            if t == 'vec' and isinstance(sl, ast.Slice) and sl.step is None and sl.lower is not None and sl.upper is not None:
                return '(slice %s %s %s)' % (n, self.exT(sl.lower, 'nat'), self.exT(sl.upper, 'nat')), 'vec'
            if t == 'vec' and not isinstance(sl, (ast.Slice, ast.Tuple)):
                return self.hoist('vec_at %s %s' % (n, self.exT(sl, 'nat'))), 'num'
        if isinstance(e, ast.List) and len(e.elts) == 1:
            s, t = self.ex(e.elts[0])
            if t == 'num':
                return '[%s]' % s, 'vec'
            if t == 'natlist':
                return '[%s]' % s, 'ggroups'
        if isinstance(e, ast.List) and not e.elts:
            return '[]', 'veclist'
        if isinstance(e, ast.Call) and vname(e.func) in self.env and self.env[vname(e.func)] == 'op' and len(e.args) == 1 and not e.keywords:
            a = self.exT(e.args[0], 'vec')
            return self.hoist('call_op %s %s' % (vname(e.func), a)), 'num'
        if isinstance(e, ast.ListComp) and len(e.generators) == 1:
            g = e.generators[0]
            if not g.ifs and isinstance(g.target, ast.Name) and isinstance(e.elt, ast.Subscript) and isinstance(e.elt.value, ast.Name) \
                    and e.elt.value.id == g.target.id and is_const(e.elt.slice, 0) and g.target.id not in self.env:
                return self.hoist('mapM list_first %s' % self.exT(g.iter, 'ggroups')), 'natlist'
        if isinstance(e, ast.Call) and is_np(e.func, 'empty') and len(e.args) == 1 and not e.keywords \
                and isinstance(e.args[0], ast.Tuple) and len(e.args[0].elts) == 1 and is_const(e.args[0].elts[0], 0):
            return '[]', 'vec'
        if isinstance(e, ast.Call) and is_np(e.func, 'concatenate') and len(e.args) == 1 and not e.keywords:
            return '(concat %s)' % self.exT(e.args[0], 'veclist'), 'vec'
        if isinstance(e, ast.Call) and isinstance(e.func, ast.Attribute) and e.func.attr == 'copy' and not e.args and not e.keywords \
                and vname(e.func.value) in self.env and self.env[vname(e.func.value)] == 'arr':
            self.copy_of = vname(e.func.value)
            return vname(e.func.value), 'arr'
        return None

    def arith(self, e, a, ta):
        fail(e, 'unsupported arithmetic `%s`' % ast.unparse(e))

    def ex_dict(self, e):
        return None

    def ex_pixel(self, e):
        return None

    # ------------------------------------------------------------------ statements
    def assigned(self, stmts):
        out = []

        def add(x):
            if x is not None and x not in out:
                out.append(x)

        def target(t):
            if vname(t) is not None:
                add(vname(t))
            elif isinstance(t, ast.Tuple):
                for x in t.elts:
                    target(x)
            elif isinstance(t, ast.Subscript) and vname(t.value) is not None:
                add(vname(t.value))
            else:
                fail(t, 'unsupported assignment target')
        for s in stmts:
            if isinstance(s, ast.Assign):
                for t in s.targets:
                    target(t)
            elif isinstance(s, ast.AugAssign):
                target(s.target)
            elif isinstance(s, ast.Delete):
                for t in s.targets:
                    target(t)
            elif isinstance(s, ast.Expr) and isinstance(s.value, ast.Call) and isinstance(s.value.func, ast.Attribute):
                f = s.value.func
                if f.attr == 'append':
                    add(vname(f.value))
                elif f.attr == 'warn':
                    add('warnings')
            elif isinstance(s, ast.If):
                for x in self.assigned(s.body) + self.assigned(s.orelse):
                    add(x)
            elif isinstance(s, ast.For):
                for x in self.assigned(s.body):
                    add(x)
            elif isinstance(s, ast.Try):
                for x in self.assigned(s.body):
                    add(x)
        return out

    def terminates(self, stmts):
        return bool(stmts) and isinstance(stmts[-1], (ast.Return, ast.Raise, ast.Continue))

    def has_jump(self, stmts):
        for s in stmts:
            for n in ast.walk(s):
                if isinstance(n, (ast.Return, ast.Continue, ast.Break)):
                    return True
        return False

    def block(self, stmts, tail, ind):
        if not stmts:
            if tail is None:
                raise TranslationError('%s: control falls off the end of a block that must return' % self.name)
            return ind + tail
        s, rest = stmts[0], stmts[1:]
        self.pre = []
        special = self.stmt_special(s, rest, tail, ind)
        if special is not None:
            return special
        if isinstance(s, ast.Continue):
            if not self.loop_tails or rest:
                fail(s, 'continue outside a loop / followed by code')
            return ind + self.loop_tails[-1] + '  (* continue *)'
        if isinstance(s, ast.Return):
            if self.loop_tails or rest:
                fail(s, 'return inside a loop / followed by code')
            v = self.ret(s)
            return self.wrap(ind + 'POk %s' % v)
        if isinstance(s, ast.Raise):
            return ind + 'PRaise %s' % self.exc(s)
        if isinstance(s, ast.Assert):
            if s.msg is not None:
                fail(s, 'assert with a message')
            c = self.exT(s.test, 'bool')
            pre, self.pre = self.pre, []
            inner = ind + 'if negb %s then PRaise EAssert else\n' % c + self.block(rest, tail, ind)
            self.pre = pre
            return self.wrap(inner)
        if isinstance(s, ast.If):
            return self.if_stmt(s, rest, tail, ind)
        if isinstance(s, ast.For):
            return self.for_stmt(s, rest, tail, ind)
        line = self.simple(s)
        pre, self.pre = self.pre, []
        inner = ind + line + '\n' + self.block(rest, tail, ind)
        self.pre = pre
        return self.wrap(inner)

    def ret(self, s):
        if s.value is None:
            fail(s, 'bare return')
        return self.ex(s.value)[0]

    def exc(self, s):
        e = s.exc
        if isinstance(e, ast.Call) and isinstance(e.func, ast.Name):
            n = e.func.id
            if n == 'ValueError':
                return 'EValue'
            if n == 'RefineException':
                return 'ERefine'
        fail(s, 'unsupported raise')

    def stmt_special(self, s, rest, tail, ind):
        return None

    def if_stmt(self, s, rest, tail, ind):
        c = self.exT(s.test, 'bool')
        pre, self.pre = self.pre, []
        env0 = dict(self.env)
        if '$dead' in env0 and rest:
            # aliasing information of both branches must survive the `if`: translate the branches once to collect it
            saved = (self.defs[:], self.nloop, self.ntmp)
            acc = set(env0['$dead'])
            for blk in (s.body, s.orelse):
                self.env = dict(env0)
                try:
                    self.loop_tails.append('POk tt')
                    self.block(blk, 'POk tt', '')
                finally:
                    self.loop_tails.pop()
                acc |= set(self.env.get('$dead', ()))
            self.defs, self.nloop, self.ntmp = saved
            self.pre = []
            self.env = dict(env0)
            res = self.if_stmt_core(s, rest, tail, ind, c, env0, frozenset(acc))
        else:
            res = self.if_stmt_core(s, rest, tail, ind, c, env0, None)
        self.pre = pre
        return self.wrap(res)

    def if_stmt_core(self, s, rest, tail, ind, c, env0, dead_after):
        def restore():
            self.env = dict(env0)
            if dead_after is not None:
                self.env['$dead'] = dead_after
        if not rest:
            a = self.block(s.body, tail, ind + '  ')
            self.env = dict(env0)
            b = self.block(s.orelse, tail, ind + '  ')
            self.env = dict(env0)
            return '%sif %s then\n%s\n%selse\n%s' % (ind, c, a, ind, b)
        if self.terminates(s.body) and not s.orelse:
            a = self.block(s.body, None, ind + '  ')
            restore()
            return '%sif %s then\n%s\n%selse\n%s' % (ind, c, a, ind, self.block(rest, tail, ind))
        if self.has_jump(s.body) or self.has_jump(s.orelse):
            fail(s, 'return / continue inside an `if` that is followed by code')

        def surely(ss):
            return [vname(x.targets[0]) for x in ss if isinstance(x, ast.Assign) and len(x.targets) == 1 and vname(x.targets[0])]
        both = [v for v in surely(s.body) if v in surely(s.orelse) and v not in env0]
        vs = [v for v in self.assigned([s]) if v in env0 or v in both]
        if not vs:
            fail(s, 'an `if` that assigns no live variable')
        a = self.block(s.body, 'POk %s' % tup(vs), ind + '    ')
        enva = self.env
        self.env = dict(env0)
        b = self.block(s.orelse, 'POk %s' % tup(vs), ind + '    ')
        envb = self.env
        restore()
        for v in both:
            if enva.get(v) != envb.get(v) or enva.get(v) is None:
                fail(s, '%s gets different types in the two branches' % v)
            self.env[v] = enva[v]
        return '%sbind (\n%s  if %s then\n%s\n%s  else\n%s) (fun %s =>\n%s)' % (
            ind, ind, c, a, ind, b, pat(vs), self.block(rest, tail, ind))

    def iter_of(self, it):
        """-> (coq term, [(target position type)])"""
        if isinstance(it, ast.Call) and isinstance(it.func, ast.Name) and not it.keywords:
            if it.func.id == 'enumerate' and len(it.args) == 1:
                s, ts = self.iter_of(it.args[0])
                return '(enumerate %s)' % s, ['nat', ts if len(ts) > 1 else ts[0]]
            if it.func.id == 'zip' and len(it.args) == 2:
                a, ta = self.ex(it.args[0])
                b, tb = self.ex(it.args[1])
                if ta not in ELEM or tb not in ELEM:
                    fail(it, 'zip of %s and %s' % (ta, tb))
                return '(combine %s %s)' % (a, b), [ELEM[ta], ELEM[tb]]
            if it.func.id == 'zip' and len(it.args) == 4:
                parts = [self.ex(a) for a in it.args]
                if any(t not in ELEM for _, t in parts):
                    fail(it, 'zip of unsupported sequences')
                return '(zip4 %s)' % ' '.join(p for p, _ in parts), [ELEM[t] for _, t in parts]
        s, t = self.ex(it)
        if t == 'dict':
            return '(d_keys %s)' % s, ['str']
        if t not in ELEM:
            fail(it, 'iteration over a %s' % t)
        return s, [ELEM[t]]

    def bind_targets(self, tgt, tys):
        """-> (coq pattern, coq type) binding the loop targets in self.env"""
        def one(t, ty):
            if isinstance(ty, list):
                if not (isinstance(t, ast.Tuple) and len(t.elts) == len(ty)):
                    fail(t, 'loop target does not match the items')
                ps = [one(x, y) for x, y in zip(t.elts, ty)]
                p = '(' + ', '.join(q[0] for q in ps) + ')'
                # left-nested product
                tyt = ps[0][1]
                for q in ps[1:]:
                    tyt = '%s * (%s)' % (tyt, q[1]) if ' * ' in q[1] else '%s * %s' % (tyt, q[1])
                return p, tyt
            if not isinstance(t, ast.Name):
                fail(t, 'unsupported loop target')
            if t.id in self.env and self.env[t.id] != ty:
                fail(t, 'loop target %s shadows a variable of another type' % t.id)
            self.env[t.id] = ty
            return t.id, cty(ty)
        if len(tys) == 1:
            return one(tgt, tys[0])
        return one(tgt, tys)

    def reads(self, stmts):
        out = []
        for s in stmts:
            for n in ast.walk(s):
                v = vname(n)
                if v is not None and v not in out:
                    out.append(v)
        return out

    def for_stmt(self, s, rest, tail, ind):
        if s.orelse:
            fail(s, 'for ... else')
        it, tys = self.iter_of(s.iter)
        pre, self.pre = self.pre, []
        env0 = dict(self.env)
        state = [v for v in self.assigned(s.body) if v in env0]
        if not state:
            fail(s, 'a loop that assigns no live variable')
        p, pty = self.bind_targets(s.target, tys)
        targets = [n.id for n in ast.walk(s.target) if isinstance(n, ast.Name)]
        if any(t in state for t in targets):
            fail(s, 'loop target is also loop state')
        frees = [v for v in self.reads(s.body) if v in env0 and v not in state and v not in targets]
        for v in list(frees) + state:
            nn = self.arr_n.get(v)
            if nn and nn not in frees and nn not in state:
                frees.append(nn)
        for extra in self.implicit_reads(s.body):
            if extra in env0 and extra not in frees and extra not in state and extra not in targets:
                frees.append(extra)
        self.nloop += 1
        lname = '%s_loop%d' % (self.name, self.nloop)
        stt = ' * '.join(cty(self.env[v]) for v in state)
        self.loop_tails.append('POk %s' % tup(state))
        img0 = self.image
        if 'image' in targets and self.env.get('image') == 'image':
            self.image = 'image'
        self.enter_loop(s)
        body = self.block(s.body, 'POk %s' % tup(state), '  ')
        self.leave_loop(s)
        self.image = img0
        self.loop_tails.pop()
        d = '(* line %d: %s *)\n' % (s.lineno, cmt('for %s in %s:' % (ast.unparse(s.target), ast.unparse(s.iter))))
        d += 'Definition %s %s(st : %s) (it : %s) : pres (%s) :=\n' % (
            lname, ''.join('(%s : %s) ' % (v, COQTY[env0[v]]) for v in frees), stt, pty, stt)
        d += '  let %s := st in\n  let %s := it in\n%s.\n' % (pat(state), ("'" + p) if p.startswith('(') else p, body)
        self.defs.append(d)
        self.env = dict(env0)
        inner = '%sbind (foldM (%s) %s %s) (fun %s =>\n%s)' % (
            ind, ' '.join([lname] + frees), it, tup(state), pat(state), self.block(rest, tail, ind))
        self.pre = pre
        return self.wrap(inner)

    def implicit_reads(self, stmts):
        return []

    def enter_loop(self, s):
        pass

    def leave_loop(self, s):
        pass

    def simple(self, s):
        """one `let ... in` line for an assignment-like statement"""
        fail(s, 'unsupported statement `%s`' % ast.unparse(s).splitlines()[0])


# ----------------------------------------------------------------------------
# vect_from_params / vect_to_params
# ----------------------------------------------------------------------------
TRY_SRC = ("try:\n    groups_this = groups[mode - 3]\nexcept (IndexError, TypeError):\n"
           "    raise ValueError('The groups for mode {} were not provided'.format(mode))")


class PackFn(Fn):
    def stmt_special(self, s, rest, tail, ind):
        # n, n_vars = params.shape
        if isinstance(s, ast.Assign) and len(s.targets) == 1 and isinstance(s.targets[0], ast.Tuple) \
                and isinstance(s.value, ast.Attribute) and s.value.attr == 'shape':
            n, t = self.var(s.value.value, 'arr')
            tg = s.targets[0].elts
            if len(tg) != 2 or not all(isinstance(x, ast.Name) for x in tg):
                fail(s, 'expected `a, b = <array>.shape`')
            for x in tg:
                self.bind_var(s, x.id, 'nat')
            return "%slet '(%s, %s) := (%s, length %s) in\n" % (ind, tg[0].id, tg[1].id, self.arr_n[n], n) + self.block(rest, tail, ind)
        # try: groups_this = groups[mode - 3] except (IndexError, TypeError): raise ValueError(..)
        if isinstance(s, ast.Try):
            if ast.unparse(s) != ast.unparse(ast.parse(TRY_SRC).body[0]):
                fail(s, 'the only try statement in the subset is\n' + TRY_SRC)
            self.var(ast.Name(id='groups'), 'groups')
            self.var(ast.Name(id='mode'), 'nat')
            self.bind_var(s, 'groups_this', 'ggroups')
            return '%sbind (groups_get groups (mode - 3)) (fun groups_this =>\n%s)' % (ind, self.block(rest, tail, ind))
        # x = np.empty(len(G), dtype=np.float64); for j, g in enumerate(G): x[j] = e
        if isinstance(s, ast.Assign) and isinstance(s.value, ast.Call) and is_np(s.value.func, 'empty') and rest \
                and isinstance(rest[0], ast.For) and not (isinstance(s.value.args[0], ast.Tuple) if s.value.args else True):
            v, lp = s.value, rest[0]
            ok = len(s.targets) == 1 and isinstance(s.targets[0], ast.Name) and len(v.args) == 1 and len(v.keywords) == 1 \
                and v.keywords[0].arg == 'dtype' and is_np(v.keywords[0].value, 'float64') \
                and isinstance(v.args[0], ast.Call) and isinstance(v.args[0].func, ast.Name) and v.args[0].func.id == 'len' \
                and len(v.args[0].args) == 1 and isinstance(v.args[0].args[0], ast.Name)
            if ok:
                x, G = s.targets[0].id, v.args[0].args[0].id
                ok = not lp.orelse and isinstance(lp.iter, ast.Call) and isinstance(lp.iter.func, ast.Name) and lp.iter.func.id == 'enumerate' \
                    and len(lp.iter.args) == 1 and isinstance(lp.iter.args[0], ast.Name) and lp.iter.args[0].id == G \
                    and isinstance(lp.target, ast.Tuple) and len(lp.target.elts) == 2 and all(isinstance(t, ast.Name) for t in lp.target.elts) \
                    and len(lp.body) == 1 and isinstance(lp.body[0], ast.Assign) and len(lp.body[0].targets) == 1
            if ok:
                j, g = lp.target.elts[0].id, lp.target.elts[1].id
                t = lp.body[0].targets[0]
                ok = isinstance(t, ast.Subscript) and isinstance(t.value, ast.Name) and t.value.id == x and isinstance(t.slice, ast.Name) \
                    and t.slice.id == j and j not in self.env and g not in self.env and x not in self.env and j != g
                ok = ok and not any(isinstance(n, ast.Name) and n.id in (j, x) for n in ast.walk(lp.body[0].value))
            if not ok:
                fail(s, 'expected `x = np.empty(len(G), dtype=np.float64)` followed by `for j, g in enumerate(G): x[j] = <e>`')
            self.var(ast.Name(id=G), 'ggroups')
            env0 = dict(self.env)
            self.env[g] = 'natlist'
            self.pre = []
            val = self.exT(lp.body[0].value, 'num')
            inner = self.wrap('POk %s' % val).replace('\n', ' ')
            self.env = env0
            self.bind_var(s, x, 'vec')
            return '%sbind (mapM (fun %s => %s) %s) (fun %s =>\n%s)' % (ind, g, inner, G, x, self.block(rest[1:], tail, ind))
        return None

    def simple(self, s):
        if isinstance(s, ast.Assign) and len(s.targets) == 1:
            t = s.targets[0]
            if isinstance(t, ast.Name):
                self.copy_of = None
                v, ty = self.ex(s.value)
                if ty == 'arr':
                    if self.copy_of is None:
                        fail(s, 'array assignment that is not a copy')
                    self.arr_n[t.id] = self.arr_n[self.copy_of]
                self.bind_var(s, t.id, ty)
                return 'let %s := %s in' % (t.id, v)
            if isinstance(t, ast.Subscript) and vname(t.value) in self.env and self.env[vname(t.value)] == 'arr' \
                    and isinstance(t.slice, ast.Tuple) and len(t.slice.elts) == 2:
                a = vname(t.value)
                r, c = t.slice.elts
                ci = self.exT(c, 'nat')
                v, ty = self.ex(s.value)
                if full_slice(r) and ty == 'vec':
                    h = self.hoist('arr_set_col %s %s %s %s' % (self.arr_n[a], a, ci, v))
                elif full_slice(r) and ty == 'num':
                    h = self.hoist('arr_fill_col %s %s %s %s' % (self.arr_n[a], a, ci, v))
                elif ty == 'num' and not isinstance(r, ast.Slice):
                    h = self.hoist('arr_set_group %s %s %s %s' % (a, self.exT(r, 'natlist'), ci, v))
                else:
                    fail(s, 'unsupported array store')
                return 'let %s := %s in' % (a, h)
        if isinstance(s, ast.AugAssign) and isinstance(s.op, ast.Add) and isinstance(s.target, ast.Name):
            n, t = self.var(s.target, 'nat')
            return 'let %s := (%s + %s) in' % (n, n, self.exT(s.value, 'nat'))
        if isinstance(s, ast.Expr) and isinstance(s.value, ast.Call) and isinstance(s.value.func, ast.Attribute) \
                and s.value.func.attr == 'append' and len(s.value.args) == 1 and not s.value.keywords:
            n, t = self.var(s.value.func.value, 'veclist')
            return 'let %s := %s ++ [%s] in' % (n, n, self.exT(s.value.args[0], 'vec'))
        return Fn.simple(self, s)


# ----------------------------------------------------------------------------
# MODE_DICT and FitFunctions.__init__ (param_mode -> self.modes)
# ----------------------------------------------------------------------------
def cstr(v):
    if '"' in v or '\n' in v:
        raise TranslationError('string literal %r cannot be rendered' % v)
    return '"%s"%%string' % v


def mode_dict(tree):
    found = [n for n in tree.body if isinstance(n, ast.Assign) and any(vname(t) == 'MODE_DICT' for t in n.targets)]
    for n in ast.walk(tree):
        if isinstance(n, (ast.AugAssign, ast.Delete, ast.Assign)) and n not in found:
            tg = n.targets if not isinstance(n, ast.AugAssign) else [n.target]
            for t in tg:
                if any(isinstance(m, ast.Name) and m.id == 'MODE_DICT' for m in ast.walk(t)):
                    raise TranslationError('line %d: MODE_DICT is modified' % n.lineno)
    if len(found) != 1 or not isinstance(found[0].value, ast.Dict):
        raise TranslationError('expected exactly one module-level `MODE_DICT = {...}`')
    items = []
    for k, v in zip(found[0].value.keys, found[0].value.values):
        if not (isinstance(v, ast.Constant) and type(v.value) is int):
            fail(found[0], 'MODE_DICT value is not an int literal')
        if isinstance(k, ast.Constant) and type(k.value) is int:
            items.append('(PInt %d%%Z, %d%%Z)' % (k.value, v.value))
        elif isinstance(k, ast.Constant) and type(k.value) is str:
            items.append('(PStr %s, %d%%Z)' % (cstr(k.value), v.value))
        else:
            fail(found[0], 'MODE_DICT key is neither an int nor a str literal')
    return ['(* line %d: MODE_DICT *)' % found[0].lineno,
            'Definition MODE_DICT : list (pyval * Z) :=\n  [%s].\n' % ';\n   '.join(items)]


class InitFn(Fn):
    def __init__(self, *a, **k):
        Fn.__init__(self, *a, **k)
        self.env['$dead'] = frozenset()   # dict names that were aliased away (travels with the environment)
        self.iterating = []        # (dict, key variable) of enclosing `for key in dict` loops

    def var(self, node, want=None):
        if vname(node) in self.env.get('$dead', ()):
            fail(node, '%s is read after another name was bound to the same dictionary (aliasing is not modelled)' % vname(node))
        return Fn.var(self, node, want)

    def arith(self, e, a, ta):
        if ta == 'strlist' and isinstance(e.op, ast.Add):
            return '(%s ++ %s)' % (a, self.exT(e.right, 'strlist')), 'strlist'
        return Fn.arith(self, e, a, ta)

    def ex_dict(self, e):
        if isinstance(e, ast.Constant) and type(e.value) is str:
            return cstr(e.value), 'str'
        if isinstance(e, ast.List) and e.elts and all(isinstance(x, ast.Constant) and type(x.value) is str for x in e.elts):
            return '[%s]' % '; '.join(cstr(x.value) for x in e.elts), 'strlist'
        if isinstance(e, ast.Call) and isinstance(e.func, ast.Name) and e.func.id == 'dict':
            if not e.args and all(k.arg is not None and isinstance(k.value, ast.Constant) and type(k.value.value) is str for k in e.keywords):
                return '[%s]' % '; '.join('(%s, PStr %s)' % (cstr(k.arg), cstr(k.value.value)) for k in e.keywords), 'dict'
            if len(e.args) == 1 and len(e.keywords) == 1 and e.keywords[0].arg is None:
                a = self.exT(e.args[0], 'dict')
                b = self.exT(e.keywords[0].value, 'odict')
                return '(d_update %s (odict_val %s))' % (a, b), 'dict'
            fail(e, 'unsupported dict(...)')
        if isinstance(e, ast.Subscript) and vname(e.value) == 'MODE_DICT':
            return self.hoist('mode_lookup MODE_DICT %s' % self.exT(e.slice, 'pyval')), 'Z'
        if isinstance(e, ast.Subscript) and vname(e.value) in self.env and self.env[vname(e.value)] == 'dict':
            d, _ = self.var(e.value)
            return self.hoist('d_get %s %s' % (d, self.exT(e.slice, 'str'))), 'pyval'
        if isinstance(e, ast.ListComp) and len(e.generators) == 1:
            g = e.generators[0]
            if not g.ifs and isinstance(g.target, ast.Name) and g.target.id not in self.env:
                src = self.exT(g.iter, 'strlist')
                env0, pre0 = dict(self.env), self.pre
                self.env[g.target.id] = 'str'
                self.pre = []
                v = self.exT(e.elt, 'Z')
                inner = self.wrap('POk %s' % v).replace('\n', ' ')
                self.env, self.pre = env0, pre0
                return self.hoist('mapM (fun %s => %s) %s' % (g.target.id, inner, src)), 'zlist'
        return None

    def as_pyval(self, e):
        s, t = self.ex(e)
        if t == 'pyval':
            return s
        if t == 'Z':
            return '(PInt %s)' % s
        if t == 'nat' and self.nat_lit(e):
            return '(PInt %s%%Z)' % s
        fail(e, 'a %s is stored into param_mode' % t)

    def enter_loop(self, s):
        d = vname(s.iter)
        if d in self.env and self.env[d] == 'dict':
            if not isinstance(s.target, ast.Name):
                fail(s, 'unsupported loop target')
            self.iterating.append((d, s.target.id))
        else:
            self.iterating.append((None, None))

    def leave_loop(self, s):
        self.iterating.pop()

    def simple(self, s):
        if isinstance(s, ast.Assign) and len(s.targets) == 1:
            t = s.targets[0]
            if vname(t) is not None:
                v, ty = self.ex(s.value)
                dead = set(self.env.get('$dead', ()))
                if ty == 'dict' and vname(s.value) is not None:
                    dead.add(vname(s.value))
                self.bind_var(s, vname(t), ty)
                dead.discard(vname(t))
                self.env['$dead'] = frozenset(dead)
                return 'let %s := %s in' % (vname(t), v)
            if isinstance(t, ast.Subscript) and vname(t.value) in self.env and self.env[vname(t.value)] == 'dict':
                d, _ = self.var(t.value)
                for dd, key in self.iterating:
                    if dd == d and not (isinstance(t.slice, ast.Name) and t.slice.id == key):
                        fail(s, 'store into %s under another key while iterating over it' % d)
                k = self.exT(t.slice, 'str')
                return 'let %s := d_set %s %s %s in' % (d, d, k, self.as_pyval(s.value))
        if isinstance(s, ast.Delete) and len(s.targets) == 1 and isinstance(s.targets[0], ast.Subscript):
            t = s.targets[0]
            d, _ = self.var(t.value, 'dict')
            if any(dd == d for dd, _ in self.iterating):
                fail(s, 'del while iterating')
            return 'let %s := %s in' % (d, self.hoist('d_del %s %s' % (d, self.exT(t.slice, 'str'))))
        if isinstance(s, ast.Expr) and isinstance(s.value, ast.Call) and isinstance(s.value.func, ast.Attribute) \
                and s.value.func.attr == 'warn' and vname(s.value.func.value) == 'warnings' and len(s.value.args) == 1 \
                and not s.value.keywords and isinstance(s.value.args[0], ast.Constant) and type(s.value.args[0].value) is str:
            self.var(ast.Name(id='warnings'), 'strlist')
            return 'let warnings := warnings ++ [%s] in' % cstr(s.value.args[0].value)
        return Fn.simple(self, s)


def stores_attr(stmts, attrs):
    for s in stmts:
        for n in ast.walk(s):
            tg = []
            if isinstance(n, ast.Assign):
                tg = n.targets
            elif isinstance(n, (ast.AugAssign, ast.AnnAssign)):
                tg = [n.target]
            elif isinstance(n, ast.Delete):
                tg = n.targets
            elif isinstance(n, ast.For):
                tg = [n.target]
            def bases(t):
                if isinstance(t, (ast.Tuple, ast.List)):
                    return [b for x in t.elts for b in bases(x)]
                while isinstance(t, (ast.Subscript, ast.Starred)):
                    t = t.value
                return [t]
            for t in tg:
                for m in bases(t):
                    if vname(m) in attrs:
                        return n
            if isinstance(n, ast.Call) and isinstance(n.func, ast.Attribute) and vname(n.func.value) in attrs:
                return n
    return None


def init_part(tree, funs, classes):
    if 'FitFunctions' not in classes:
        raise TranslationError('class FitFunctions not found')
    meth = {}
    for n in classes['FitFunctions'].body:
        if isinstance(n, ast.FunctionDef):
            if n.name in meth:
                raise TranslationError('method %s defined twice' % n.name)
            meth[n.name] = n
    if '__init__' not in meth:
        raise TranslationError('FitFunctions.__init__ not found')
    fn = meth['__init__']
    names = [a.arg for a in fn.args.args]
    if names != ['self', 'fit_function', 'ndim', 'isotropic', 'param_mode'] or fn.decorator_list:
        raise TranslationError('FitFunctions.__init__: unexpected signature')
    if not is_const(fn.args.defaults[-1], None):
        raise TranslationError('FitFunctions.__init__: default of param_mode is not None')
    body = body_wo_doc(fn)

    def find(pred, what):
        ix = [k for k, s in enumerate(body) if pred(s)]
        if len(ix) != 1:
            raise TranslationError('FitFunctions.__init__: expected exactly one top-level `%s`, found %d' % (what, len(ix)))
        return ix[0]
    is_assign = lambda s, nm: isinstance(s, ast.Assign) and len(s.targets) == 1 and vname(s.targets[0]) == nm
    k_params = find(lambda s: is_assign(s, 'self_params'), 'self.params = ...')
    k_first = find(lambda s: is_assign(s, '_default_param_mode'), '_default_param_mode = ...')
    k_modes = find(lambda s: is_assign(s, 'self_modes'), 'self.modes = ...')
    if not k_params < k_first < k_modes:
        raise TranslationError('FitFunctions.__init__: self.params / _default_param_mode / self.modes are not in this order')
    inputs = ('self_pos_columns', 'self_size_columns', 'self__params', 'isotropic', 'param_mode')
    bad = stores_attr(body[k_params + 1:k_first], ('self_params',) + inputs)
    if bad is not None:
        fail(bad, 'an input of the param_mode block is modified between self.params and _default_param_mode')
    bad = stores_attr(body[k_modes + 1:], ('self_modes', 'self_param_mode', 'self_params', 'self__params'))
    for m in meth.values():
        if bad is None and m is not fn:
            bad = stores_attr(m.body, ('self_modes', 'self_param_mode', 'self_params', 'self__params'))
    if bad is not None:
        fail(bad, 'self.modes / self.param_mode / self.params are modified after self.modes was built')
    f = InitFn('init_modes', dict(self_pos_columns='strlist', self_size_columns='strlist', self__params='strlist',
                                  isotropic='bool', param_mode='odict', warnings='strlist'))
    stmts = [body[k_params]] + body[k_first:k_modes + 1]
    text = f.block(stmts, 'POk (self_params, self_modes, warnings)', '  ')
    out = mode_dict(tree)
    out += f.defs
    out.append('(* FitFunctions.__init__ (line %d): line %d `self.params = ...` and lines %d-%d, `_default_param_mode = ...` to `self.modes = ...`;' % (
        fn.lineno, body[k_params].lineno, body[k_first].lineno, body[k_modes].lineno))
    out.append('   self_pos_columns, self_size_columns, self__params = self.pos_columns, self.size_columns, self._params;')
    out.append('   result: (self.params, self.modes, the texts handed to warnings.warn) *)')
    out.append('Definition init_modes (self_pos_columns self_size_columns self__params : list string) (isotropic : bool) (param_mode : option pydict)'
               ' : pres (list string * list Z * list string) :=')
    out.append('  let warnings := [] in')
    out.append(text + '.\n')
    return out


# ----------------------------------------------------------------------------
# FitFunctions.get_residual: cl_groups, residual, jacobian
# ----------------------------------------------------------------------------
class ClosureFn(PackFn):
    total_arrays = True

    def __init__(self, *a, **k):
        PackFn.__init__(self, *a, **k)
        self.cmask = {}     # pixel variable compressed by a mask -> name of that mask

    # ---- pointwise translation: for parr / pvec the text is the value AT PIXEL x
    def num(self, s, t, node):
        if t == 'num' or t == 'parr':
            return s
        if t == 'nat':
            return '(n_of_nat ops %s)' % s
        fail(node, 'a %s is used as a number' % t)

    def masks_in(self, e):
        out = set()
        for n in ast.walk(e):
            if isinstance(n, ast.Name) and n.id in self.env and self.env[n.id] in ('parr', 'pvec', 'image', 'd3'):
                out.add(self.cmask.get(n.id))
        return out

    def mesh_arg(self, e):
        """mesh[:, mask] -> (mesh variable, mask variable)"""
        if isinstance(e, ast.Subscript) and isinstance(e.slice, ast.Tuple) and len(e.slice.elts) == 2 and full_slice(e.slice.elts[0]):
            m, _ = self.var(e.value, 'mesh')
            k, _ = self.var(e.slice.elts[1], 'mask')
            return m, k
        fail(e, 'expected mesh[:, mask]')

    def row_arg(self, e):
        """params[i] -> text of the row"""
        if isinstance(e, ast.Subscript) and vname(e.value) in self.env and self.env[vname(e.value)] == 'arr' \
                and not isinstance(e.slice, (ast.Tuple, ast.Slice)):
            return '(arr_row ops %s %s)' % (vname(e.value), self.exT(e.slice, 'nat'))
        fail(e, 'expected params[i]')

    def ptx(self, e):
        r = self.pt(e)
        return r if r is not None else PackFn.ex(self, e)

    def pt(self, e):
        if isinstance(e, ast.Constant) and type(e.value) in (int, float) and not self.nat_lit(e):
            if float(e.value) != int(e.value):
                fail(e, 'non-integer literal')
            return ('(n_zero ops)' if e.value == 0 else '(n_of_Z ops (%d)%%Z)' % int(e.value)), 'num'
        if isinstance(e, ast.UnaryOp) and isinstance(e.op, ast.USub) and isinstance(e.operand, ast.Constant) \
                and type(e.operand.value) in (int, float) and float(e.operand.value) == int(e.operand.value):
            return '(n_of_Z ops (-%d)%%Z)' % int(e.operand.value), 'num'
        if isinstance(e, ast.Name) and e.id in self.env:
            t = self.env[e.id]
            if t in ('parr', 'pvec'):
                return '(%s x)' % e.id, t
            if t == 'image':
                return '(im_val %s x)' % e.id, 'parr'
            return e.id, t
        if isinstance(e, ast.Attribute) and e.attr == 'T':
            s, t = self.ptx(e.value)
            if t != 'pvec':
                fail(e, '.T of a %s' % t)
            return s, t
        if isinstance(e, ast.Call) and is_np(e.func, 'array') and len(e.args) == 1 and not e.keywords:
            s, t = self.ptx(e.args[0])
            if t != 'pvec':
                fail(e, 'np.array of a %s' % t)
            return s, t
        if isinstance(e, ast.BinOp) and isinstance(e.op, ast.Pow):
            if not is_const(e.right, 2):
                fail(e, 'only **2')
            s, t = self.ptx(e.left)
            if t not in ('num', 'parr'):
                fail(e, '**2 of a %s' % t)
            return '(n_mul ops %s %s)' % (s, s), t
        if isinstance(e, ast.BinOp) and isinstance(e.op, (ast.Add, ast.Sub, ast.Mult, ast.Div)):
            a, ta = self.ptx(e.left)
            b, tb = self.ptx(e.right)
            opn = {ast.Add: 'n_add', ast.Sub: 'n_sub', ast.Mult: 'n_mul', ast.Div: 'n_div'}[type(e.op)]
            if ta == 'nat' and tb == 'nat' and not isinstance(e.op, ast.Div):
                return '(%s %s %s)' % (a, {ast.Add: '+', ast.Sub: '-', ast.Mult: '*'}[type(e.op)], b), 'nat'
            if len(self.masks_in(e)) > 1:
                fail(e, 'arrays over all pixels and arrays compressed by a mask (or by different masks) are combined')
            if tb == 'd3' and ta in ('num', 'parr') and isinstance(e.op, ast.Mult):
                return (a, b), 'd3s'
            if tb == 'pvec' and ta in ('num', 'parr') and isinstance(e.op, ast.Mult):
                return '(map (fun d => n_mul ops %s d) %s)' % (a, b), 'pvec'
            if ta == 'mat' and tb in ('num', 'nat') and isinstance(e.op, ast.Div):
                return '(mat_div ops %s %s)' % (a, self.num(b, tb, e)), 'mat'
            if ta == 'vec' and tb in ('num', 'nat') and isinstance(e.op, ast.Div):
                return '(vec_div ops %s %s)' % (a, self.num(b, tb, e)), 'vec'
            if ta in ('num', 'parr', 'nat') and tb in ('num', 'parr', 'nat'):
                return '(%s ops %s %s)' % (opn, self.num(a, ta, e), self.num(b, tb, e)), ('parr' if 'parr' in (ta, tb) else 'num')
            fail(e, 'arithmetic on %s and %s' % (ta, tb))
        if isinstance(e, ast.Subscript) and vname(e.value) in self.env:
            n, t = self.var(e.value)
            sl = e.slice
            if t == 'pvec' and is_const(sl, 0):
                return '(nth 0 (%s x) (n_zero ops))' % n, 'parr'
            if t == 'pvec' and isinstance(sl, ast.Slice) and is_const(sl.lower, 1) and sl.upper is None and sl.step is None:
                return '(tl (%s x))' % n, 'pvec'
            if t == 'natlist' and is_const(sl, 0):
                return '(hd 0 %s)' % n, 'nat'
            if t == 'groups' and is_const(sl, 0):
                return '(groups_item %s 0)' % n, 'ggroups'
            if t == 'arr' and isinstance(sl, ast.Tuple) and len(sl.elts) == 2:
                r = self.exT(sl.elts[0], 'nat')
                c = sl.elts[1]
                if isinstance(c, ast.Slice):
                    if c.upper is None and c.step is None and isinstance(c.lower, ast.UnaryOp) and isinstance(c.lower.op, ast.USub):
                        return '(py_last (arr_row ops %s %s) %s)' % (n, r, self.exT(c.lower.operand, 'nat')), 'vec'
                    fail(e, 'unsupported row slice')
                return '(arr_item ops %s %s %s)' % (n, r, self.exT(c, 'nat')), 'num'
            if t == 'arr':
                return self.row_arg(e), 'vec'
        if isinstance(e, ast.Call) and vname(e.func) in self.env and not e.keywords:
            f, tf = self.var(e.func)
            if tf in ('r2fun', 'dr2fun') and len(e.args) == 2:
                m, k = self.mesh_arg(e.args[0])
                self.last_mask = k
                return '(%s (%s x) %s)' % (f, m, self.row_arg(e.args[1])), ('parr' if tf == 'r2fun' else 'pvec')
            if tf in ('mfun', 'mdfun') and len(e.args) == 3:
                r2, t2 = self.ptx(e.args[0])
                if t2 != 'parr':
                    fail(e, 'the first argument of the model function is not a pixel array')
                self.last_mask = list(self.masks_in(e.args[0]))[0]
                p = self.exT(e.args[1], 'vec')
                nd = self.exT(e.args[2], 'num')
                return '(%s %s %s %s)' % (f, r2, p, nd), ('parr' if tf == 'mfun' else 'mdpair')
        if isinstance(e, ast.Call) and is_np(e.func, 'nansum') and len(e.args) == 1:
            if self.image is None:
                fail(e, 'np.nansum outside the loop over the clusters')
            a, ta = self.ptx(e.args[0])
            if self.masks_in(e.args[0]) - {None}:
                fail(e, 'np.nansum of an array compressed by a mask')
            if not e.keywords and ta == 'parr':
                return '(np_nansum ops (im_live %s) (fun x => %s))' % (self.image, a), 'num'
            if len(e.keywords) == 1 and e.keywords[0].arg == 'axis' and is_const(e.keywords[0].value, 2) and ta == 'd3s':
                sc, d = a
                return '(d3_nansum_axis2 ops (im_live %s) %s (fun x => %s) %s)' % (self.image, self.shape3[d][1], sc, d), 'mat'
            fail(e, 'unsupported np.nansum')
        if isinstance(e, ast.Call) and is_np(e.func, 'any') and len(e.args) == 1 and not e.keywords:
            a = e.args[0]
            if isinstance(a, ast.Call) and is_np(a.func, 'isnan') and len(a.args) == 1 and not a.keywords:
                return '(existsb (n_isnan ops) %s)' % self.exT(a.args[0], 'vec'), 'bool'
        if isinstance(e, ast.Call) and is_np(e.func, 'arange') and len(e.args) == 1 and not e.keywords:
            return '(np_arange %s)' % self.exT(e.args[0], 'nat'), 'natlist'
        if isinstance(e, ast.Call) and isinstance(e.func, ast.Name) and e.func.id in ('vect_to_params', 'vect_from_params'):
            return self.pack_call(e)
        return None

    def pack_call(self, e):
        if e.func.id == 'vect_to_params':
            if len(e.args) != 4 or e.keywords:
                fail(e, 'expected vect_to_params(vect, params, modes, groups)')
            v = self.exT(e.args[0], 'vec')
            p, _ = self.var(e.args[1], 'arr')
            self.copy_of = p
            return self.hoist('vect_to_params %s %s %s %s %s' % (v, self.arr_n[p], p, self.exT(e.args[2], 'modes'), self.exT(e.args[3], 'groups'))), 'arr'
        if len(e.args) != 3 or len(e.keywords) != 1 or e.keywords[0].arg != 'operation' or not is_np(e.keywords[0].value, 'sum'):
            fail(e, 'expected vect_from_params(result, modes, groups, operation=np.sum)')
        p, _ = self.var(e.args[0], 'arr')
        return self.hoist('vect_from_params %s %s %s %s (np_sum_op ops)' % (self.arr_n[p], p, self.exT(e.args[1], 'modes'), self.exT(e.args[2], 'groups'))), 'vec'

    def ex(self, e):
        r = self.pt(e)
        if r is None:
            return PackFn.ex(self, e)
        s, t = r
        if t in ('parr', 'pvec'):
            return '(fun x => %s)' % s, t
        if t in ('d3s', 'mdpair'):
            fail(e, 'unsupported use of `%s`' % ast.unparse(e))
        return s, t

    def implicit_reads(self, stmts):
        out = []
        for s in stmts:
            for n in ast.walk(s):
                if isinstance(n, ast.Call) and isinstance(n.func, ast.Name) and n.func.id == 'len' and len(n.args) == 1 and isinstance(n.args[0], ast.Name):
                    if n.args[0].id == 'dr2dx':
                        out.append('dr2_len')
                    if n.args[0].id == 'deriv':
                        out.append('dfun_len')
        return out

    def stmt_special(self, s, rest, tail, ind):
        # model, deriv = model_dfun(r2, params[i, -n_fun_params:], ndim)
        if isinstance(s, ast.Assign) and len(s.targets) == 1 and isinstance(s.targets[0], ast.Tuple) and isinstance(s.value, ast.Call) \
                and vname(s.value.func) in self.env and self.env[vname(s.value.func)] == 'mdfun':
            tg = s.targets[0].elts
            if len(tg) != 2 or not all(isinstance(x, ast.Name) for x in tg) or tg[1].id != 'deriv':
                fail(s, 'expected `model, deriv = model_dfun(...)`')
            c, t = self.ptx(s.value)
            self.bind_var(s, tg[0].id, 'parr')
            self.bind_var(s, tg[1].id, 'pvec')
            self.cmask[tg[0].id] = self.cmask[tg[1].id] = self.last_mask
            return '%slet %s := (fun x => fst %s) in\n%slet %s := (fun x => snd %s) in\n' % (ind, tg[0].id, c, ind, tg[1].id, c) \
                + self.block(rest, tail, ind)
        return PackFn.stmt_special(self, s, rest, tail, ind)

    def same_mask(self, node, value, mask):
        ms = self.masks_in(value) - {None}
        if ms - {mask}:
            fail(node, 'the right-hand side is compressed by another mask than the one it is stored under')

    def simple(self, s):
        if isinstance(s, ast.Assign) and len(s.targets) == 1 and isinstance(s.targets[0], ast.Name):
            x, v = s.targets[0].id, s.value
            # derivs = np.zeros((n_cluster, n_vars - 1, len(image)))
            if isinstance(v, ast.Call) and is_np(v.func, 'zeros'):
                ok = len(v.args) == 1 and not v.keywords and isinstance(v.args[0], ast.Tuple) and len(v.args[0].elts) == 3 \
                    and self.image is not None and ast.unparse(v.args[0].elts[2]) == 'len(%s)' % self.image
                if not ok:
                    fail(s, 'expected np.zeros((a, b, len(image)))')
                a, b = self.exT(v.args[0].elts[0], 'nat'), self.exT(v.args[0].elts[1], 'nat')
                self.shape3[x] = (a, b)
                self.bind_var(s, x, 'd3')
                return 'let %s := d3_zeros ops %s %s in' % (x, a, b)
            self.last_mask = None
            self.copy_of = None
            val, ty = self.ex(v)
            if ty == 'arr':
                if self.copy_of is None:
                    fail(s, 'array assignment that is neither a copy nor vect_to_params')
                self.arr_n[x] = self.arr_n[self.copy_of]
            if ty in ('parr', 'pvec'):
                ms = self.masks_in(v) - {None}
                if self.last_mask is not None:
                    ms.add(self.last_mask)
                if len(ms) > 1:
                    fail(s, 'arrays compressed by different masks are combined')
                self.cmask[x] = list(ms)[0] if ms else None
            self.bind_var(s, x, ty)
            return 'let %s := %s in' % (x, val)
        if isinstance(s, ast.AugAssign) and isinstance(s.target, ast.Name) and self.env.get(s.target.id) == 'num' \
                and isinstance(s.op, (ast.Add, ast.Sub)):
            v = self.exT(s.value, 'num')
            return 'let %s := (%s ops %s %s) in' % (s.target.id, 'n_add' if isinstance(s.op, ast.Add) else 'n_sub', s.target.id, v)
        # diff[mask] -= e
        if isinstance(s, ast.AugAssign) and isinstance(s.op, ast.Sub) and isinstance(s.target, ast.Subscript) \
                and vname(s.target.value) in self.env and self.env[vname(s.target.value)] == 'parr':
            d = vname(s.target.value)
            m, _ = self.var(s.target.slice, 'mask')
            if self.cmask.get(d) is not None:
                fail(s, '%s is itself compressed' % d)
            self.same_mask(s, s.value, m)
            v, t = self.ex(s.value)
            if t != 'parr':
                fail(s, 'the subtracted value is not a pixel array')
            return 'let %s := parr_masked_sub ops %s %s %s in' % (d, d, m, v)
        if isinstance(s, ast.Assign) and len(s.targets) == 1 and isinstance(s.targets[0], ast.Subscript):
            t = s.targets[0]
            a = vname(t.value)
            if a in self.env and self.env[a] == 'd3' and isinstance(t.slice, ast.Tuple) and len(t.slice.elts) == 3:
                j, k, m = t.slice.elts
                js = self.exT(j, 'nat')
                ms, _ = self.var(m, 'mask')
                self.same_mask(s, s.value, ms)
                body, ty = self.ptx(s.value)
                v = '(fun x => %s)' % body if ty in ('parr', 'pvec') else body
                if isinstance(k, ast.Slice):
                    if ty != 'pvec' or k.step is not None:
                        fail(s, 'unsupported store into the derivative array')
                    if k.upper is None and isinstance(k.lower, ast.UnaryOp) and isinstance(k.lower.op, ast.USub):
                        return 'let %s := d3_set_last %s %s %s %s %s in' % (a, a, js, self.exT(k.lower.operand, 'nat'), ms, v)
                    if k.lower is not None and k.upper is not None:
                        return 'let %s := d3_set %s %s %s %s %s %s in' % (a, a, js, self.exT(k.lower, 'nat'), self.exT(k.upper, 'nat'), ms, v)
                    fail(s, 'unsupported slice of the derivative array')
                if ty != 'parr' or not self.nat_lit(k):
                    fail(s, 'unsupported store into the derivative array')
                kk = int(k.value)
                return 'let %s := d3_set %s %s %d %d %s (fun x => [%s]) in' % (a, a, js, kk, kk + 1, ms, body)
            if a in self.env and self.env[a] == 'arr' and isinstance(t.slice, ast.Tuple) and len(t.slice.elts) == 2:
                r, c = t.slice.elts
                idx = self.exT(r, 'natlist')
                if isinstance(c, ast.Slice) and is_const(c.lower, 1) and c.upper is None and c.step is None:
                    return 'let %s := arr_set_rows_from1 ops %s %s %s in' % (a, a, idx, self.exT(s.value, 'mat'))
                if is_const(c, 0):
                    return 'let %s := arr_set_rows_col0 %s %s %s in' % (a, a, idx, self.exT(s.value, 'num'))
                fail(s, 'unsupported store into the result array')
        return PackFn.simple(self, s)


def closures_part(tree, funs, classes):
    meth = {n.name: n for n in classes['FitFunctions'].body if isinstance(n, ast.FunctionDef)}
    if 'get_residual' not in meth:
        raise TranslationError('FitFunctions.get_residual not found')
    fn = meth['get_residual']
    check_sig(fn, ['self', 'images', 'meshes', 'masks', 'params_const', 'groups', 'norm'], 2)
    body = body_wo_doc(fn)
    inner = [s for s in body if isinstance(s, ast.FunctionDef)]
    if [s.name for s in inner] != ['residual', 'jacobian']:
        raise TranslationError('get_residual: expected the closures residual and jacobian, in this order')
    for c in inner:
        check_sig(c, ['vect'], 0)
    k_res, k_jac = body.index(inner[0]), body.index(inner[1])
    GUARD = "if not self.has_jacobian:\n    return (residual, None)"
    if k_jac != k_res + 2 or ast.unparse(body[k_res + 1]) != GUARD or k_jac != len(body) - 2 \
            or ast.unparse(body[-1]) != 'return (residual, jacobian)':
        raise TranslationError('get_residual: expected `def residual`, `if not self.has_jacobian: return residual, None`, '
                               '`def jacobian`, `return residual, jacobian` at the end')
    pre = body[:k_res]
    for c in inner:
        bad = stores_attr(c.body, ('cl_groups', 'r2_fun', 'dr2_fun', 'model_fun', 'model_dfun', 'n_fun_params', 'ndim', 'modes',
                                   'groups', 'norm', 'params_const', 'images', 'meshes', 'masks', 'n', 'n_vars'))
        if bad is not None:
            fail(bad, 'a closure modifies a variable of the enclosing function')
        for n in ast.walk(c):
            if isinstance(n, (ast.Global, ast.Nonlocal)):
                fail(n, 'global / nonlocal')
    env = dict(self_r2_fun='r2fun', self_dr2_fun='dr2fun', self_fun='mfun', self_dfun='mdfun', self__params='strlist',
               self_ndim='num', self_modes='modes', dr2_len='nat', dfun_len='nat', images='images', meshes='meshes', masks='maskss',
               params_const_n='nat', params_const='arr', groups='groups', norm='num')
    arrn = dict(params_const='params_const_n')
    params = ['self_r2_fun', 'self_dr2_fun', 'self_fun', 'self_dfun', 'self__params', 'self_ndim', 'self_modes', 'dr2_len', 'dfun_len',
              'images', 'meshes', 'masks', 'params_const_n', 'params_const', 'groups', 'norm']
    sig = ' '.join('(%s : %s)' % (p, COQTY[env[p]]) for p in params)
    out = ['Section Closures.', 'Context {A X : Type} (ops : num_ops A).', '']
    # cl_groups on its own (the first two statements)
    f = ClosureFn('get_residual_cl_groups', dict(params_const_n='nat', params_const='arr', groups='groups'), arrn)
    text = f.block(pre[:2], 'POk cl_groups', '  ')
    if f.defs:
        raise TranslationError('get_residual: the first two statements do not define cl_groups')
    out.append('(* FitFunctions.get_residual (line %d), lines %d-%d: the clusters *)' % (fn.lineno, pre[0].lineno, pre[1].end_lineno))
    out.append('Definition get_residual_cl_groups (params_const_n : nat) (params_const : list (list A)) (groups : groups_t) : pres (list (list nat)) :=\n%s.\n' % text)
    for c, ret in ((inner[0], 'A'), (inner[1], 'list A')):
        f = ClosureFn('get_residual_' + c.name, dict(env, vect='vec'), arrn)
        text = f.block(pre + c.body, None, '  ')
        out += f.defs
        out.append('(* FitFunctions.get_residual (line %d): the closure %s(vect) of line %d, preceded by the statements of get_residual' % (fn.lineno, c.name, c.lineno))
        out.append('   it closes over (lines %d-%d); self_* = the attributes of self, dr2_len / dfun_len = len(dr2dx) / len(deriv) *)' % (pre[0].lineno, pre[-1].end_lineno))
        out.append('Definition get_residual_%s %s (vect : list A) : pres (%s) :=\n%s.\n' % (c.name, sig, ret, text))
    out += ['End Closures.', '']
    return out


def check_sig(fn, names, ndefaults):
    a = fn.args
    if a.vararg or a.kwarg or a.kwonlyargs or getattr(a, 'posonlyargs', []) or fn.decorator_list:
        raise TranslationError('unsupported signature of %s' % fn.name)
    if [x.arg for x in a.args] != names or len(a.defaults) != ndefaults:
        raise TranslationError('%s: expected the parameters %s' % (fn.name, names))


def pack_functions(funs):
    out = ['Section Packing.', 'Context {A : Type}.', '']
    for name, sig, ndef, env, ret in (
            ('vect_from_params', ['params', 'modes', 'groups', 'operation'], 2,
             dict(params='arr', params_n='nat', modes='modes', groups='groups', operation='op'), 'list A'),
            ('vect_to_params', ['vect', 'params', 'modes', 'groups'], 1,
             dict(vect='vec', params='arr', params_n='nat', modes='modes', groups='groups'), 'list (list A)')):
        if name not in funs:
            raise TranslationError('function %s not found' % name)
        fn = funs[name]
        check_sig(fn, sig, ndef)
        for d in fn.args.defaults:
            if not is_const(d, None):
                raise TranslationError('%s: a default argument is not None' % name)
        f = PackFn(name, env, dict(params='params_n'))
        body = f.block(body_wo_doc(fn), None, '  ')
        out += f.defs
        args = []
        for p in sig:
            if env[p] == 'arr':
                args.append('(%s_n : nat)' % p)
            args.append('(%s : %s)' % (p, COQTY[env[p]]))
        out.append('(* line %d: def %s(%s) *)' % (fn.lineno, name, ', '.join(sig)))
        out.append('Definition %s %s : pres (%s) :=\n%s.\n' % (name, ' '.join(args), ret, body))
    out += ['End Packing.', '']
    return out


HEADER = """(* GENERATED by tools/py2coq_fitpack.py from trackpy/refine/least_squares.py -- do not edit.
   MODE_DICT, vect_from_params, vect_to_params, the param_mode / self.modes part of
   FitFunctions.__init__ and the closures of FitFunctions.get_residual, statement by
   statement, as state-passing Gallina over Model/PyFitpack.v (vocabulary, list of the
   numpy / dict primitives, conventions; see also the translator's docstring). *)
From Coq Require Import String ZArith List Bool Arith.
From TP Require Import Model.Pack Model.PyFitpack.
Import ListNotations.
Open Scope nat_scope.
"""


def translate(repo):
    path = os.path.join(repo, 'trackpy', 'refine', 'least_squares.py')
    tree = ast.parse(open(path).read())
    funs, classes = {}, {}
    for n in tree.body:
        if isinstance(n, ast.FunctionDef):
            if n.name in funs:
                raise TranslationError('function %s defined twice' % n.name)
            funs[n.name] = n
        elif isinstance(n, ast.ClassDef):
            classes[n.name] = n
    out = [HEADER]
    for part in PARTS:
        out += part(tree, funs, classes)
    return '\n'.join(out)


PARTS = [lambda tree, funs, classes: pack_functions(funs), init_part, closures_part]


def main():
    ap = argparse.ArgumentParser()
    ap.add_argument('--repo', default=os.environ.get('TRACKPY_REPO', '/repo'))
    ap.add_argument('--out', default=os.path.join(os.path.dirname(os.path.dirname(os.path.abspath(__file__))), 'coq', 'Gen', 'fitpack.v'))
    ap.add_argument('--stdout', action='store_true')
    a = ap.parse_args()
    try:
        text = translate(a.repo)
    except TranslationError as e:
        sys.stderr.write('py2coq_fitpack: TRANSLATION ERROR: %s\n' % e)
        sys.exit(2)
    if a.stdout:
        sys.stdout.write(text)
        return
    old = open(a.out).read() if os.path.exists(a.out) else None
    if old != text:
        os.makedirs(os.path.dirname(a.out), exist_ok=True)
        tmp = a.out + '.tmp%d' % os.getpid()
        with open(tmp, 'w') as f:
            f.write(text)
        os.replace(tmp, a.out)
        print('py2coq_fitpack: wrote %s (changed)' % a.out)
    else:
        print('py2coq_fitpack: %s up to date' % a.out)


if __name__ == '__main__':
    main()
