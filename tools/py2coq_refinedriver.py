#!/usr/bin/env python3
"""Fail-closed translator (route T) for C16: the DRIVER of refine_leastsq.

Reads  $TRACKPY_REPO/trackpy/refine/least_squares.py  (default /repo) with the Python `ast`
module and regenerates  /verif/coq/Gen/refinedriver.v  from the CURRENT text of
refine_leastsq, from `for _, f_iter in iterable:` to `return f`:

  refine_leastsq_unit_loop1    body of `for _n_iter in range(max_iter):` (prepare_subimages,
                               get_residual, minimize, the success test, rms_dev, vect_to_params,
                               the shift test with `break`, `coords = new_coords`)
  refine_leastsq_unit_try1     body of the `try:` (finite start values, coords / vect /
                               f_bounds, the recentring loop, the rms test AFTER the loop, the
                               compute_error block)
  refine_leastsq_unit_except1  `except RefineException as e:` (NaN cost, nothing else)
  refine_leastsq_unit_else1    `else:` (write-back of params and cost)
  refine_leastsq_unit          the body of the loop over units
  refine_leastsq_driver        the loop over units and `return f`

The embedding is shallow and state passing; vocabulary and its meaning: coq/Model/PyRefinedriver.v
(read its header).  Control flow -- sequences, if / elif / else, `for .. in range(max_iter)`
with break, try / except RefineException / else, raise RefineException(..) -- is translated
GENERICALLY, so the scope of the try block, the position of every test and of every write
in the generated text is the position in the source.  Everything that is not control is a
NAMED PRIMITIVE matched as the exact text of the statement / condition (ast.unparse) in the
tables PRIMS / CONDS below, together with the kind its variables must have at that place:

  params        RAW (read from the table) until `if not np.isfinite(params).all(): raise ..`
                has been passed, FIN afterwards; a name assigned inside a try body is MAYBE in
                the handler and after the try statement unless handler and else agree, a name
                first assigned inside a loop or a branch is MAYBE after it.  A primitive that
                reads a MAYBE name is REFUSED (e.g. a write-back of `params` placed after the
                try statement).
  result, rms_dev, params_std
                option fields of the state: every read is guarded (unbound -> NameError).
  new_coords, hessian, result_std
                immutable lets of the block that assigns them.
  sub_images, meshes, masks, residual, jacobian
                exist only for the primitives of one loop iteration (forgotten when a loop
                body is entered), frame_nos / f_constraints / norm likewise structural.

An `if` all of whose branches are logging (logger.* calls, assignments to status /
cluster_id / last_frame / mesg built from format / len / int) or otherwise without effect on
the state is dropped with a comment.

Checked in addition (ERROR otherwise):
  * `level` is assigned exactly 'global' next to `iterable = [(None, f)]` and 'cluster' next
    to `iterable = f.groupby(['frame', 'cluster'])`, nowhere else; the loop over units is the
    last statement before `return f`;
  * the try statement has exactly one handler, `except RefineException`, and no finally;
  * FitFunctions.get_residual: every statement OUTSIDE the closures `residual` / `jacobian`
    is one of the known exception-free forms (x = self.attr, x = len(self.attr),
    n, n_vars = params_const.shape, the cl_groups selection, the returns).  Arithmetic hoisted
    out of the closures (e.g. `scale = 1. / norm`: ZeroDivisionError on a dark frame, raised
    at the call of get_residual and NOT a RefineException) is refused.

Anything else -- an unknown statement or condition, a changed signature, a missing function
-- is an ERROR: exit status 2, nothing written; the check treats that like a broken proof.

Usage:  py2coq_refinedriver.py [--repo /repo] [--out /verif/coq/Gen/refinedriver.v] [--stdout]
"""
import ast, sys, os, argparse


class TranslationError(Exception):
    pass


def fail(node, msg):
    raise TranslationError('line %s: %s' % (getattr(node, 'lineno', '?'), msg))


def text(n):
    return ast.unparse(n)


def K(src):
    """normal form (ast.unparse) of a statement / expression given as source text"""
    import textwrap
    m = ast.parse(textwrap.dedent(src))
    if len(m.body) != 1:
        raise AssertionError(src)
    s = m.body[0]
    return text(s.value) if isinstance(s, ast.Expr) and not isinstance(s.value, ast.Call) else text(s)


def KE(src):
    return text(ast.parse(src, mode='eval').body)


def comment(s):
    t = text(s).split('\n')[0].replace('(*', '( *').replace('*)', '* )').replace('"', "'")
    if len(t) > 120:
        t = t[:117] + '...'
    return '(* %d: %s *)' % (getattr(s, 'lineno', 0), t)


def is_name(e, n=None):
    return isinstance(e, ast.Name) and (n is None or e.id == n)


# ---------------------------------------------------------------------------------------------
# variables
# ---------------------------------------------------------------------------------------------
FIELDS = {'groups': 'd_groups', 'coords': 'd_coords', 'vect': 'd_vect', 'f_bounds': 'd_f_bounds'}
OPTFIELDS = {'result': 'd_result', 'rms_dev': 'd_rms_dev', 'params_std': 'd_params_std'}
LETS = ('new_coords', 'hessian', 'result_std')
STRUCT = ('frame_nos', 'norm', 'f_constraints', 'sub_images', 'meshes', 'masks', 'residual', 'jacobian')
ITERVARS = ('sub_images', 'meshes', 'masks', 'residual', 'jacobian')
LOGVARS = ('status', 'cluster_id', 'last_frame', 'mesg')
SETTER = {'f': 'set_f', 'std': 'set_std', 'raw': 'set_raw', 'params': 'set_params', 'groups': 'set_groups', 'coords': 'set_coords',
          'vect': 'set_vect', 'f_bounds': 'set_f_bounds', 'result': 'set_result', 'rms_dev': 'set_rms_dev', 'params_std': 'set_params_std'}


class Prim:
    """guards, in evaluation order:  ('if', bool term, exn)        if term then ORaise exn st else ..
                                     ('opt', option term, exn, v)  match term with None => ORaise exn st | Some v => .. end
       lets: [(state field, term)]   let st := set_<field> st term in
       locals: [(coq name, term)]    let name := term in
       binds: {python name: tag}     raises: exn -> the statement always raises"""
    def __init__(self, guards=(), lets=(), locals=(), binds=None, note=None, raises=None):
        self.guards, self.lets, self.locals, self.binds, self.note, self.raises = list(guards), list(lets), list(locals), dict(binds or {}), note, raises


class Ctx:
    def __init__(self, tr, env, node):
        self.tr, self.env, self.node = tr, env, node
        self.n = 0

    def need(self, name, *tags):
        t = self.env.get(name)
        if t is None:
            fail(self.node, '`%s` is read here but not assigned before on this path' % name)
        if t not in tags:
            fail(self.node, '`%s` has kind %s here, the primitive `%s` needs %s' % (name, t, text(self.node).split('\n')[0], ' / '.join(tags)))
        if name == 'params':
            return '(d_params st)' if t == 'FIN' else '(d_raw st)'
        if name in FIELDS:
            return '(%s st)' % FIELDS[name]
        if name in LETS:
            return name + '_'
        return ''

    def struct(self, *names):
        for n in names:
            self.need(n, 'STRUCT')

    def opt(self, name):
        """guard for a read of an option field"""
        return ('opt', '(%s st)' % OPTFIELDS[name], 'XOther', name + '_')


def g_result_x(c):
    return [c.opt('result'), ('opt', '(result_x result_)', 'XOther', 'result_x_')]


GROUPS_IF = K("""
if id_names is None:
    groups = None
else:
    f_iter_temp = f_iter.reset_index()
    groups = [list(f_iter_temp.groupby(col).indices.values()) for col in id_names]
""")

PRIMS = {
    # ---- per unit, before the try
    K('params = f_iter[ff.params].values'):
        lambda c: Prim(lets=[('raw', 'f_iter_values (d_f st) f_iter')], binds={'params': 'RAW'}),
    GROUPS_IF:
        lambda c: Prim(lets=[('groups', 'unit_groups f_iter')], binds={'groups': 'SET'},
                       note='(* primitive: the grouping of the unit (None when id_names is None) *)'),
    K('frame_nos = f_iter[t_column].values'):
        lambda c: Prim(binds={'frame_nos': 'STRUCT'}, note='(* structural: frame numbers of the unit, only handed to prepare_subimages *)'),
    K('norm = float(frames[frame_nos[0]].max()) ** 2 / residual_factor'):
        lambda c: (c.struct('frame_nos'), Prim(binds={'norm': 'STRUCT'}, note='(* structural: reader access, scale of the residual *)'))[1],
    # ---- try body
    K('coords = params[:, 2:2+ndim]'):
        lambda c: Prim(lets=[('coords', 'params_coords (w_ndim W) %s' % c.need('params', 'FIN'))], binds={'coords': 'SET'}),
    K('vect = vect_from_params(params, ff.modes, groups, operation=np.mean)'):
        lambda c: Prim(lets=[('vect', 'vect_from_params_mean %s (w_ff_modes W) %s' % (c.need('params', 'FIN'), c.need('groups', 'SET')))], binds={'vect': 'SET'}),
    K('f_constraints = _wrap_constraints(constraints, params, ff.modes, groups)'):
        lambda c: (c.need('params', 'FIN'), c.need('groups', 'SET'),
                   Prim(binds={'f_constraints': 'STRUCT'}, note='(* structural: constraints are not modelled *)'))[2],
    K('f_bounds = ff.compute_bounds(bounds, params, groups)'):
        lambda c: Prim(lets=[('f_bounds', 'Gen.bounds.compute_bounds (w_ff_modes W) bounds %s %s' % (c.need('params', 'FIN'), c.need('groups', 'SET')))],
                       binds={'f_bounds': 'SET'}),
    # ---- recentring loop
    K('sub_images, meshes, masks = prepare_subimages(coords, groups, frame_nos, frames, radius)'):
        lambda c: (c.struct('frame_nos'), c.need('groups', 'SET'),
                   Prim(guards=[('if', 'negb (w_prepare_subimages W k_ %s %s)' % (c.tr.loopvar(c.node), c.need('coords', 'SET')), 'XRefine')],
                        binds={'sub_images': 'STRUCT', 'meshes': 'STRUCT', 'masks': 'STRUCT'}))[2],
    K('residual, jacobian = ff.get_residual(sub_images, meshes, masks, params, groups, norm)'):
        lambda c: (c.struct('sub_images', 'meshes', 'masks'), c.need('params', 'FIN'), c.need('groups', 'SET'),
                   Prim(binds={'residual': 'STRUCT', 'jacobian': 'STRUCT'},
                        note='(* structural: builds the closures from the current params / sub-images; cannot raise (prologue of get_residual checked) *)'))[3],
    K('result = minimize(residual, vect, bounds=f_bounds, constraints=f_constraints, jac=jacobian, **_kwargs)'):
        lambda c: (c.struct('residual', 'jacobian', 'f_constraints'),
                   Prim(guards=[('if', 'scipy_rejects_bounds %s' % c.need('f_bounds', 'SET'), 'XOther')],
                        lets=[('result', 'Some (w_minimize W k_ %s (fst %s) (snd %s) %s %s %s)'
                               % (c.tr.loopvar(c.node), c.need('f_bounds', 'SET'), c.need('f_bounds', 'SET'), c.need('vect', 'SET'),
                                  c.need('params', 'FIN'), c.need('coords', 'SET')))],
                        binds={'result': 'OPT'}))[1],
    K("rms_dev = np.sqrt(result['fun'] / residual_factor)"):
        lambda c: Prim(guards=[c.opt('result'), ('opt', '(result_rms result_)', 'XOther', 'result_rms_')],
                       lets=[('rms_dev', 'Some result_rms_')], binds={'rms_dev': 'OPT'}),
    K("params = vect_to_params(result['x'], params, ff.modes, groups)"):
        lambda c: Prim(guards=g_result_x(c),
                       lets=[('params', 'vect_to_params result_x_ %s (w_ff_modes W) %s' % (c.need('params', 'FIN'), c.need('groups', 'SET')))],
                       binds={'params': 'FIN'}),
    K('new_coords = params[:, 2:2+ndim]'):
        lambda c: Prim(locals=[('new_coords_', 'params_coords (w_ndim W) %s' % c.need('params', 'FIN'))], binds={'new_coords': 'LET'}),
    K('coords = new_coords'):
        lambda c: Prim(lets=[('coords', c.need('new_coords', 'LET'))], binds={'coords': 'SET'}),
    # ---- compute_error
    K("hessian = Hessian(residual)(result['x'])"):
        lambda c: Prim(guards=g_result_x(c) + [('opt', '(w_hessian W k_ result_x_)', 'XOther', 'hessian_')], binds={'hessian': 'LET'}),
    K('result_std = np.sqrt(2 * np.diag(np.linalg.inv(hessian)))'):
        lambda c: Prim(guards=[('opt', '(w_result_std W %s)' % c.need('hessian', 'LET'), 'XOther', 'result_std_')], binds={'result_std': 'LET'}),
    K('params_std = vect_to_params(result_std, np.empty((len(params), len(modes_std))), modes_std, groups)'):
        lambda c: Prim(guards=[('opt', '(w_params_std W %s %s %s)' % (c.need('result_std', 'LET'), c.need('params', 'FIN'), c.need('groups', 'SET')),
                                'XOther', 'v_')],
                       lets=[('params_std', 'Some v_')], binds={'params_std': 'OPT'}),
    # ---- writes
    K("f['cost'] = np.nan"): lambda c: Prim(lets=[('f', 'setitem_cost (d_f st) NaN')]),
    K("f.loc[f_iter.index, 'cost'] = np.nan"): lambda c: Prim(lets=[('f', 'loc_set_cost (d_f st) (f_iter_index f_iter) NaN')]),
    K('f[cols_std] = np.nan'): lambda c: Prim(lets=[('std', 'd_std st ++ [StdNaNAll]')]),
    K('f[f_iter.index, cols_std] = np.nan'):
        lambda c: Prim(raises='XOther', note='(* NOT a .loc write: the key is a tuple holding an Index -> pandas raises TypeError *)'),
    K('f[ff.params] = params'): lambda c: Prim(lets=[('f', 'setitem_params (d_f st) %s' % c.need('params', 'FIN'))]),
    K("f['cost'] = rms_dev"): lambda c: Prim(guards=[c.opt('rms_dev')], lets=[('f', 'setitem_cost (d_f st) (Fin rms_dev_)')]),
    K('f[cols_std] = params_std'): lambda c: Prim(guards=[c.opt('params_std')], lets=[('std', 'd_std st ++ [StdSetAll params_std_]')]),
    K('f.loc[f_iter.index, ff.params] = params'):
        lambda c: Prim(lets=[('f', 'loc_set_params (d_f st) (f_iter_index f_iter) %s' % c.need('params', 'FIN'))]),
    K("f.loc[f_iter.index, 'cost'] = rms_dev"):
        lambda c: Prim(guards=[c.opt('rms_dev')], lets=[('f', 'loc_set_cost (d_f st) (f_iter_index f_iter) (Fin rms_dev_)')]),
    K('f.loc[f_iter.index, cols_std] = params_std'):
        lambda c: Prim(guards=[c.opt('params_std')], lets=[('std', 'd_std st ++ [StdSetRows (f_iter_index f_iter) params_std_]')]),
}

# conditions: exact text -> (guards, bool term) ; REFINE is special
REFINE = KE('not np.isfinite(params).all()')
CONDS = {
    KE("not result['success']"): lambda c: ([c.opt('result')], 'negb (result_success result_)'),
    KE('np.all(np.sum((new_coords - coords)**2, 1) < max_shift**2)'):
        lambda c: ([], 'np_all_shift_small %s %s (w_max_shift W)' % (c.need('new_coords', 'LET'), c.need('coords', 'SET'))),
    KE('rms_dev > max_rms_dev'): lambda c: ([c.opt('rms_dev')], 'float_gt rms_dev_ (w_max_rms_dev W)'),
    KE('compute_error'): lambda c: ([], 'w_compute_error W'),
    KE("level == 'global'"): lambda c: ([], 'w_level_global W'),
    KE("level != 'global'"): lambda c: ([], 'negb (w_level_global W)'),
}
LOGCONDS = (KE("level == 'global'"), KE("level == 'cluster'"), KE('frame_nos[0] != last_frame'), KE('logging'))
LOG_CALLS = ('format', 'len', 'int', 'str')


def log_expr_ok(e):
    for n in ast.walk(e):
        if isinstance(n, ast.Call):
            f = n.func
            nm = f.attr if isinstance(f, ast.Attribute) else (f.id if isinstance(f, ast.Name) else None)
            if nm not in LOG_CALLS:
                return False
        if isinstance(n, (ast.NamedExpr, ast.Lambda, ast.Await, ast.Yield, ast.YieldFrom, ast.ListComp, ast.GeneratorExp, ast.DictComp, ast.SetComp)):
            return False
    return True


def is_log_stmt(s):
    if isinstance(s, ast.Expr) and isinstance(s.value, ast.Call) and isinstance(s.value.func, ast.Attribute) \
            and is_name(s.value.func.value, 'logger') and s.value.func.attr in ('info', 'debug', 'warn', 'warning', 'error'):
        return all(log_expr_ok(a) for a in s.value.args) and all(log_expr_ok(k.value) for k in s.value.keywords)
    if isinstance(s, ast.Assign) and len(s.targets) == 1 and is_name(s.targets[0]) and s.targets[0].id in LOGVARS:
        return log_expr_ok(s.value)
    if isinstance(s, ast.If) and text(s.test) in LOGCONDS:
        return all(is_log_stmt(x) for x in s.body) and all(is_log_stmt(x) for x in s.orelse)
    return False


def assigned_names(stmts):
    out = []
    for s in stmts:
        for n in ast.walk(s):
            if isinstance(n, (ast.Assign, ast.AugAssign, ast.AnnAssign, ast.For)):
                tg = n.targets if isinstance(n, ast.Assign) else [n.target]
                for t in tg:
                    for m in ast.walk(t):
                        if isinstance(m, ast.Name) and isinstance(m.ctx, ast.Store) and m.id not in out:
                            out.append(m.id)
    return out


def join(a, b):
    """kinds after two paths meet"""
    out = {}
    for n in set(a) | set(b):
        if n in LETS:
            continue
        ta, tb = a.get(n), b.get(n)
        out[n] = ta if ta == tb else ('OPT' if n in OPTFIELDS else 'MAYBE')
    return out


def ind(term, k=1):
    pad = '  ' * k
    return '\n'.join(pad + l if l else l for l in term.split('\n'))


FORBIDDEN = (ast.While, ast.With, ast.Yield, ast.YieldFrom, ast.FunctionDef, ast.AsyncFunctionDef, ast.Global, ast.Nonlocal, ast.Assert,
             ast.NamedExpr, ast.Await, ast.ClassDef, ast.Import, ast.ImportFrom, ast.Delete, ast.Continue, ast.Return, ast.Lambda)

PARAMS = '(W : world) (bounds : arr2 * arr2 * arr2) (k_ : nat) (f_iter : unit_t)'
ARGS = 'W bounds k_ f_iter'


class Tr:
    def __init__(self):
        self.defs = []          # generated definitions, in dependency order
        self.nloop = 0
        self.ntry = 0
        self.loopvars = []      # stack of Coq names of enclosing range loops

    def loopvar(self, node):
        if not self.loopvars:
            fail(node, 'this primitive is indexed by the recentring iteration: it must be inside `for .. in range(max_iter)`')
        return self.loopvars[-1]

    # ---- conditions
    def cond(self, e, env):
        t = text(e)
        if t not in CONDS:
            fail(e, 'unsupported condition `%s`' % t)
        return CONDS[t](Ctx(self, env, e))

    @staticmethod
    def wrap(guards, inner):
        for g in reversed(guards):
            if g[0] == 'if':
                inner = 'if %s then ORaise %s st else\n%s' % (g[1], g[2], inner)
            else:
                inner = 'match %s with None => ORaise %s st | Some %s =>\n%s\nend' % (g[1], g[2], g[3], inner)
        return inner

    # ---- blocks.  -> (term : oc over the state variable st, falls through?, env at the end, pure?)
    def block(self, stmts, env, inloop):
        if not stmts:
            return 'ONormal st', True, env, True
        s, rest = stmts[0], stmts[1:]
        for n in ast.walk(s):
            if isinstance(n, FORBIDDEN):
                fail(n, 'unsupported construct %s' % type(n).__name__)
        t = text(s)

        def dead(term):
            if rest:
                return term + '\n(* unreachable: %d statement(s) after a statement that never falls through *)' % len(rest)
            return term

        if isinstance(s, ast.Expr) and isinstance(s.value, ast.Constant) and isinstance(s.value.value, str):
            return self.block(rest, env, inloop)
        if isinstance(s, ast.Pass):
            return self.block(rest, env, inloop)
        # ---- named primitive (whole statement)
        if t in PRIMS:
            p = PRIMS[t](Ctx(self, env, s))
            if p.raises:
                return dead('%s\n%s\nORaise %s st' % (comment(s), p.note or '', p.raises)), False, env, False
            env2 = dict(env)
            env2.update(p.binds)
            r, falls, eend, rpure = self.block(rest, env2, inloop)
            lines = [comment(s)] + ([p.note] if p.note else [])
            inner = '\n'.join(['let %s := %s in' % (n, v) for n, v in p.locals] +
                              ['let st := %s st (%s) in' % (SETTER[f], v) for f, v in p.lets] + [r])
            pure = rpure and not p.guards and not p.lets and not p.locals
            return '\n'.join(lines) + '\n' + self.wrap(p.guards, inner), falls, eend, pure
        # ---- logging
        if is_log_stmt(s):
            r, falls, eend, rpure = self.block(rest, env, inloop)
            return '(* %d: logging, no effect on the state: %s *)\n%s' % (s.lineno, t.split('\n')[0].replace('(*', '( *').replace('*)', '* )').replace('"', "'")[:90], r), falls, eend, rpure
        # ---- raise RefineException(..)
        if isinstance(s, ast.Raise):
            e = s.exc
            ok = s.cause is None and isinstance(e, ast.Call) and is_name(e.func, 'RefineException') and not e.keywords and len(e.args) <= 1
            if ok and e.args:
                a = e.args[0]
                ok = (isinstance(a, ast.Constant) and isinstance(a.value, str)) or text(a) == KE("result['message']") or \
                     (isinstance(a, ast.Call) and isinstance(a.func, ast.Attribute) and a.func.attr == 'format'
                      and isinstance(a.func.value, ast.Constant) and isinstance(a.func.value.value, str)
                      and all(isinstance(x, (ast.Name, ast.Attribute)) for x in a.args) and not a.keywords)
            if not ok:
                fail(s, 'only `raise RefineException(<message>)` is translated')
            return dead('%s\nORaise XRefine st' % comment(s)), False, env, False
        if isinstance(s, ast.Break):
            if not inloop:
                fail(s, '`break` outside the recentring loop')
            return dead('%s\nOBreak st' % comment(s)), False, env, False
        # ---- if
        if isinstance(s, ast.If):
            tt = text(s.test)
            if tt == REFINE:
                c = Ctx(self, env, s)
                c.need('params', 'RAW')
                a, afalls, _, _ = self.block(s.body, dict(env), inloop)
                if afalls or s.orelse:
                    fail(s, '`if not np.isfinite(params).all():` must end in a raise and have no else')
                env2 = dict(env)
                env2['params'] = 'FIN'
                r, falls, eend, _ = self.block(rest, env2, inloop)
                return ('%s\nmatch np_isfinite_all (d_raw st) with\n| None =>\n%s\n| Some fin_ =>\n  let st := set_params st fin_ in\n%s\nend'
                        % (comment(s), ind(a), ind(r))), falls, eend, False
            guards, c = self.cond(s.test, env)
            a, afalls, aenv, apure = self.block(s.body, dict(env), inloop)
            b, bfalls, benv, bpure = self.block(s.orelse, dict(env), inloop)
            if apure and bpure and not guards:
                r, falls, eend, rpure = self.block(rest, join(aenv, benv), inloop)
                return '(* %d: `if %s` without effect on the state:\n%s\n%s *)\n%s' % (
                    s.lineno, tt, ind(a.replace('(*', '[').replace('*)', ']')), ind(b.replace('(*', '[').replace('*)', ']')), r), falls, eend, rpure
            if not afalls and not s.orelse:
                r, falls, eend, _ = self.block(rest, dict(env), inloop)
                term = '%s\nif %s then\n%s\nelse\n%s' % (comment(s), c, ind(a), r)
                return self.wrap(guards, term), falls, eend, False
            if not afalls and not bfalls:
                return dead(self.wrap(guards, '%s\nif %s then\n%s\nelse\n%s' % (comment(s), c, ind(a), ind(b)))), False, env, False
            if afalls and bfalls:
                jenv = join(aenv, benv)
            else:
                jenv = {n: v for n, v in (aenv if afalls else benv).items() if n not in LETS}
            r, falls, eend, _ = self.block(rest, jenv, inloop)
            term = '%s\nobind (if %s then\n%s\nelse\n%s) (fun st =>\n%s)' % (comment(s), c, ind(a), ind(b), r)
            return self.wrap(guards, term), falls, eend, False
        # ---- for .. in range(max_iter)
        if isinstance(s, ast.For):
            ok = not s.orelse and is_name(s.target) and isinstance(s.iter, ast.Call) and is_name(s.iter.func, 'range') \
                and len(s.iter.args) == 1 and not s.iter.keywords and is_name(s.iter.args[0], 'max_iter')
            if not ok:
                fail(s, 'only `for <name> in range(max_iter):` (no else) is translated')
            if self.loopvars:
                fail(s, 'nested range loops are outside the subset')
            self.nloop += 1
            name = 'refine_leastsq_unit_loop%d' % self.nloop
            lv = 'n_iter_'
            benv = {n: v for n, v in env.items() if n not in ITERVARS and n not in LETS}
            self.loopvars.append(lv)
            body, bfalls, bend, _ = self.block(s.body, benv, True)
            self.loopvars.pop()
            self.defs.append('(* line %d: body of `for %s in range(max_iter):`  (%s = %s) *)\nDefinition %s %s (%s : nat) (st : dstate) : oc :=\n%s.\n'
                             % (s.lineno, s.target.id, lv, s.target.id, name, PARAMS, lv, ind(body)))
            # after the loop: names first assigned in the body may be unbound (zero iterations)
            aenv = {n: v for n, v in env.items() if n not in LETS}
            for n in assigned_names(s.body):
                if n in LETS:
                    continue
                after = bend.get(n)
                if n not in env:
                    if n in OPTFIELDS:
                        aenv[n] = 'OPT'
                    elif after is not None:
                        aenv[n] = 'MAYBE'
                elif env[n] != after:
                    aenv[n] = 'OPT' if n in OPTFIELDS else 'MAYBE'
            r, falls, eend, _ = self.block(rest, aenv, inloop)
            term = '%s\nobind (ofor_range (%s %s) 0 (w_max_iter W) st) (fun st =>\n%s)' % (comment(s), name, ARGS, r)
            return term, falls, eend, False
        # ---- try / except RefineException / else
        if isinstance(s, ast.Try):
            ok = len(s.handlers) == 1 and not s.finalbody and is_name(s.handlers[0].type, 'RefineException')
            if not ok:
                fail(s, 'expected try / except RefineException [as e] / [else], one handler, no finally')
            if self.loopvars:
                fail(s, 'a try statement inside the recentring loop is outside the subset')
            self.ntry += 1
            k = self.ntry
            tb, tfalls, tend, _ = self.block(s.body, dict(env), False)
            changed = assigned_names(s.body)
            henv = {}
            for n, v in env.items():
                if n in LETS:
                    continue
                henv[n] = v if n not in changed else ('OPT' if n in OPTFIELDS else 'MAYBE')
            for n in changed:
                if n not in henv and n not in LETS:
                    henv[n] = 'OPT' if n in OPTFIELDS else 'MAYBE'
            hb, hfalls, hend, _ = self.block(s.handlers[0].body, henv, False)
            oenv = {n: v for n, v in (tend if tfalls else env).items() if n not in LETS}
            ob, ofalls, oend, _ = self.block(s.orelse, oenv, False)
            for nm, what, body in (('try', 'body of `try:`', tb), ('except', '`except RefineException`: the handler, entered in the state AT the raise', hb),
                                   ('else', '`else:` of the try statement', ob)):
                self.defs.append('(* line %d: %s *)\nDefinition refine_leastsq_unit_%s%d %s (st : dstate) : oc :=\n%s.\n'
                                 % (s.lineno, what, nm, k, PARAMS, ind(body)))
            paths = [e for e, fl in ((hend, hfalls), (oend, ofalls and tfalls)) if fl]
            if not paths:
                term = '%s\notry (refine_leastsq_unit_try%d %s st) (refine_leastsq_unit_except%d %s) (refine_leastsq_unit_else%d %s)' % (comment(s), k, ARGS, k, ARGS, k, ARGS)
                return dead(term), False, env, False
            jenv = paths[0] if len(paths) == 1 else join(paths[0], paths[1])
            r, falls, eend, _ = self.block(rest, jenv, inloop)
            term = ('%s\nobind (otry (refine_leastsq_unit_try%d %s st) (refine_leastsq_unit_except%d %s) (refine_leastsq_unit_else%d %s)) (fun st =>\n%s)'
                    % (comment(s), k, ARGS, k, ARGS, k, ARGS, r))
            return term, falls, eend, False
        fail(s, 'unsupported statement `%s`' % t.split('\n')[0])


# ---------------------------------------------------------------------------------------------
# checks outside the translated region
# ---------------------------------------------------------------------------------------------
def check_levels(fn):
    """level / iterable are assigned together, exactly twice"""
    sites = {'level': [], 'iterable': [], 'id_names': []}
    for n in ast.walk(fn):
        if isinstance(n, (ast.Assign, ast.AugAssign, ast.AnnAssign, ast.For, ast.With, ast.NamedExpr)):
            tg = n.targets if isinstance(n, ast.Assign) else ([n.target] if hasattr(n, 'target') else [i.optional_vars for i in n.items if i.optional_vars is not None])
            for t in tg:
                for m in ast.walk(t):
                    if isinstance(m, ast.Name) and m.id in sites:
                        sites[m.id].append(n)
    want = {("'global'", K('iterable = [(None, f)]')), ("'cluster'", K("iterable = f.groupby(['frame', 'cluster'])"))}
    got = set()
    blocks = [b for n in ast.walk(fn) for b in (getattr(n, 'body', None), getattr(n, 'orelse', None)) if isinstance(b, list)]
    for a in sites['level']:
        if not (isinstance(a, ast.Assign) and len(a.targets) == 1 and is_name(a.targets[0], 'level') and isinstance(a.value, ast.Constant)):
            fail(a, 'unexpected assignment to level')
        blk = [b for b in blocks if any(x is a for x in b)]
        its = [x for x in blk[0] if any(x is y for y in sites['iterable'])] if blk else []
        if len(its) != 1:
            fail(a, '`level = ..` is not next to exactly one `iterable = ..`')
        got.add((repr(a.value.value), text(its[0])))
    if got != want or len(sites['level']) != 2 or len(sites['iterable']) != 2:
        fail(fn, "expected exactly: level = 'global' with iterable = [(None, f)], and level = 'cluster' with iterable = f.groupby(['frame', 'cluster'])")


def check_get_residual(fn):
    names = [a.arg for a in fn.args.args]
    if names != ['self', 'images', 'meshes', 'masks', 'params_const', 'groups', 'norm']:
        fail(fn, 'get_residual: unexpected signature %s' % names)
    body = list(fn.body)
    if body and isinstance(body[0], ast.Expr) and isinstance(body[0].value, ast.Constant):
        body = body[1:]
    CL = K("""
if groups is None:
    cl_groups = [np.arange(n)]
else:
    cl_groups = groups[0]
""")
    seen = []
    for s in body:
        t = text(s)
        if isinstance(s, ast.FunctionDef) and s.name in ('residual', 'jacobian') and not s.decorator_list:
            seen.append(s.name)
            continue
        if isinstance(s, ast.Assign) and len(s.targets) == 1 and is_name(s.targets[0]):
            v = s.value
            if isinstance(v, ast.Attribute) and is_name(v.value, 'self'):
                continue
            if isinstance(v, ast.Call) and is_name(v.func, 'len') and len(v.args) == 1 and not v.keywords \
                    and isinstance(v.args[0], ast.Attribute) and is_name(v.args[0].value, 'self'):
                continue
        if t == K('n, n_vars = params_const.shape') or t == CL:
            continue
        if t == K('if not self.has_jacobian:\n    return residual, None') and seen == ['residual']:
            continue
        if t == K('return residual, jacobian') and seen == ['residual', 'jacobian']:
            continue
        fail(s, 'FitFunctions.get_residual: statement `%s` outside the closures is not one of the known exception-free forms '
                '(an exception raised here leaves the call of get_residual and is not a RefineException)' % t.split('\n')[0])
    if seen != ['residual', 'jacobian']:
        fail(fn, 'get_residual: expected the closures residual and jacobian')


def translate(repo):
    path = os.path.join(repo, 'trackpy', 'refine', 'least_squares.py')
    tree = ast.parse(open(path).read())
    funs = {}
    for n in tree.body:
        if isinstance(n, ast.FunctionDef):
            if n.name in funs:
                raise TranslationError('function %s defined twice' % n.name)
            funs[n.name] = n
    classes = {n.name: n for n in tree.body if isinstance(n, ast.ClassDef)}
    if 'refine_leastsq' not in funs:
        raise TranslationError('function refine_leastsq not found')
    if 'FitFunctions' not in classes or 'RefineException' not in classes:
        raise TranslationError('class FitFunctions / RefineException not found')
    rx = classes['RefineException']
    if [text(b) for b in rx.bases] != ['Exception']:
        fail(rx, 'RefineException is expected to derive from Exception directly')
    gr = [n for n in classes['FitFunctions'].body if isinstance(n, ast.FunctionDef) and n.name == 'get_residual']
    if len(gr) != 1 or gr[0].decorator_list:
        raise TranslationError('method FitFunctions.get_residual not found (or defined twice / decorated)')
    check_get_residual(gr[0])
    fn = funs['refine_leastsq']
    if fn.decorator_list:
        # the only decorator accepted: ignore_clip_warnings, checked to be transparent (a warnings filter around the call)
        if [text(d) for d in fn.decorator_list] != ['ignore_clip_warnings'] or 'ignore_clip_warnings' not in funs:
            fail(fn, 'refine_leastsq: unexpected decorators')
        want = K('''
def ignore_clip_warnings(func):

    @functools.wraps(func)
    def wrapper(*args, **kwargs):
        with warnings.catch_warnings():
            warnings.filterwarnings('ignore', '.*outside bounds during a minimize step.*', RuntimeWarning, 'scipy.optimize.*')
            return func(*args, **kwargs)
    return wrapper
''')
        if text(funs['ignore_clip_warnings']) != want:
            fail(funs['ignore_clip_warnings'], 'ignore_clip_warnings is not the known transparent wrapper (warnings filter around func(*args, **kwargs))')
    argn = [a.arg for a in fn.args.args] + [a.arg for a in fn.args.kwonlyargs]
    for need in ('f', 'max_iter', 'max_shift', 'max_rms_dev', 'compute_error', 'bounds', 'residual_factor'):
        if need not in argn:
            fail(fn, 'refine_leastsq has no parameter %s' % need)
    check_levels(fn)
    body = fn.body
    loops = [s for s in body if isinstance(s, ast.For) and is_name(s.iter, 'iterable')]
    if len(loops) != 1:
        fail(fn, 'expected exactly one top-level `for .. in iterable:` in refine_leastsq')
    lp = loops[0]
    ok = not lp.orelse and isinstance(lp.target, ast.Tuple) and len(lp.target.elts) == 2 and is_name(lp.target.elts[0], '_') and is_name(lp.target.elts[1], 'f_iter')
    if not ok:
        fail(lp, 'expected `for _, f_iter in iterable:` without else')
    if body[-2] is not lp or text(body[-1]) != 'return f':
        fail(lp, 'the loop over units must be the last statement before `return f`')
    # nothing else in refine_leastsq may catch RefineException or touch the table after the loop
    for n in ast.walk(fn):
        if isinstance(n, ast.Try) and not any(n is m for m in ast.walk(lp)):
            for h in n.handlers:
                if h.type is None or 'RefineException' in text(h.type) or text(h.type) in ('Exception', 'BaseException'):
                    fail(n, 'a try statement outside the loop over units catches RefineException / everything')
    for n in ast.walk(lp):
        if isinstance(n, ast.Try) and n not in lp.body:
            fail(n, 'the try statement must be a direct child of the loop over units')
    tr = Tr()
    unit, falls, _, _ = tr.block(lp.body, {}, False)
    if tr.ntry != 1 or tr.nloop != 1:
        fail(lp, 'expected exactly one try statement and one recentring loop per unit (found %d, %d)' % (tr.ntry, tr.nloop))
    if not falls:
        fail(lp, 'the body of the loop over units never falls through')
    out = ['(* GENERATED by tools/py2coq_refinedriver.py from trackpy/refine/least_squares.py -- do not edit.',
           '   The driver of refine_leastsq from `for _, f_iter in iterable:` (line %d) to `return f` (line %d), statement by' % (lp.lineno, body[-1].lineno),
           '   statement, as state-passing Gallina over Model/PyRefinedriver.v (vocabulary, meaning of the named primitives,',
           '   conventions).  W = arguments of refine_leastsq and the oracles; bounds = the validated bounds the loop is entered',
           '   with; k_ = number of the unit; f_iter = the unit; st = the Python locals and the table. *)',
           'From Coq Require Import ZArith QArith List Bool Arith.',
           'From TP Require Import Model.RefineBounds Model.RefineDriver Model.PyBounds Gen.bounds Model.PyRefinedriver.',
           'Import ListNotations.',
           'Open Scope Q_scope.',
           '']
    out += tr.defs
    out.append('(* line %d: body of `for _, f_iter in iterable:` *)\nDefinition refine_leastsq_unit %s (st : dstate) : oc :=\n%s.\n' % (lp.lineno, PARAMS, ind(unit)))
    out.append('(* line %d: `for _, f_iter in iterable:` ... line %d: `return f` *)' % (lp.lineno, body[-1].lineno))
    out.append('Definition refine_leastsq_driver (W : world) (bounds : arr2 * arr2 * arr2) (f : tbl) (iterable : list unit_t) : option tbl :=')
    out.append('  fn_return_f (ofor_units (refine_leastsq_unit W bounds) 0 iterable (init_state f)).')
    out.append('')
    return '\n'.join(out)


def main():
    ap = argparse.ArgumentParser()
    ap.add_argument('--repo', default=os.environ.get('TRACKPY_REPO', '/repo'))
    ap.add_argument('--out', default=os.path.join(os.path.dirname(os.path.dirname(os.path.abspath(__file__))), 'coq', 'Gen', 'refinedriver.v'))
    ap.add_argument('--stdout', action='store_true')
    a = ap.parse_args()
    try:
        txt = translate(a.repo)
    except TranslationError as e:
        sys.stderr.write('py2coq_refinedriver: TRANSLATION ERROR: %s\n' % e)
        sys.exit(2)
    if a.stdout:
        sys.stdout.write(txt)
        return
    old = open(a.out).read() if os.path.exists(a.out) else None
    if old != txt:
        os.makedirs(os.path.dirname(a.out), exist_ok=True)
        tmp = a.out + '.tmp%d' % os.getpid()
        with open(tmp, 'w') as f:
            f.write(txt)
        os.replace(tmp, a.out)
        print('py2coq_refinedriver: wrote %s (changed)' % a.out)
    else:
        print('py2coq_refinedriver: %s up to date' % a.out)


if __name__ == '__main__':
    main()
