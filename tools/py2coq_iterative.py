#!/usr/bin/env python3
"""Fail-closed translator (route T) for the explicit-stack subnet solver of C02 / C03.

Reads, with the Python `ast` module, the CURRENT source text of

    nonrecursive_link        $TRACKPY_REPO/trackpy/linking/subnetlinker.py

(default repo /repo) and regenerates  /verif/coq/Gen/iterative.v :

    py_nonrecursive_link   the whole def, statement by statement: the copy + stable sort of the
                           sources, the size check, the initial stacks, the `while j >= 0` loop
                           and the returned pair (source_list, best_back)

The embedding is the one of tools/py2coq_linker.py (shallow, state passing; vocabulary and its
meaning: coq/Model/PyIterative.v on top of coq/Model/PyLinker.v).  Every statement becomes a term
of type `outcome nrl nr_result` (Normal / Continue / Break / Return v / Raise); `s1; s2` is
`bind s1 (fun st => s2)` (written `let st := ... in` when s1 cannot fail or jump);
`while c: body` is `while_loop fuel (fun st => c) (fun st => body) st` - recursion on the explicit
fuel argument of the generated function, one unit per iteration, `Raise OutOfFuel` at 0; the def
body is closed by `fn_end_v`.

Locals.  The locals listed in STATE (with their types) are the fields nr_<name> of the record
`nrl`; they may be re-assigned anywhere.  A STATE local must be assigned at the top level of the
def before it is read or assigned in a nested block (before that, a name that is also an argument
denotes the argument: `source_list = list(source_list)`).  Every other local is a Coq `let`: it
may be assigned once per block, is visible only in the rest of that block (so a value can never
flow out of a branch or from one loop iteration into the next), and reading it anywhere else is an
error.  Locals in IGNORED are write-only: the assignment is dropped and any read is an error.

Translated subset (ANYTHING else: exit status 2, nothing written):

  statements   x = e;  a, b = l[i][k] on the candidate lists (b may only be used as b**2);
               x += e / x -= e on an integer STATE local;  d[i] += e on a STATE deque of ints;
               if / elif / else;  one `while` loop (not nested), `while 1` included;
               continue / break (inside the while);  return e1, e2;  pass;  docstrings;
               raise E(...) for E in EXNS;  d.append(e), d.pop() (value discarded) on a STATE
               deque;  l.sort(key=lambda x: len(x.forward_cands)) on the STATE source list
  expressions  names, int literals (also negative), None, np.inf, x.forward_cands, + and - on
               ints, dist**2, < > <= >= == != on ints (against best_sum: gt_inf / lt_inf / ge_inf /
               le_inf), `is None`, `is not None`, `x in d` on a deque of destinations, and / or /
               not, len(), list(), deque([...]), [e for x in l] (-> map), l[i] with Python's
               negative-index wrap (guarded: IndexError), the pair of a return
  types        STATE (locals), SIGS (arguments: a changed argument list is an error)

Conventions (all visible in the generated text, explained in Model/PyIterative.v):
  * every Python int is a Z; len() is py_len; l[i] is py_index (negative indices wrap);
  * partial operations are guarded, in evaluation order, before the statement takes effect:
    `match <lookup> with None => Raise IndexError | Some v => ... end`;
  * cur_d may be None: an option; `cur_d is not None and cur_d in cur_back` becomes a match that
    binds the non-None value where it is known;
  * `cur_d, cur_dist = cand_list_list[j][k]`: cur_dist may only occur as cur_dist**2, rendered as
    the integer cost component of the candidate (partial sums exact; float rounding not modelled);
  * deques and lists are Coq lists (right end = end of the list);
  * the sort key len(x.forward_cands) is rendered as the nat `length (forward_cands x)`.

Usage:  py2coq_iterative.py [--repo /repo] [--out /verif/coq/Gen/iterative.v] [--stdout]
"""
import ast, sys, os, argparse

sys.path.insert(0, os.path.dirname(os.path.abspath(__file__)))
from py2coq_linker import TranslationError, fail, comment, Guards, is_np, is_none_const, find_function  # noqa: E402

# ---- types -----------------------------------------------------------------
Z, ZINF, BOOL, SRC, CAND, OPTDEST, DEST, DIST, IGN = 'Z', 'zinf', 'bool', 'spoint', 'cand', 'option dest', 'dest', 'dist', 'ignored'


def LIST(t):
    return ('list', t)


def DEQUE(t):
    return ('deque', t)


def OPT(t):
    return ('option', t)


def is_seq(t):
    return isinstance(t, tuple) and t[0] in ('list', 'deque')


def coqty(t):
    if isinstance(t, tuple):
        return '(%s %s)' % ('option' if t[0] == 'option' else 'list', coqty(t[1]))
    return {Z: 'Z', SRC: 'spoint', CAND: 'cand', OPTDEST: '(option nat)', DEST: 'nat', BOOL: 'bool', ZINF: 'zinf'}[t]


def tyname(t):
    return '%s of %s' % (t[0], tyname(t[1])) if isinstance(t, tuple) else t


STATE = {'source_list': LIST(SRC), 'MAX': Z, 'k_stack': DEQUE(Z), 'j': Z, 'cur_back': DEQUE(OPTDEST),
         'cur_sum_stack': DEQUE(Z), 'best_sum': ZINF, 'best_back': OPT(LIST(OPTDEST)),
         'cand_list_list': LIST(LIST(CAND)), 'cand_lens': LIST(Z)}
IGNORED = {'max_links'}
EXNS = ['IndexError', 'SubnetOversizeException']
SIGS = {'nonrecursive_link': [('source_list', LIST(SRC)), ('dest_size', IGN), ('search_range', IGN), ('max_size', Z), ('diag', IGN)]}
RETURNS = {'nonrecursive_link': (LIST(SRC), OPT(LIST(OPTDEST)))}
RESERVED = set('''st it fuel fuel' bind while_loop fn_end_v Normal Continue Break Return Raise Done Fail fst snd Some None true false
 if then else match with end let in fun fix forall exists nat Z list option length nth_error negb andb orb map
 cand spoint nrl blank_nrl nr_result forward_cands gt_inf lt_inf ge_inf le_inf deque_append deque_pop deque_in sort_key
 py_len py_list py_index py_set_index py_pos opt_eqb py_nonrecursive_link'''.split()) | set('nr_' + f for f in STATE) | set('set_nr_' + f for f in STATE)


class Fn:
    def __init__(self, node, kind):
        self.f = node
        self.kind = kind
        self.assigned = set()                # STATE locals assigned so far at the top level
        self.depth = 0
        self.loops = 0
        self.whiles = 0
        self.n = 0
        self.used = set()
        self.args = {}

    # ---- names
    def fresh(self, base):
        self.n += 1
        return '%s%d' % (base, self.n)

    def refname(self, name):
        k = 0
        while True:
            c = name + '_v' + (str(k) if k else '')
            if c not in self.used and c not in RESERVED:
                self.used.add(c)
                return c
            k += 1

    def newlocal(self, node, name, env, suffix=''):
        c = name + suffix
        if name in env:
            fail(node, 'local %s is assigned twice in one block (re-assignment of a let-local is outside the subset; '
                       'only the locals of table STATE may be re-assigned)' % name)
        if name in self.args:
            fail(node, 'argument %s is re-assigned but is not a STATE local' % name)
        k = 0
        while (c + (str(k) if k else '')) in self.used:
            k += 1
        c = c + (str(k) if k else '')
        if c in RESERVED or not name.isidentifier() or name.startswith('_'):
            fail(node, 'local name %s cannot be used' % name)
        self.used.add(c)
        return c

    def lookup(self, node, name, env):
        if name in IGNORED:
            fail(node, 'local %s is not modelled (write-only) and may not be read' % name)
        if name in STATE:
            if name in self.assigned:
                return '(nr_%s st)' % name, STATE[name]
            if name in self.args and self.depth == 0:
                c, t = self.args[name]
                if t == IGN:
                    fail(node, 'argument %s is not modelled and may not be read' % name)
                return c, t
            fail(node, 'local %s read before the top level of the def has assigned it' % name)
        if name in env:
            c, t = env[name]
            if t == DIST:
                fail(node, '%s may only be used as %s**2' % (name, name))
            return c, t
        if name in self.args:
            c, t = self.args[name]
            if t == IGN:
                fail(node, 'argument %s is not modelled and may not be read' % name)
            return c, t
        fail(node, 'unknown name %s (a let-local is visible only in the rest of the block that assigns it)' % name)

    # ---- expressions
    def nog(self, g, node):
        if g is None:
            fail(node, 'partial operation (indexing) inside a condition / operand where it is not supported')
        return g

    def int_const(self, e):
        if isinstance(e, ast.Constant) and isinstance(e.value, int) and not isinstance(e.value, bool):
            return e.value
        if isinstance(e, ast.UnaryOp) and isinstance(e.op, ast.USub) and isinstance(e.operand, ast.Constant) \
                and isinstance(e.operand.value, int) and not isinstance(e.operand.value, bool):
            return -e.operand.value
        return None

    def expr(self, e, env, g, expect=None):
        ic = self.int_const(e)
        if ic is not None:
            if expect not in (None, Z, ZINF):
                fail(e, 'integer literal where a %s is expected' % tyname(expect))
            return ('%d%%Z' % ic if ic >= 0 else '(%d)%%Z' % ic), Z
        if isinstance(e, ast.Constant):
            if e.value is None:
                if isinstance(expect, tuple) and expect[0] == 'option':
                    return 'None', expect
                if expect == OPTDEST:
                    return 'None', OPTDEST
                fail(e, 'None where a value of type %s is expected' % tyname(expect))
            fail(e, 'unsupported constant %r' % (e.value,))
        if isinstance(e, ast.Name):
            return self.lookup(e, e.id, env)
        if isinstance(e, ast.Attribute):
            if is_np(e, 'inf'):
                return 'None', ZINF
            c, t = self.expr(e.value, env, g)
            if t == SRC and e.attr == 'forward_cands':
                return '(forward_cands %s)' % c, LIST(CAND)
            fail(e, 'unsupported attribute .%s of a %s' % (e.attr, tyname(t)))
        if isinstance(e, ast.BinOp):
            if isinstance(e.op, ast.Pow):
                if isinstance(e.left, ast.Name) and e.left.id in env and env[e.left.id][1] == DIST and self.int_const(e.right) == 2:
                    return env[e.left.id][0], Z
                fail(e, 'unsupported power (only <dist>**2)')
            if isinstance(e.op, (ast.Add, ast.Sub)):
                l, t = self.expr(e.left, env, g, Z)
                r, t2 = self.expr(e.right, env, g, Z)
                if (t, t2) != (Z, Z):
                    fail(e, 'arithmetic on %s and %s' % (tyname(t), tyname(t2)))
                return '(%s %s %s)%%Z' % (l, '+' if isinstance(e.op, ast.Add) else '-', r), Z
            fail(e, 'unsupported binary operator %s' % type(e.op).__name__)
        if isinstance(e, ast.UnaryOp) and isinstance(e.op, ast.Not):
            c, t = self.expr(e.operand, env, None)
            if t != BOOL:
                fail(e, 'not on a %s' % tyname(t))
            return '(negb %s)' % c, BOOL
        if isinstance(e, ast.BoolOp):
            return self.boolop(e, list(e.values), env)
        if isinstance(e, ast.Compare):
            return self.compare(e, env, g)
        if isinstance(e, ast.Call):
            if e.keywords or not isinstance(e.func, ast.Name):
                fail(e, 'unsupported call')
            fn = e.func.id
            if fn == 'len' and len(e.args) == 1:
                c, t = self.expr(e.args[0], env, g)
                if not is_seq(t):
                    fail(e, 'len of a %s' % tyname(t))
                return '(py_len %s)' % c, Z
            if fn == 'list' and len(e.args) == 1:
                c, t = self.expr(e.args[0], env, g)
                if not is_seq(t):
                    fail(e, 'list() of a %s' % tyname(t))
                return '(py_list %s)' % c, LIST(t[1])
            if fn == 'deque' and len(e.args) == 1 and isinstance(e.args[0], ast.List):
                if not (isinstance(expect, tuple) and expect[0] == 'deque'):
                    fail(e, 'deque([...]) whose element type cannot be determined')
                elts = []
                for x in e.args[0].elts:
                    c, t = self.expr(x, env, g, expect[1])
                    if t != expect[1]:
                        fail(x, 'deque element of type %s where %s is expected' % (tyname(t), tyname(expect[1])))
                    elts.append(c)
                return '[%s]' % '; '.join(elts), expect
            fail(e, 'unsupported call %s(...)' % fn)
        if isinstance(e, ast.ListComp):
            if len(e.generators) == 1:
                ge = e.generators[0]
                if not ge.ifs and not ge.is_async and isinstance(ge.target, ast.Name):
                    c, t = self.expr(ge.iter, env, g)
                    if is_seq(t) and not isinstance(t[1], tuple) or is_seq(t) and t[1][0] == 'list':
                        x = ge.target.id
                        lenv = dict(env)
                        xn = self.newlocal(ge.target, x, env)
                        lenv[x] = (xn, t[1])
                        if x in STATE or x in IGNORED:
                            fail(ge.target, 'comprehension variable %s shadows a STATE local' % x)
                        b, tb = self.expr(e.elt, lenv, None)
                        if tb in (DIST, IGN, BOOL):
                            fail(e, 'comprehension element of type %s' % tyname(tb))
                        return '(map (fun %s : %s => %s) %s)' % (xn, coqty(t[1]), b, c), LIST(tb)
            fail(e, 'unsupported list comprehension (only [e for x in <list>])')
        if isinstance(e, ast.Subscript):
            c, t = self.expr(e.value, env, g)
            if not is_seq(t):
                fail(e, 'subscript of a %s' % tyname(t))
            i, ti = self.expr(e.slice, env, g, Z)
            if ti != Z:
                fail(e, 'index of type %s' % tyname(ti))
            v = self.fresh('x')
            self.nog(g, e).add('py_index %s %s' % (c, i), 'IndexError', v)
            return v, t[1]
        fail(e, 'unsupported expression %s' % type(e).__name__)

    def none_test(self, e, env):
        if isinstance(e, ast.Compare) and len(e.ops) == 1 and isinstance(e.ops[0], (ast.Is, ast.IsNot)) \
                and is_none_const(e.comparators[0]) and isinstance(e.left, ast.Name) and e.left.id in env \
                and e.left.id not in STATE and env[e.left.id][1] == OPTDEST:
            return e.left.id, isinstance(e.ops[0], ast.IsNot)
        return None

    def boolop(self, node, vals, env):
        if len(vals) == 1:
            c, t = self.expr(vals[0], env, None)
            if t != BOOL:
                fail(node, 'boolean operator on a %s' % tyname(t))
            return c, BOOL
        nt = self.none_test(vals[0], env)
        if isinstance(node.op, ast.And) and nt and nt[1]:
            c, t = env[nt[0]]
            v = self.refname(nt[0])
            env2 = dict(env)
            env2[nt[0]] = (v, DEST)
            r, _ = self.boolop(node, vals[1:], env2)
            return '(match %s with Some %s => %s | None => false end)' % (c, v, r), BOOL
        a, t = self.expr(vals[0], env, None)
        if t != BOOL:
            fail(node, 'boolean operator on a %s' % tyname(t))
        r, _ = self.boolop(node, vals[1:], env)
        if isinstance(node.op, ast.And):
            return '(andb %s %s)' % (a, r), BOOL
        if isinstance(node.op, ast.Or):
            return '(orb %s %s)' % (a, r), BOOL
        fail(node, 'unsupported boolean operator')

    def compare(self, e, env, g=None):
        if len(e.ops) != 1:
            fail(e, 'chained comparison')
        op, lhs, rhs = e.ops[0], e.left, e.comparators[0]
        if isinstance(op, (ast.Is, ast.IsNot)):
            nt = self.none_test(e, env)
            if not nt:
                fail(e, '`is` is only supported as <optional let-local> is [not] None')
            c = env[nt[0]][0]
            return ('(negb (is_none %s))' % c if nt[1] else '(is_none %s)' % c), BOOL
        if isinstance(op, (ast.In, ast.NotIn)):
            a, ta = self.expr(lhs, env, None)
            b, tb = self.expr(rhs, env, None)
            if tb != DEQUE(OPTDEST) or ta not in (DEST, OPTDEST):
                fail(e, '`in` between %s and %s' % (tyname(ta), tyname(tb)))
            a = '(Some %s)' % a if ta == DEST else a
            c = '(deque_in %s %s)' % (a, b)
            return (c if isinstance(op, ast.In) else '(negb %s)' % c), BOOL
        a, ta = self.expr(lhs, env, g, Z)
        b, tb = self.expr(rhs, env, g, Z)
        if (ta, tb) == (Z, ZINF):
            tab = {ast.Gt: 'gt_inf', ast.Lt: 'lt_inf', ast.GtE: 'ge_inf', ast.LtE: 'le_inf'}
            for k, s in tab.items():
                if isinstance(op, k):
                    return '(%s %s %s)' % (s, a, b), BOOL
            fail(e, 'only < > <= >= are supported against best_sum')
        if (ta, tb) == (Z, Z):
            tab = {ast.Lt: '(Z.ltb %s %s)' % (a, b), ast.Gt: '(Z.ltb %s %s)' % (b, a),
                   ast.LtE: '(Z.leb %s %s)' % (a, b), ast.GtE: '(Z.leb %s %s)' % (b, a),
                   ast.Eq: '(Z.eqb %s %s)' % (a, b), ast.NotEq: '(negb (Z.eqb %s %s))' % (a, b)}
            for k, s in tab.items():
                if isinstance(op, k):
                    return s, BOOL
            fail(e, 'unsupported comparison')
        fail(e, 'unsupported comparison between %s and %s' % (tyname(ta), tyname(tb)))

    # ---- statements
    def then_pure(self, newstate, rest, env, ind):
        if not rest:
            return 'Normal (%s)' % newstate
        return 'let st := %s in\n%s%s' % (newstate, ind, self.block(rest, env, ind))

    def then_gen(self, oc, rest, env, ind):
        if not rest:
            return oc
        return 'bind (%s) (fun st =>\n%s%s)' % (oc, ind, self.block(rest, env, ind))

    def sub(self, stmts, env, ind, loop=False):
        self.depth += 1
        self.loops += 1 if loop else 0
        r = self.block(stmts, dict(env), ind)
        self.loops -= 1 if loop else 0
        self.depth -= 1
        return r

    def block(self, stmts, env, ind):
        if not stmts:
            return 'Normal st'
        s, rest = stmts[0], stmts[1:]
        env = dict(env)
        return comment(s) + '\n' + ind + self.stmt(s, rest, env, ind)

    def assign_state(self, s, name, c, ty, g, rest, env, ind):
        want = STATE[name]
        if ty != want:
            if (ty, want) == (Z, ZINF) or (isinstance(want, tuple) and want[0] == 'option' and ty == want[1]):
                c = '(Some %s)' % c
            else:
                fail(s, 'value of type %s assigned to %s : %s' % (tyname(ty), name, tyname(want)))
        if self.depth == 0:
            self.assigned.add(name)
        elif name not in self.assigned:
            fail(s, 'STATE local %s assigned in a nested block before the top level of the def has assigned it' % name)
        return g.wrap(self.then_pure('set_nr_%s st %s' % (name, c), rest, env, ind), ind)

    def stmt(self, s, rest, env, ind):
        g = Guards()
        i2 = ind + '  '
        if isinstance(s, ast.Expr) and isinstance(s.value, ast.Constant) and isinstance(s.value.value, str):
            return self.block(rest, env, ind)
        if isinstance(s, ast.Pass):
            return self.block(rest, env, ind)
        if isinstance(s, ast.Return):
            want = RETURNS[self.kind]
            if not (isinstance(s.value, ast.Tuple) and len(s.value.elts) == len(want)):
                fail(s, 'return must be a %d-tuple' % len(want))
            if rest:
                fail(rest[0], 'statement after return')
            cs = []
            for x, w in zip(s.value.elts, want):
                c, t = self.expr(x, env, g, w)
                if t != w:
                    fail(x, 'returned component of type %s where %s is expected' % (tyname(t), tyname(w)))
                cs.append(c)
            return g.wrap('Return (%s)' % ', '.join(cs), ind)
        if isinstance(s, (ast.Continue, ast.Break)):
            if not self.loops:
                fail(s, 'continue / break outside a loop')
            if rest:
                fail(rest[0], 'statement after continue / break')
            return ('Continue st' if isinstance(s, ast.Continue) else 'Break st')
        if isinstance(s, ast.Raise):
            if s.cause is not None or not (isinstance(s.exc, ast.Call) and isinstance(s.exc.func, ast.Name) and s.exc.func.id in EXNS
                                           and not s.exc.keywords):
                fail(s, 'unsupported raise')
            for a in s.exc.args:
                if isinstance(a, ast.Constant) and isinstance(a.value, str):
                    continue
                if isinstance(a, ast.BinOp) and isinstance(a.op, ast.Mod) and isinstance(a.left, ast.Constant) and isinstance(a.left.value, str):
                    self.expr(a.right, env, None)
                    continue
                fail(a, 'unsupported exception argument')
            if rest:
                fail(rest[0], 'statement after raise')
            return 'Raise %s' % s.exc.func.id
        if isinstance(s, ast.Assign):
            if len(s.targets) != 1:
                fail(s, 'multiple assignment targets')
            t = s.targets[0]
            if isinstance(t, ast.Name):
                if t.id in IGNORED:
                    return '(* not modelled: write-only local *)\n' + ind + self.block(rest, env, ind)
                if t.id in STATE:
                    c, ty = self.expr(s.value, env, g, STATE[t.id])
                    return self.assign_state(s, t.id, c, ty, g, rest, env, ind)
                c, ty = self.expr(s.value, env, g)
                if ty in (IGN, DIST):
                    fail(s, 'a local may not hold a %s' % tyname(ty))
                nm = self.newlocal(t, t.id, env)
                env[t.id] = (nm, ty)
                return g.wrap('let %s := %s in\n%s%s' % (nm, c, ind, self.block(rest, env, ind)), ind)
            if isinstance(t, ast.Tuple) and len(t.elts) == 2 and all(isinstance(x, ast.Name) for x in t.elts) \
                    and t.elts[0].id != t.elts[1].id:
                c, ty = self.expr(s.value, env, g)
                if ty != CAND:
                    fail(s, 'unpacking a %s (only a candidate (dest, dist))' % tyname(ty))
                for x in t.elts:
                    if x.id in STATE or x.id in IGNORED:
                        fail(s, 'unpacking into the STATE local %s' % x.id)
                a = self.newlocal(t.elts[0], t.elts[0].id, env)
                env[t.elts[0].id] = (a, OPTDEST)
                b = self.newlocal(t.elts[1], t.elts[1].id, env, '_sq')
                env[t.elts[1].id] = (b, DIST)
                return g.wrap('let %s := fst %s in let %s := snd %s in\n%s%s' % (a, c, b, c, ind, self.block(rest, env, ind)), ind)
            fail(s, 'unsupported assignment target')
        if isinstance(s, ast.AugAssign):
            if not isinstance(s.op, (ast.Add, ast.Sub)):
                fail(s, 'unsupported augmented assignment operator')
            o = '+' if isinstance(s.op, ast.Add) else '-'
            t = s.target
            if isinstance(t, ast.Name) and t.id in STATE and STATE[t.id] == Z:
                cur, _ = self.lookup(t, t.id, env)
                if t.id not in self.assigned:
                    fail(s, 'augmented assignment to %s before it is assigned' % t.id)
                c, ty = self.expr(s.value, env, g, Z)
                if ty != Z:
                    fail(s, 'augmented assignment of a %s' % tyname(ty))
                return g.wrap(self.then_pure('set_nr_%s st (%s %s %s)%%Z' % (t.id, cur, o, c), rest, env, ind), ind)
            if isinstance(t, ast.Subscript) and isinstance(t.value, ast.Name) and t.value.id in STATE and STATE[t.value.id] in (DEQUE(Z), LIST(Z)):
                f = t.value.id
                fc, _ = self.lookup(t, f, env)
                if f not in self.assigned:
                    fail(s, '%s subscripted before it is assigned' % f)
                i, ti = self.expr(t.slice, env, g, Z)
                if ti != Z:
                    fail(s, 'index of type %s' % tyname(ti))
                old = self.fresh('x')
                g.add('py_index %s %s' % (fc, i), 'IndexError', old)
                c, ty = self.expr(s.value, env, g, Z)
                if ty != Z:
                    fail(s, 'augmented assignment of a %s' % tyname(ty))
                new = self.fresh('d')
                g.add('py_set_index %s %s (%s %s %s)%%Z' % (fc, i, old, o, c), 'IndexError', new)
                return g.wrap(self.then_pure('set_nr_%s st %s' % (f, new), rest, env, ind), ind)
            fail(s, 'unsupported augmented assignment')
        if isinstance(s, ast.If):
            nt = self.none_test(s.test, env)
            if nt:
                c, ty = env[nt[0]]
                v = self.refname(nt[0])
                envk = dict(env)
                envk[nt[0]] = (v, DEST)
                known, unknown = (s.body, s.orelse) if nt[1] else (s.orelse, s.body)
                a = self.sub(known, envk, i2)
                b = self.sub(unknown, env, i2)
                oc = 'match %s with\n%s| Some %s =>\n%s%s\n%s| None =>\n%s%s\n%send' % (c, ind, v, i2, a, ind, i2, b, ind)
            else:
                c, ty = self.expr(s.test, env, g)
                if ty != BOOL:
                    fail(s, 'condition of type %s' % tyname(ty))
                a = self.sub(s.body, env, i2)
                b = self.sub(s.orelse, env, i2)
                oc = 'if %s\n%sthen\n%s%s\n%selse\n%s%s' % (c, ind, i2, a, ind, i2, b)
            return g.wrap(self.then_gen(oc, rest, env, ind), ind)
        if isinstance(s, ast.While):
            if s.orelse:
                fail(s, 'while ... else')
            if self.whiles or self.depth:
                fail(s, 'only one while loop, at the top level of the def, is supported')
            self.whiles += 1
            if self.int_const(s.test) == 1 or (isinstance(s.test, ast.Constant) and s.test.value is True):
                c = 'true'
            else:
                c, ty = self.expr(s.test, env, None)
                if ty != BOOL:
                    fail(s, 'loop condition of type %s' % tyname(ty))
            body = self.sub(s.body, env, i2, loop=True)
            oc = 'while_loop fuel (fun st : nrl => %s) (fun st : nrl =>\n%s%s)\n%sst' % (c, i2, body, ind)
            return self.then_gen(oc, rest, env, ind)
        if isinstance(s, ast.Expr) and isinstance(s.value, ast.Call) and isinstance(s.value.func, ast.Attribute):
            return self.method_call(s, s.value, rest, env, g, ind)
        fail(s, 'unsupported statement %s' % type(s).__name__)

    def method_call(self, s, call, rest, env, g, ind):
        recv, meth = call.func.value, call.func.attr
        if not (isinstance(recv, ast.Name) and recv.id in STATE):
            fail(s, 'method call on something that is not a STATE local')
        f = recv.id
        fc, ft = self.lookup(recv, f, env)
        if f not in self.assigned:
            fail(s, 'method call on %s before it is assigned' % f)
        if ft == LIST(SRC) and meth == 'sort':
            if call.args or len(call.keywords) != 1 or call.keywords[0].arg != 'key':
                fail(s, 'unsupported sort arguments')
            lam = call.keywords[0].value
            if not (isinstance(lam, ast.Lambda) and len(lam.args.args) == 1 and not lam.args.vararg and not lam.args.kwarg
                    and not lam.args.kwonlyargs and not lam.args.defaults and not getattr(lam.args, 'posonlyargs', [])):
                fail(s, 'unsupported sort key')
            x = lam.args.args[0].arg
            if x in STATE or x in IGNORED:
                fail(lam, 'lambda variable %s shadows a STATE local' % x)
            xn = self.newlocal(lam, x, env)
            lenv = dict(env)
            lenv[x] = (xn, SRC)
            b = lam.body
            if not (isinstance(b, ast.Call) and isinstance(b.func, ast.Name) and b.func.id == 'len' and len(b.args) == 1 and not b.keywords):
                fail(s, 'sort key must be len(<list>)')
            kc, kt = self.expr(b.args[0], lenv, None)
            if not is_seq(kt):
                fail(s, 'sort key len() of a %s' % tyname(kt))
            return self.then_pure('set_nr_%s st (sort_key (fun %s : spoint => (length %s)) %s)' % (f, xn, kc, fc), rest, env, ind)
        if call.keywords:
            fail(s, 'unsupported keyword arguments')
        if isinstance(ft, tuple) and ft[0] == 'deque' and meth == 'append' and len(call.args) == 1:
            a, ta = self.expr(call.args[0], env, g, ft[1])
            if ta != ft[1]:
                fail(s, 'append of a %s to a %s' % (tyname(ta), tyname(ft)))
            return g.wrap(self.then_pure('set_nr_%s st (deque_append %s %s)' % (f, fc, a), rest, env, ind), ind)
        if isinstance(ft, tuple) and ft[0] == 'deque' and meth == 'pop' and not call.args:
            v = self.fresh('d')
            g.add('deque_pop %s' % fc, 'IndexError', v)
            return g.wrap(self.then_pure('set_nr_%s st %s' % (f, v), rest, env, ind), ind)
        fail(s, 'unsupported method .%s on %s' % (meth, f))

    # ---- whole function
    def check_sig(self):
        a = self.f.args
        if a.vararg or a.kwarg or a.kwonlyargs or getattr(a, 'posonlyargs', []):
            fail(self.f, 'unsupported signature')
        names = [x.arg for x in a.args]
        want = SIGS[self.kind]
        if names != [n for n, _ in want]:
            fail(self.f, '%s: expected arguments (%s), found (%s)' % (self.f.name, ', '.join(n for n, _ in want), ', '.join(names)))
        for d in a.defaults:
            if not isinstance(d, ast.Constant):
                fail(d, 'unsupported default value')
        if self.f.decorator_list:
            fail(self.f, 'decorated function')
        return want

    def translate(self):
        want = self.check_sig()
        binders = []
        for n, t in want:
            cn = n + '_'
            self.args[n] = (cn, t)
            self.used.add(cn)
            if t != IGN:
                binders.append('(%s : %s)' % (cn, coqty(t).strip('()') if not isinstance(t, tuple) else coqty(t)[1:-1]))
        for n in ast.walk(self.f):
            if isinstance(n, (ast.For, ast.Try, ast.With, ast.Yield, ast.YieldFrom, ast.FunctionDef, ast.AsyncFunctionDef, ast.Global,
                              ast.Nonlocal, ast.Assert, ast.NamedExpr, ast.Await, ast.ClassDef, ast.Import, ast.ImportFrom, ast.Delete)) \
                    and n is not self.f:
                fail(n, 'unsupported construct %s' % type(n).__name__)
        body = self.block(list(self.f.body), {}, '      ')
        missing = [f for f in STATE if f not in self.assigned]
        if missing:
            fail(self.f, '%s does not assign %s at its top level' % (self.f.name, ', '.join(missing)))
        hdr = '(* ===== %s (line %d) ===== *)\n' % (self.f.name, self.f.lineno)
        return hdr + ('Definition py_%s (fuel : nat) %s : fresult (option nr_result) :=\n  let st := blank_nrl in\n'
                      '    fn_end_v (\n      %s).\n' % (self.f.name, ' '.join(binders), body))


def translate(repo):
    p1 = os.path.join(repo, 'trackpy', 'linking', 'subnetlinker.py')
    t1 = ast.parse(open(p1).read())
    out = ['(* GENERATED by tools/py2coq_iterative.py from trackpy/linking/subnetlinker.py (nonrecursive_link)',
           '   -- do not edit.  Statement by statement, state passing; the numbered comments are the Python',
           '   statements.  Vocabulary and its meaning: Model/PyIterative.v (and Model/PyLinker.v); subset and',
           '   conventions: the translator. *)',
           'From Coq Require Import ZArith List Bool Arith.',
           'From TP Require Import Model.Assign Model.Link Model.PyLinker Model.PyIterative.',
           'Import ListNotations.',
           '']
    out.append(Fn(find_function(t1, 'nonrecursive_link'), 'nonrecursive_link').translate())
    return '\n'.join(out)


def main():
    ap = argparse.ArgumentParser()
    ap.add_argument('--repo', default=os.environ.get('TRACKPY_REPO', '/repo'))
    ap.add_argument('--out', default=os.path.join(os.path.dirname(os.path.dirname(os.path.abspath(__file__))), 'coq', 'Gen', 'iterative.v'))
    ap.add_argument('--stdout', action='store_true')
    a = ap.parse_args()
    try:
        text = translate(a.repo)
    except TranslationError as e:
        sys.stderr.write('py2coq_iterative: TRANSLATION ERROR: %s\n' % e)
        sys.exit(2)
    except (OSError, SyntaxError) as e:
        sys.stderr.write('py2coq_iterative: TRANSLATION ERROR: cannot read / parse the source: %s\n' % e)
        sys.exit(2)
    if a.stdout:
        sys.stdout.write(text)
        return
    old = open(a.out).read() if os.path.exists(a.out) else None
    if old != text:
        os.makedirs(os.path.dirname(a.out), exist_ok=True)
        tmp = a.out + '.tmp%d' % os.getpid()
        with open(tmp, 'w') as f:
            f.write(text)
        os.replace(tmp, a.out)
        print('py2coq_iterative: wrote %s (changed)' % a.out)
    else:
        print('py2coq_iterative: %s up to date' % a.out)


if __name__ == '__main__':
    main()
