#!/usr/bin/env python3
"""Fail-closed translator (route T) for C14.

Reads  $TRACKPY_REPO/trackpy/linking/find_link.py  (default /repo) with the Python `ast`
module and regenerates  /verif/coq/Gen/findlink.v :

    py_percentile_threshold       FindLinker.percentile_threshold: the per-frame cache of the threshold
    py_get_relocate_candidates    FindLinker.get_relocate_candidates: slice, the two masks (search region,
                                  already found features), threshold, box maxima, edge rejection on absolute
                                  coordinates, search-range filter, separation filter, mass, minmass
                                  selection and ordering, all early returns
    py_relocate                   FindLinker.relocate: the n best candidates as points

statement by statement, as let-bound, state-passing Gallina over the vocabulary of
coq/Model/PyFindlink.v (what every construct and primitive means).  Proofs/FindlinkGen.v
proves the generated functions equal to the hand-written model the C14 theorems are stated
about (Model/FindLink.v: relocate_cands / relocate / image_reloc) for all inputs;
Properties/C14.v restates the headline theorems for the generated functions.

Embedding
  * a Python local is a let-bound Coq variable of the same name; `self` is a variable too:
    `self.threshold = e` rebinds it, a method that may change the object returns it as the last
    component of its result (`let '(threshold, self) := py_percentile_threshold ... self ...`);
  * every expression is typed (table TY); an operator / call is translated by the types of its
    operands; anything not in the tables is an error.  Slice-relative coordinate rows have their
    own type (`rel`): only `+ origin`, indexing of the slice, row selection, len, zip,
    drop_close and characterize accept them;
  * `if c: return e` is `if c then e else <rest>`; `if c: return e  else: B` is the same with B
    put in front of the rest; `if x is None: return e` on an optional x is a `match` whose
    Some-branch rebinds x to the value (on a value that cannot be None the test is `false`);
    `if x is not None: B` is a `match` as well; any other `if` yields the tuple of the variables
    it assigns;
  * `for a, b in zip(A, B): body` is `fold_left (fun <accumulators> it => body) (rel_zip A B) <accumulators>`,
    the accumulators being the variables the body assigns that exist before the loop;
    `l.append(x)` rebinds l;
  * `return None, None` is `((None, None), self)`, `return a, b` is `((Some a, Some b), self)`.

Primitives (exact syntactic patterns; meaning fixed in Model/PyFindlink.v): see PAT below and the
header of Model/PyFindlink.v.  The try / except that reads the image's scale_factor and the loop
`for key in extra_data: extra_data[key] = extra_data[key][mask]` are matched as whole statements.
The signatures (relocate's n=1) and the module's imports of the primitives are pinned.

NOT translated (named in Properties/C14.v): FindLinker.__init__, assign_links, next_level and
Subnets.include_lost / merge_lost_subnets / add_dest_points.

Anything outside this subset: exit status 2, nothing written (the check treats that like a
broken proof).

Usage:  py2coq_findlink.py [--repo /repo] [--out /verif/coq/Gen/findlink.v] [--stdout]
"""
import ast, sys, os, argparse


class TranslationError(Exception):
    pass


def fail(node, msg):
    raise TranslationError('line %s: %s' % (getattr(node, 'lineno', '?'), msg))


FIELDS = {'image': 'image', 'curr_t': 'Z', 'threshold': 'cache', 'percentile': 'Q', 'hash': 'hash',
          'slice_radius': 'Z', 'bg_radius': 'Z', 'radius': 'ztup', 'dilation_size': 'ztup',
          'separation': 'qtup', 'search_range': 'metric', 'minmass': 'Q'}
WRITABLE = {'threshold'}
OPTION = {'optQ': 'Q', 'optpts': 'pts', 'optextra': 'extra', 'optZ': 'Z'}
NEVER_NONE = ('rel', 'pts', 'sl', 'extra')
# python locals whose initial literal [] needs a type
EMPTY_LIST_TYPE = {'coords_ok': 'rel'}

RESERVED = set("""
flinker fl_P fl_image fl_curr_t fl_known fl_threshold fl_percentile fl_slice_radius fl_bg_radius fl_radius
fl_dilation_size fl_separation fl_search_range fl_minmass fl_hash set_fl_threshold set_fl_known hash_add_point optZ_eq
ztup qtup ztup_vec qtup_vec hash_t slimg mk_sl sl_box sl_at relrows Rel rel_abs np_atleast_2d slice_image sl_sum mask_image
mask_image_invert hash_query_points lt_thr ge_thr sl_all_lt sl_all_le sl_grey_dilation sl_eq sl_gt sl_ge slb_and sl_argwhere
slb_sum sl_index rel_add_origin rel_select rel_take rel_len rel_empty rel_append np_array_rel rel_rows eucl_pt hash_to_eucl
rel_zip eucl_dists vec_le_range vec_lt_range find_drop_close image_scale_factor extra_t characterize_mass extra_mass
np_argsort_rev np_argsort take_mass vec_ge_minmass vec_gt_minmass extra_take points_from_arr py_set py_empty_set
np_percentile np_nonzero_values nd py_len np_shape rows_lt rows_gt rows_le rows_ge mat_or np_any np_any_rows vec_sub
vec_sub_scalar vec_not mask_select firstn length map fold_left fst snd Some None true false negb it
py_percentile_threshold py_get_relocate_candidates py_relocate
Z Q bool list nat option fun let in if then else match with end as return forall exists fix cofix Type Prop Set
Definition Fixpoint at using pt image
""".split())


def P(src):
    return ast.parse(src, mode='eval').body


def match(p, n, b):
    """structural match of pattern p against node n; E_x binds an expression (the same binder
    twice: the same expression), F_x a Name"""
    if isinstance(p, ast.Name):
        if p.id.startswith('E_'):
            if p.id in b:
                return ast.dump(b[p.id]) == ast.dump(n)
            b[p.id] = n
            return True
        if p.id.startswith('F_'):
            if not isinstance(n, ast.Name):
                return False
            if p.id in b:
                return b[p.id] == n.id
            b[p.id] = n.id
            return True
        return isinstance(n, ast.Name) and n.id == p.id
    if type(p) is not type(n):
        return False
    for fld in p._fields:
        if fld in ('ctx', 'type_comment', 'kind'):
            continue
        pv, nv = getattr(p, fld, None), getattr(n, fld, None)
        if isinstance(pv, list):
            if not isinstance(nv, list) or len(pv) != len(nv):
                return False
            for x, y in zip(pv, nv):
                if isinstance(x, ast.AST):
                    if not match(x, y, b):
                        return False
                elif x != y:
                    return False
        elif isinstance(pv, ast.AST):
            if not isinstance(nv, ast.AST) or not match(pv, nv, b):
                return False
        elif pv != nv:
            return False
    return True


# (pattern, [argument types in binder order], result template, result type)
PAT = [(P(p), b, a, t, r) for p, b, a, t, r in [
    ("np.atleast_2d(E_p)", ['E_p'], ['pts'], '(np_atleast_2d %s)', 'pts'),
    ("slice_image(E_p, E_i, E_r)", ['E_p', 'E_i', 'E_r'], ['pts', 'image', 'Z'], '(slice_image %s %s %s)', 'slpair'),
    ("E_i.sum() == 0", ['E_i'], ['sl'], '(sl_sum %s =? 0)', 'B'),
    ("mask_image(E_p, E_i, E_r, E_o, invert=False)", ['E_p', 'E_i', 'E_r', 'E_o'], ['pts', 'sl', 'Z', 'origin'], '(mask_image %s %s %s %s)', 'sl'),
    ("mask_image(E_p, E_i, E_r, E_o, invert=True)", ['E_p', 'E_i', 'E_r', 'E_o'], ['pts', 'sl', 'qtup', 'origin'], '(mask_image_invert %s %s %s %s)', 'sl'),
    ("self.hash.query_points(E_p, E_r)", ['E_p', 'E_r'], ['pts', 'Z'], '(hash_query_points (fl_hash self) %s %s)', 'optpts'),
    ("np.all(E_i < E_t)", ['E_i', 'E_t'], ['sl', 'Q'], '(sl_all_lt %s %s)', 'B'),
    ("np.all(E_i <= E_t)", ['E_i', 'E_t'], ['sl', 'Q'], '(sl_all_le %s %s)', 'B'),
    ("ndimage.grey_dilation(E_i, E_s, mode='constant')", ['E_i', 'E_s'], ['sl', 'ztup'], '(sl_grey_dilation %s %s)', 'sl'),
    ("np.sum(E_m) == 0", ['E_m'], ['slB'], '(slb_sum %s =? 0)', 'B'),
    ("np.vstack(np.where(E_m)).T", ['E_m'], ['slB'], '(sl_argwhere %s)', 'rel'),
    ("np.array(self.image.shape)", [], [], '(np_shape (fl_image self))', 'zvec'),
    ("np.any(E_m, axis=1)", ['E_m'], ['bmat'], '(np_any_rows %s)', 'bvec'),
    ("np.any(E_v)", ['E_v'], ['bvec'], '(np_any %s)', 'B'),
    ("len(E_x) == 0", ['E_x'], ['rel'], '(rel_len %s =? 0)', 'B'),
    ("len(E_x) == 0", ['E_x'], ['zvec'], '(py_len %s =? 0)', 'B'),
    ("self.hash.to_eucl(E_r)", ['E_r'], ['pts'], '(hash_to_eucl (fl_hash self) %s)', 'euclrows'),
    ("np.sqrt(np.sum((E_c - E_p) ** 2, axis=1))", ['E_c', 'E_p'], ['eucl', 'euclrows'], '(eucl_dists %s %s)', 'dists'),
    ("drop_close(E_c, E_s, E_i)", ['E_c', 'E_s', 'E_i'], ['rel', 'qtup', 'zvec'], '(find_drop_close %s %s %s)', 'rel'),
    ("characterize(E_c, E_i, E_r, E_s)", ['E_c', 'E_i', 'E_r', 'E_s'], ['rel', 'sl', 'ztup', 'sf'], '(characterize_mass %s %s %s %s)', 'extra'),
    ("E_e['mass']", ['E_e'], ['extra'], '(extra_mass %s)', 'massvec'),
    ("np.argsort(E_m)[::-1]", ['E_m'], ['massvec'], '(np_argsort_rev %s)', 'idx'),
    ("np.argsort(E_m)", ['E_m'], ['massvec'], '(np_argsort %s)', 'idx'),
    ("min(E_n, len(E_l))", ['E_n', 'E_l'], ['nat', 'pts'], '(Nat.min %s (length %s))', 'nat'),
    ("points_from_arr(E_c, self.curr_t, E_e)", ['E_c', 'E_e'], ['pts', 'optextra'], '(points_from_arr %s (fl_curr_t self) %s)', 'pts'),
    ("set(E_p)", ['E_p'], ['pts'], '(py_set %s)', 'pts'),
    ("set()", [], [], 'py_empty_set', 'pts'),
    ("E_a[np.nonzero(E_a)]", ['E_a'], ['image'], '(np_nonzero_values (nd %s))', 'zvec'),
    ("np.percentile(E_a, E_q)", ['E_a', 'E_q'], ['zvec', 'Q'], '(Some (np_percentile %s %s))', 'optQ'),
    ("self.curr_t != E_x", ['E_x'], ['optZ'], '(negb (optZ_eq (Some (fl_curr_t self)) %s))', 'B'),
    ("self.curr_t == E_x", ['E_x'], ['optZ'], '(optZ_eq (Some (fl_curr_t self)) %s)', 'B'),
]]
PAT_TRY = ast.parse("try:\n    scale_factor = self.image.metadata['scale_factor']\nexcept (AttributeError, KeyError):\n    scale_factor = 1.0\n").body[0]
PAT_EXTRA_LOOP = ast.parse("for key in extra_data:\n    extra_data[key] = extra_data[key][mask]\n").body[0]
PAT_INDEX_COMP = P("[E_i[tuple(F_c)] for F_c in E_r]")
PAT_IS_NONE = P("F_x is None")
PAT_IS_NOT_NONE = P("F_x is not None")
PAT_APPEND = P("F_l.append(E_x)")
PAT_ZIP = P("zip(E_a, E_b)")
PAT_NP_ARRAY = P("np.array(E_x)")


def cmt(s):
    try:
        t = ast.unparse(s).split('\n')[0]
    except Exception:
        t = type(s).__name__
    t = t.replace('(*', '( *').replace('*)', '* )').replace('"', "'")
    if len(t) > 120:
        t = t[:117] + '...'
    return '(* %d: %s *)' % (getattr(s, 'lineno', 0), t)


def assigned(stmts):
    out = []

    def add(x):
        if x not in out:
            out.append(x)

    def target(t):
        if isinstance(t, ast.Name):
            add(t.id)
        elif isinstance(t, ast.Tuple):
            for x in t.elts:
                target(x)
        elif isinstance(t, ast.Attribute) and isinstance(t.value, ast.Name) and t.value.id == 'self':
            add('self')
        elif isinstance(t, ast.Subscript) and isinstance(t.value, ast.Name):
            add(t.value.id)
        else:
            fail(t, 'unsupported assignment target')

    def walk(ss):
        for s in ss:
            if isinstance(s, ast.Assign):
                for t in s.targets:
                    target(t)
                for n in ast.walk(s.value):
                    if isinstance(n, ast.Attribute) and n.attr == 'percentile_threshold':
                        add('self')
            elif isinstance(s, ast.If):
                walk(s.body); walk(s.orelse)
            elif isinstance(s, ast.For):
                walk(s.body)
            elif isinstance(s, ast.Expr) and match(PAT_APPEND, s.value, {}):
                add(s.value.func.value.id)
    walk(stmts)
    return out


SIGS = {
    'percentile_threshold': dict(args=['self', 'percentile'], defaults=[], params=[('percentile', 'Q')],
                                 coq='(np_percentile : list Z -> Q -> Q) (self : flinker) (percentile : Q) : option Q * flinker'),
    'get_relocate_candidates': dict(args=['self', 'pos'], defaults=[], params=[('pos', 'pts')],
                                    coq='(np_percentile : list Z -> Q -> Q) (self : flinker) (pos : list pt) : (option (list pt) * option extra_t) * flinker'),
    'relocate': dict(args=['self', 'pos', 'n'], defaults=['1'], params=[('pos', 'pts'), ('n', 'nat')],
                     coq='(np_percentile : list Z -> Q -> Q) (self : flinker) (pos : list pt) (n : nat) : list pt * flinker'),
}
ORDER = ['percentile_threshold', 'get_relocate_candidates', 'relocate']


class Fn:
    def __init__(self, fdef):
        self.f = fdef
        self.name = fdef.name
        self.sig = SIGS[fdef.name]
        self.env = {'self': 'self'}
        for n, t in self.sig['params']:
            self.bind(fdef, n, t)

    def bind(self, node, name, ty):
        if name != 'self' and (name in RESERVED or name.startswith('_') or not name.isidentifier() or not name.isascii()):
            fail(node, 'variable name %s collides with the generated vocabulary' % name)
        self.env[name] = ty

    def var(self, node, name):
        if name not in self.env:
            fail(node, 'name %s is read where it is not bound' % name)
        return name, self.env[name]

    # -------------------------------------------------------------- expressions
    def exT(self, e, want):
        """expression of (exactly) the wanted type, with the coercions the tables allow"""
        if want in OPTION and isinstance(e, ast.Constant) and e.value is None:
            return 'None'
        if want == 'Z' and isinstance(e, ast.Constant) and isinstance(e.value, int) and not isinstance(e.value, bool):
            return '%d' % e.value if e.value >= 0 else '(%d)' % e.value
        s, t = self.ex(e)
        if t == want:
            return s
        if want == 'zvec' and t == 'ztup':
            return '(ztup_vec %s)' % s
        if want in OPTION and OPTION[want] == t:
            return '(Some %s)' % s
        fail(e, 'expression `%s` has type %s, expected %s' % (ast.unparse(e), t, want))

    def ex(self, e):
        for p, binders, tys, tmpl, rty in PAT:
            b = {}
            if match(p, e, b):
                try:
                    args = tuple(self.exT(b[k], t) for k, t in zip(binders, tys))
                except TranslationError:
                    # the pattern matched syntactically but not by type: try the other rules
                    continue
                return (tmpl % args if args else tmpl), rty
        b = {}
        if match(PAT_INDEX_COMP, e, b):
            im = self.exT(b['E_i'], 'sl')
            rows = self.exT(b['E_r'], 'rel')
            c = b['F_c']
            if c in RESERVED or c in self.env:
                fail(e, 'comprehension variable %s' % c)
            return '(map (fun %s => (sl_index %s %s)) (rel_rows %s))' % (c, im, c, rows), 'zvec'
        b = {}
        if match(PAT_NP_ARRAY, e, b):
            s, t = self.ex(b['E_x'])
            if t == 'origin':
                return s, 'origin'
            if t == 'rel':
                return '(np_array_rel %s)' % s, 'rel'
            fail(e, 'np.array of a %s' % t)
        if isinstance(e, ast.Name):
            if e.id in ('True', 'False'):
                fail(e, 'unsupported constant')
            return self.var(e, e.id)
        if isinstance(e, ast.Attribute) and isinstance(e.value, ast.Name) and e.value.id == 'self':
            if self.env.get('self') != 'self':
                fail(e, 'self is not available here')
            if e.attr not in FIELDS:
                fail(e, 'unknown field self.%s' % e.attr)
            return '(fl_%s self)' % e.attr, FIELDS[e.attr]
        if isinstance(e, ast.Constant):
            fail(e, 'constant %r in a position where its type is not determined' % (e.value,))
        if isinstance(e, ast.Tuple) and len(e.elts) == 2:
            a, ta = self.ex(e.elts[0])
            if ta == 'Z':
                return '((Some %s), %s)' % (a, self.exT(e.elts[1], 'optQ')), 'cache'
            fail(e, 'unsupported tuple')
        if isinstance(e, ast.UnaryOp) and isinstance(e.op, ast.Invert):
            return '(vec_not %s)' % self.exT(e.operand, 'bvec'), 'bvec'
        if isinstance(e, ast.BinOp):
            return self.binop(e)
        if isinstance(e, ast.Compare):
            return self.compare(e)
        if isinstance(e, ast.Subscript):
            if isinstance(e.slice, ast.Slice):
                sl = e.slice
                if sl.lower is None and sl.step is None and sl.upper is not None:
                    v = self.exT(e.value, 'pts')
                    return '(firstn %s %s)' % (self.exT(sl.upper, 'nat'), v), 'pts'
                fail(e, 'unsupported slice')
            v, tv = self.ex(e.value)
            i, ti = self.ex(e.slice)
            if tv == 'rel' and ti == 'bvec':
                return '(rel_select %s %s)' % (i, v), 'rel'
            if tv == 'rel' and ti == 'idx':
                return '(rel_take %s %s)' % (v, i), 'rel'
            if tv == 'massvec' and ti == 'idx':
                return '(take_mass %s %s)' % (v, i), 'massvec'
            if tv == 'idx' and ti == 'bvec':
                return '(mask_select %s %s)' % (i, v), 'idx'
            fail(e, 'unsupported indexing of a %s by a %s' % (tv, ti))
        fail(e, 'unsupported expression `%s`' % ast.unparse(e))

    def binop(self, e):
        l, r, op = e.left, e.right, e.op
        if isinstance(r, ast.Constant) and isinstance(op, ast.Sub):
            return '(vec_sub_scalar %s %s)' % (self.exT(l, 'zvec'), self.exT(r, 'Z')), 'zvec'
        a, ta = self.ex(l)
        c, tc = self.ex(r)
        if isinstance(op, ast.Add) and ta == 'rel' and tc == 'origin':
            return '(rel_add_origin %s %s)' % (a, c), 'pts'
        if isinstance(op, ast.Add) and ta == 'origin' and tc == 'rel':
            return '(rel_add_origin %s %s)' % (c, a), 'pts'
        if isinstance(op, ast.Sub) and ta == 'zvec' and tc in ('zvec', 'ztup'):
            return '(vec_sub %s %s)' % (a, self.exT(r, 'zvec')), 'zvec'
        if isinstance(op, ast.BitAnd) and ta == 'slB' and tc == 'slB':
            return '(slb_and %s %s)' % (a, c), 'slB'
        if isinstance(op, ast.BitOr) and ta == 'bmat' and tc == 'bmat':
            return '(mat_or %s %s)' % (a, c), 'bmat'
        fail(e, 'unsupported operator %s on %s and %s' % (type(op).__name__, ta, tc))

    def compare(self, e):
        if len(e.ops) != 1:
            fail(e, 'chained comparison')
        op, l, r = e.ops[0], e.left, e.comparators[0]
        a, ta = self.ex(l)
        c, tc = self.ex(r)
        if ta == 'sl' and tc == 'sl' and isinstance(op, ast.Eq):
            return '(sl_eq %s %s)' % (a, c), 'slB'
        if ta == 'sl' and tc == 'Q':
            for k, f in ((ast.Gt, 'sl_gt'), (ast.GtE, 'sl_ge')):
                if isinstance(op, k):
                    return '(%s %s %s)' % (f, a, c), 'slB'
        if ta == 'pts' and tc in ('zvec', 'ztup'):
            for k, f in ((ast.Lt, 'rows_lt'), (ast.Gt, 'rows_gt'), (ast.LtE, 'rows_le'), (ast.GtE, 'rows_ge')):
                if isinstance(op, k):
                    return '(%s %s %s)' % (f, a, self.exT(r, 'zvec')), 'bmat'
        if ta == 'dists' and tc == 'metric':
            for k, f in ((ast.LtE, 'vec_le_range'), (ast.Lt, 'vec_lt_range')):
                if isinstance(op, k):
                    return '(%s %s %s)' % (f, a, c), 'bvec'
        if ta == 'massvec' and tc == 'Q':
            for k, f in ((ast.GtE, 'vec_ge_minmass'), (ast.Gt, 'vec_gt_minmass')):
                if isinstance(op, k):
                    return '(%s %s %s)' % (f, a, c), 'bvec'
        fail(e, 'unsupported comparison %s of a %s with a %s' % (type(op).__name__, ta, tc))

    # -------------------------------------------------------------- statements
    def tup(self, names):
        return '(' + ', '.join(names) + ')' if len(names) != 1 else names[0]

    def pat(self, names):
        return "'(" + ', '.join(names) + ')' if len(names) != 1 else names[0]

    def no_tail(self, node):
        def t():
            fail(node, 'control reaches the end of a block that has to return')
        return t

    def ret(self, s):
        v = s.value
        if self.name == 'percentile_threshold':
            if v is None:
                fail(s, 'return without a value')
            return '(%s, self)' % self.exT(v, 'optQ')
        if self.name == 'get_relocate_candidates':
            if not (isinstance(v, ast.Tuple) and len(v.elts) == 2):
                fail(s, 'get_relocate_candidates must return a pair')
            a, b = v.elts
            na = isinstance(a, ast.Constant) and a.value is None
            nb = isinstance(b, ast.Constant) and b.value is None
            if na and nb:
                return '((None, None), self)'
            if na or nb:
                fail(s, 'return of a half-None pair')
            return '((Some %s, Some %s), self)' % (self.exT(a, 'pts'), self.exT(b, 'extra'))
        if self.name == 'relocate':
            if v is None:
                fail(s, 'return without a value')
            return '(%s, self)' % self.exT(v, 'pts')
        fail(s, 'return')

    def seq(self, stmts, tail, ind):
        if not stmts:
            return ind + tail()
        s, rest = stmts[0], stmts[1:]

        def go():
            return self.seq(rest, tail, ind)

        if isinstance(s, ast.Pass):
            return go()
        if isinstance(s, ast.Expr) and isinstance(s.value, ast.Constant) and isinstance(s.value.value, str):
            return go()
        if isinstance(s, ast.Return):
            if rest:
                fail(s, 'statements after return')
            return ind + self.ret(s)
        if isinstance(s, ast.Try):
            if not match(PAT_TRY, s, {}):
                fail(s, 'unsupported try statement (only the scale_factor lookup is known)')
            self.bind(s, 'scale_factor', 'sf')
            return '%s%s\n%slet scale_factor := (image_scale_factor (fl_image self)) in\n' % (ind, cmt(s), ind) + go()
        if isinstance(s, ast.For):
            return self.forstmt(s, ind, go)
        if isinstance(s, ast.Expr):
            b = {}
            if match(PAT_APPEND, s.value, b):
                l, tl = self.var(s, b['F_l'])
                if tl != 'rel':
                    fail(s, 'append to a %s' % tl)
                x = self.exT(b['E_x'], 'relrow')
                return '%s%s\n%slet %s := (rel_append %s %s) in\n' % (ind, cmt(s), ind, l, l, x) + go()
            fail(s, 'unsupported statement `%s`' % ast.unparse(s))
        if isinstance(s, ast.Assign):
            return self.assign(s, ind, go)
        if isinstance(s, ast.If):
            return self.ifstmt(s, rest, tail, ind)
        fail(s, 'unsupported statement %s' % type(s).__name__)

    def assign(self, s, ind, go):
        if len(s.targets) != 1:
            fail(s, 'chained assignment')
        t = s.targets[0]
        head = '%s%s\n' % (ind, cmt(s))
        # self.f = e
        if isinstance(t, ast.Attribute) and isinstance(t.value, ast.Name) and t.value.id == 'self':
            if t.attr not in WRITABLE:
                fail(s, 'assignment to self.%s' % t.attr)
            v = self.exT(s.value, FIELDS[t.attr])
            return head + '%slet self := set_fl_%s self %s in\n' % (ind, t.attr, v) + go()
        # x = self.percentile_threshold(q)
        if isinstance(s.value, ast.Call) and isinstance(s.value.func, ast.Attribute) and isinstance(s.value.func.value, ast.Name) \
                and s.value.func.value.id == 'self':
            m = s.value.func.attr
            call = s.value
            if call.keywords:
                fail(s, 'keyword arguments in a method call')
            if m == 'percentile_threshold' and self.name == 'get_relocate_candidates' and isinstance(t, ast.Name) and len(call.args) == 1:
                q = self.exT(call.args[0], 'Q')
                self.bind(s, t.id, 'optQ')
                return head + "%slet '(%s, self) := (py_percentile_threshold np_percentile self %s) in\n" % (ind, t.id, q) + go()
            if m == 'get_relocate_candidates' and self.name == 'relocate' and isinstance(t, ast.Tuple) and len(t.elts) == 2 \
                    and all(isinstance(x, ast.Name) for x in t.elts) and t.elts[0].id != t.elts[1].id and len(call.args) == 1:
                p = self.exT(call.args[0], 'pts')
                self.bind(s, t.elts[0].id, 'optpts')
                self.bind(s, t.elts[1].id, 'optextra')
                return head + "%slet '((%s, %s), self) := (py_get_relocate_candidates np_percentile self %s) in\n" % (
                    ind, t.elts[0].id, t.elts[1].id, p) + go()
            fail(s, 'unsupported method call self.%s' % m)
        if isinstance(t, ast.Tuple):
            if len(t.elts) != 2 or not all(isinstance(x, ast.Name) for x in t.elts) or t.elts[0].id == t.elts[1].id:
                fail(s, 'unsupported tuple assignment')
            v, tv = self.ex(s.value)
            if tv == 'slpair':
                self.bind(s, t.elts[0].id, 'sl')
                self.bind(s, t.elts[1].id, 'origin')
            elif tv == 'cache':
                self.bind(s, t.elts[0].id, 'optZ')
                self.bind(s, t.elts[1].id, 'optQ')
            else:
                fail(s, 'unpacking of a %s' % tv)
            return head + "%slet '(%s, %s) := %s in\n" % (ind, t.elts[0].id, t.elts[1].id, v) + go()
        if isinstance(t, ast.Name):
            if isinstance(s.value, ast.List) and not s.value.elts:
                if t.id not in EMPTY_LIST_TYPE:
                    fail(s, 'empty list assigned to %s: element type unknown' % t.id)
                self.bind(s, t.id, EMPTY_LIST_TYPE[t.id])
                return head + '%slet %s := rel_empty in\n' % (ind, t.id) + go()
            if isinstance(s.value, ast.Constant) and s.value.value is None:
                old = self.env.get(t.id)
                if old not in OPTION:
                    fail(s, 'None assigned to %s of type %s' % (t.id, old))
                return head + '%slet %s := None in\n' % (ind, t.id) + go()
            v, tv = self.ex(s.value)
            if tv in ('slpair', 'cache', 'self'):
                fail(s, 'a local may not hold a %s' % tv)
            old = self.env.get(t.id)
            if old in OPTION and OPTION[old] == tv:
                v, tv = '(Some %s)' % v, old
            self.bind(s, t.id, tv)
            return head + '%slet %s := %s in\n' % (ind, t.id, v) + go()
        fail(s, 'unsupported assignment target')

    def forstmt(self, s, ind, go):
        if s.orelse:
            fail(s, 'for ... else')
        if match(PAT_EXTRA_LOOP, s, {}):
            e, te = self.var(s, 'extra_data')
            m, tm = self.var(s, 'mask')
            if (te, tm) != ('extra', 'idx'):
                fail(s, 'extra_data / mask of types %s / %s' % (te, tm))
            return '%s%s\n%slet extra_data := (extra_take extra_data mask) in\n' % (ind, cmt(s), ind) + go()
        b = {}
        t = s.target
        if not (match(PAT_ZIP, s.iter, b) and isinstance(t, ast.Tuple) and len(t.elts) == 2
                and all(isinstance(x, ast.Name) for x in t.elts) and t.elts[0].id != t.elts[1].id):
            fail(s, 'unsupported loop (only `for a, b in zip(A, B)`)')
        A = self.exT(b['E_a'], 'rel')
        B = self.exT(b['E_b'], 'euclrows')
        for n in ast.walk(s):
            if isinstance(n, (ast.Return, ast.Break, ast.Continue)):
                fail(n, 'return / break / continue inside a loop')
        acc = [v for v in assigned(s.body) if v in self.env]
        if not acc or 'self' in acc:
            fail(s, 'a loop that changes nothing visible, or changes self')
        x, y = t.elts[0].id, t.elts[1].id
        if x in self.env or y in self.env:
            fail(s, 'loop variable shadows a local')
        snap = dict(self.env)
        self.bind(s, x, 'relrow')
        self.bind(s, y, 'eucl')
        i2 = ind + '    '
        body = self.seq(list(s.body), lambda: self.tup(acc), i2)
        types = {v: self.env[v] for v in acc}
        self.env = snap
        for v in acc:
            if types[v] != snap[v]:
                fail(s, 'loop changes the type of %s' % v)
        return ('%s%s\n%slet %s :=\n%s  fold_left (fun %s it =>\n%slet %s := fst it in\n%slet %s := snd it in\n%s) (rel_zip %s %s) %s in\n'
                % (ind, cmt(s), ind, self.pat(acc), ind, self.pat(acc), i2, x, i2, y, body, A, B, self.tup(acc))) + go()

    def ifstmt(self, s, rest, tail, ind):
        none, notnone = {}, {}
        is_none = match(PAT_IS_NONE, s.test, none)
        is_not_none = (not is_none) and match(PAT_IS_NOT_NONE, s.test, notnone)
        x = none.get('F_x') or notnone.get('F_x')
        head = '%s%s\n' % (ind, cmt(s))
        snap = dict(self.env)
        # ---- early return
        if s.body and isinstance(s.body[-1], ast.Return):
            for n in s.body[:-1]:
                for k in ast.walk(n):
                    if isinstance(k, ast.Return):
                        fail(k, 'nested return')
            rest = list(s.orelse) + list(rest)
            if is_not_none:
                fail(s, 'unsupported early return on `is not None`')
            if is_none:
                _, tx = self.var(s, x)
                if tx in OPTION:
                    self.env.pop(x)
                    a = self.seq(s.body, self.no_tail(s), ind + '  ')
                    self.env = dict(snap)
                    self.env[x] = OPTION[tx]
                    r = self.seq(rest, tail, ind)
                    return head + '%smatch %s with\n%s| None =>\n%s\n%s| Some %s =>\n%s\n%send' % (ind, x, ind, a, ind, x, r, ind)
                if tx not in NEVER_NONE:
                    fail(s, '`is None` on a %s' % tx)
                cond = 'false'
            else:
                cond = self.exT(s.test, 'B')
            a = self.seq(s.body, self.no_tail(s), ind + '  ')
            self.env = dict(snap)
            return head + '%sif %s then\n%s\n%selse\n' % (ind, cond, a, ind) + self.seq(rest, tail, ind)
        for n in s.body + s.orelse:
            for k in ast.walk(n):
                if isinstance(k, ast.Return):
                    fail(k, 'unsupported return inside an if')
        W = assigned([s])
        if is_none or is_not_none:
            _, tx = self.var(s, x)
            if tx not in OPTION:
                fail(s, '`is [not] None` on a %s' % tx)
            if x in W:
                fail(s, '%s is rebound inside its own None test' % x)
        else:
            cond = self.exT(s.test, 'B')

        def enter(known):
            self.env = dict(snap)
            if is_none or is_not_none:
                if known:
                    self.env[x] = OPTION[tx]
                else:
                    self.env.pop(x)

        some_body, none_body = (s.orelse, s.body) if is_none else (s.body, s.orelse)

        def run(fin):
            if is_none or is_not_none:
                enter(True)
                a = self.seq(some_body, fin, ind + '    ')
                ea = dict(self.env)
                enter(False)
                bb = self.seq(none_body, fin, ind + '    ')
                eb = dict(self.env)
            else:
                enter(None)
                a = self.seq(s.body, fin, ind + '    ')
                ea = dict(self.env)
                enter(None)
                bb = self.seq(s.orelse, fin, ind + '    ')
                eb = dict(self.env)
            return a, bb, ea, eb

        _, _, ea, eb = run(lambda: 'tt')
        out = []
        for v in W:
            if v in ea and v in eb:
                if ea[v] != eb[v]:
                    fail(s, 'variable %s has type %s in one branch and %s in the other' % (v, ea[v], eb[v]))
                out.append(v)
            # a variable assigned in one branch only is local to it (reading it later: "not bound")
        if not out:
            fail(s, 'an if that changes nothing visible')
        a, bb, ea, eb = run(lambda: self.tup(out))
        self.env = dict(snap)
        for v in out:
            self.bind(s, v, ea[v])
        if is_none or is_not_none:
            text = '%slet %s :=\n%s  match %s with\n%s  | Some %s =>\n%s\n%s  | None =>\n%s\n%s  end in\n' % (
                ind, self.pat(out), ind, x, ind, x, a, ind, bb, ind)
        else:
            text = '%slet %s :=\n%s  if %s then\n%s\n%s  else\n%s in\n' % (ind, self.pat(out), ind, cond, a, ind, bb)
        return head + text + self.seq(rest, tail, ind)

    # -------------------------------------------------------------- function
    def translate(self):
        for s in self.f.body:
            for n in ast.walk(s):
                if isinstance(n, (ast.While, ast.With, ast.DictComp, ast.SetComp, ast.Yield, ast.YieldFrom, ast.FunctionDef,
                                  ast.Lambda, ast.Global, ast.Nonlocal, ast.Delete, ast.Raise, ast.Await, ast.NamedExpr,
                                  ast.Starred, ast.IfExp, ast.AugAssign, ast.Assert, ast.BoolOp, ast.Break, ast.Continue,
                                  ast.GeneratorExp, ast.AsyncFor, ast.ClassDef, ast.Import, ast.ImportFrom)):
                    fail(n, 'unsupported construct %s' % type(n).__name__)
        main = self.seq(list(self.f.body), self.no_tail(self.f), '  ')
        out = '(* ===== FindLinker.%s (line %d) ===== *)\n' % (self.name, self.f.lineno)
        out += 'Definition py_%s %s :=\n%s.\n' % (self.name, self.sig['coq'], main)
        return out


def check_sig(fdef, names, defaults):
    a = fdef.args
    got = [x.arg for x in a.args]
    if got != names or a.vararg or a.kwonlyargs or getattr(a, 'posonlyargs', []) or a.kwarg:
        fail(fdef, 'signature of %s changed: %s' % (fdef.name, got))
    if [ast.unparse(d) for d in a.defaults] != defaults:
        fail(fdef, 'defaults of %s changed: %s' % (fdef.name, [ast.unparse(d) for d in a.defaults]))
    if fdef.decorator_list:
        fail(fdef, 'decorated function')


HEADER = """(* GENERATED by tools/py2coq_findlink.py from trackpy/linking/find_link.py -- do not edit.
   FindLinker.percentile_threshold, get_relocate_candidates and relocate, statement by statement
   (the numbered comments are the Python statements), as let-bound, state-passing Gallina over
   Model/PyFindlink.v (vocabulary, list of the numpy / scipy / trackpy primitives, conventions;
   see also the translator's docstring).
   Extra parameter:  np_percentile : np.percentile (named primitive).
   A method that may change the object returns it as the last component of its result. *)
From Coq Require Import ZArith QArith List Bool Arith.
From TP Require Import Model.Assign Model.Link Model.Dilation Model.FindLink Model.PyFind Model.PyFindlink.
Import ListNotations.
Open Scope Z_scope.
"""

# names the translated methods rely on, as the module binds them
WANT_IMPORTS = {'np': ('numpy', None), 'ndimage': ('scipy', 'ndimage'), 'slice_image': ('..masks', 'slice_image'),
                'mask_image': ('..masks', 'mask_image'), 'drop_close': ('..find', 'drop_close'),
                'characterize': ('..feature', 'characterize'), 'points_from_arr': ('.utils', 'points_from_arr')}


def module_imports(tree):
    imports = {}
    for n in tree.body:
        if isinstance(n, ast.ImportFrom):
            for al in n.names:
                imports[al.asname or al.name] = (('.' * n.level) + (n.module or ''), al.name)
        elif isinstance(n, ast.Import):
            for al in n.names:
                imports[al.asname or al.name] = (al.name, None)
    return imports


def translate(repo):
    path = os.path.join(repo, 'trackpy', 'linking', 'find_link.py')
    tree = ast.parse(open(path).read())
    imports = module_imports(tree)
    for k, v in WANT_IMPORTS.items():
        got = imports.get(k)
        if got is None or got[1] != v[1] or got[0].lstrip('.').split('.')[-1] != v[0].lstrip('.').split('.')[-1]:
            raise TranslationError('the module no longer binds %s to %s%s (found %r)' % (k, v[0], '.' + v[1] if v[1] else '', got))
    cls = [n for n in tree.body if isinstance(n, ast.ClassDef) and n.name == 'FindLinker']
    if len(cls) != 1:
        raise TranslationError('class FindLinker: expected exactly one definition')
    cls = cls[0]
    if [ast.unparse(b) for b in cls.bases] != ['Linker'] or cls.decorator_list or cls.keywords:
        raise TranslationError('class FindLinker: bases / decorators changed')
    for n in tree.body:
        if isinstance(n, (ast.FunctionDef, ast.ClassDef, ast.Assign)) :
            names = [n.name] if not isinstance(n, ast.Assign) else [t.id for t in n.targets if isinstance(t, ast.Name)]
            for k in names:
                if k in WANT_IMPORTS:
                    raise TranslationError('name %s is both imported and defined' % k)
    defs = {}
    for m in cls.body:
        if isinstance(m, ast.FunctionDef):
            if m.name in defs:
                raise TranslationError('method %s defined twice' % m.name)
            defs[m.name] = m
    text = HEADER
    for name in ORDER:
        if name not in defs:
            raise TranslationError('method FindLinker.%s not found' % name)
        check_sig(defs[name], SIGS[name]['args'], SIGS[name]['defaults'])
        text += '\n' + Fn(defs[name]).translate()
    return text


def main():
    ap = argparse.ArgumentParser()
    ap.add_argument('--repo', default=os.environ.get('TRACKPY_REPO', '/repo'))
    ap.add_argument('--out', default=os.path.join(os.path.dirname(os.path.dirname(os.path.abspath(__file__))), 'coq', 'Gen', 'findlink.v'))
    ap.add_argument('--stdout', action='store_true')
    a = ap.parse_args()
    try:
        text = translate(a.repo)
    except TranslationError as e:
        sys.stderr.write('py2coq_findlink: TRANSLATION ERROR: %s\n' % e)
        sys.exit(2)
    except (OSError, SyntaxError) as e:
        sys.stderr.write('py2coq_findlink: TRANSLATION ERROR: cannot read / parse the source: %s\n' % e)
        sys.exit(2)
    except Exception as e:      # fail closed on anything unforeseen
        sys.stderr.write('py2coq_findlink: TRANSLATION ERROR: internal error %r\n' % (e,))
        sys.exit(2)
    if a.stdout:
        sys.stdout.write(text)
        return
    old = open(a.out).read() if os.path.exists(a.out) else None
    if old != text:
        os.makedirs(os.path.dirname(a.out), exist_ok=True)
        tmp = a.out + '.tmp%d' % os.getpid()
        with open(tmp, 'w') as f:
            f.write(text)
        os.replace(tmp, a.out)
        print('py2coq_findlink: wrote %s (changed)' % a.out)
    else:
        print('py2coq_findlink: %s up to date' % a.out)


if __name__ == '__main__':
    main()
