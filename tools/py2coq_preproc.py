#!/usr/bin/env python3
"""Fail-closed translator (route T) for C10: the preprocessing pipeline.

Reads  $TRACKPY_REPO/trackpy/preprocessing.py, masks.py and utils.py  (default
/repo) with the Python `ast` module and regenerates  /verif/coq/Gen/preproc.v :

    gaussian_kernel        (masks.py)          half-width, arange, exp, normalisation
    lowpass, boxcar        (preprocessing.py)  per-axis loops, the `> 0` / `> 1` tests, the odd test
    bandpass               (preprocessing.py)  argument validation, the lshort/llong guard,
                                               default threshold, boxcar, lowpass, difference, np.where

as shallow, state-passing Gallina over the vocabulary coq/Model/PyPreproc.v (read
its header for the meaning of every construct).  Every Python variable is a
`let`, every (re)assignment a new `let`, a `for` loop is a fold_left over its
lambda-lifted body (Definition py_<function>_loop<k>), `raise ValueError(msg)` is
RaiseValueError msg, a call of a function that may raise is a `bind`.
Default arguments become  Definition py_<function>_default_<parameter>;
the function itself is  py_<function>.

Translated subset -- anything else, a missing function, a changed parameter
list, a decorator, an import that no longer binds a primitive to the expected
library function is an ERROR (exit status 2, nothing written); the check treats
that like a broken proof:

  statements
    x = e                        e an expression (below); x not an image parameter
    x = f(..)                    f in {validate_tuple, boxcar, lowpass}: bind
    r -= b                       r a new local array (np.array(..) / .copy() / result of boxcar, lowpass), b an array
    if x is None: <block>        x an optional parameter; the block must assign x on every path
    if c: raise ValueError(s)    s a string literal or a + of string literals
    if c: <block> [else: <block>]   blocks of assignments / in-place filters / nested ifs; variables
                                 first bound inside a branch are local to it
    for i, v in enumerate(seq): <block>
    correlate1d(r, w, axis, output=r, mode='constant', cval=0.0)      r a new local array
    uniform_filter1d(r, n, axis, output=r, mode='nearest', cval=<number>)
    return e                     last statement of the function
  expressions
    numbers, names, + - * / unary -, e ** k (k a literal int >= 0), x & y on ints,
    int(e), np.arange(a, b), np.exp(e), np.sum(v), gaussian_kernel(s, t),
    np.array(image, dtype=float), image.copy(), image.ndim, image.dtype (only inside
    np.issubdtype(image.dtype, np.integer)), np.all([..]) / np.any([..]) on a list
    comprehension `[e for x in seq]` / `[e for (x, y) in zip(s1, s2)]`, comparisons
    > >= < <=, `not c`, np.where(c, a, b);
    an expression containing ONE 1-D array / image variable outside np.sum is read
    elementwise:  map (fun v_i => ..) v   /   nd_map nd (fun v_i => ..) v.
  utils.validate_tuple is not translated; its AST must equal the pinned copy below.
  `@memo` on gaussian_kernel is accepted and read as transparent (a cache of a pure function).

Usage:  py2coq_preproc.py [--repo /repo] [--out /verif/coq/Gen/preproc.v] [--stdout]
"""
import ast, sys, os, argparse
from fractions import Fraction

PINNED_VALIDATE_TUPLE = '''
def validate_tuple(value, ndim):
    if not hasattr(value, '__iter__'):
        return (value,) * ndim
    if len(value) == ndim:
        return tuple(value)
    raise ValueError("List length should have same length as image dimensions.")
'''

RESERVED = set('''Q Z A nd np_exp it st bind Ret RaiseValueError PyScalar PySeq Some None map fold_left fst snd
at in as return if then else let fun forall exists match with end fix cofix for where using Type Prop Set SProp option list
nat bool true false negb inject_Z image_dtype'''.split())

# parameter lists are part of the interface (callers pass keywords): fixed here
SPECS = [
    dict(name='gaussian_kernel', module='masks', decorators=['memo'],
         params=[('sigma', 'num'), ('truncate', 'num')], ret=('seq', 'num')),
    dict(name='lowpass', module='preprocessing', decorators=[],
         params=[('image', 'arr'), ('sigma', ('arg', 'num')), ('truncate', 'num')], ret='arr'),
    dict(name='boxcar', module='preprocessing', decorators=[],
         params=[('image', 'arr'), ('size', ('arg', 'int'))], ret='arr'),
    dict(name='bandpass', module='preprocessing', decorators=[],
         params=[('image', 'arr'), ('lshort', ('arg', 'num')), ('llong', ('arg', 'int')), ('threshold', ('opt', 'num')),
                 ('truncate', 'num')], ret='arr'),
]
# names the translated code takes from elsewhere: module -> {name: (source module, level)}
IMPORTS = {
    'preprocessing': {'uniform_filter1d': ('scipy.ndimage', 0), 'correlate1d': ('scipy.ndimage', 0),
                      'validate_tuple': ('utils', 1), 'gaussian_kernel': ('masks', 1)},
    'masks': {'memo': ('utils', 1)},
}


PREFIX = 'py_'


class TranslationError(Exception):
    pass


def fail(node, msg):
    raise TranslationError('line %s: %s' % (getattr(node, 'lineno', '?'), msg))


def is_np(e, attr=None):
    return isinstance(e, ast.Attribute) and isinstance(e.value, ast.Name) and e.value.id == 'np' and (attr is None or e.attr == attr)


def is_name(e, n=None):
    return isinstance(e, ast.Name) and (n is None or e.id == n)


def int_const(e):
    return isinstance(e, ast.Constant) and isinstance(e.value, int) and not isinstance(e.value, bool)


def num_const(e):
    return isinstance(e, ast.Constant) and isinstance(e.value, (int, float)) and not isinstance(e.value, bool)


def body_wo_doc(fn):
    b = list(fn.body)
    if b and isinstance(b[0], ast.Expr) and isinstance(b[0].value, ast.Constant) and isinstance(b[0].value.value, str):
        b = b[1:]
    return b


def coq_ty(t):
    if isinstance(t, tuple):
        k, u = t
        return {'seq': 'list %s', 'arg': 'pyarg %s', 'opt': 'option %s'}[k] % coq_ty_atom(u)
    return coq_ty_atom(t)


def coq_ty_atom(t):
    if isinstance(t, tuple):
        return '(%s)' % coq_ty(t)
    return {'num': 'Q', 'int': 'Z', 'bool': 'bool', 'arr': 'A', 'nat': 'nat', 'dtype': 'np_dtype', 'str': 'string'}[t]


def qlit(v, node=None):
    """exact rational of a Python number, as a term of type Q"""
    if isinstance(v, bool) or not isinstance(v, (int, float)):
        fail(node, 'unsupported constant %r' % (v,))
    if isinstance(v, float) and (v != v or v in (float('inf'), float('-inf'))):
        fail(node, 'non-finite constant')
    f = Fraction(v)
    a = abs(f)
    s = '%d' % a.numerator if a.denominator == 1 else '(%d # %d)' % (a.numerator, a.denominator)
    return s if f >= 0 else '(- (%s))' % s.strip('()') if a.denominator == 1 else '(- %s)' % s


def zlit(k):
    return '%d%%Z' % k if k >= 0 else '(%d)%%Z' % k


def strlit(s, node=None):
    if not s.isascii() or any(ord(c) < 32 for c in s):
        fail(node, 'unsupported characters in a string literal')
    return '"%s"%%string' % s.replace('"', '""')


class Val:
    def __init__(self, ty, coq, lit=None):
        self.ty, self.coq, self.lit = ty, coq, lit


class Flags:
    def __init__(self):
        self.nd = self.exp = False

    def merge(self, o):
        self.nd |= o.nd
        self.exp |= o.exp


PROTECTED = set('np correlate1d uniform_filter1d validate_tuple gaussian_kernel lowpass boxcar bandpass memo int float zip enumerate ValueError len tuple'.split())


def coq_name(node, name):
    if name in PROTECTED:
        fail(node, 'local binding of %r shadows a name the translation relies on' % name)
    if name in RESERVED or not name.isidentifier() or not name.isascii() or name.endswith('_i') or name.startswith(PREFIX) or name.startswith('np_') or name.startswith('nd_') or name.startswith('scipy_'):
        fail(node, 'name %r cannot be used as a Coq identifier here' % name)
    return name


# ----------------------------------------------------------------------------
class Function:
    """translation of one function; `done` = the functions translated before it"""

    def __init__(self, spec, node, done):
        self.spec, self.node, self.done = spec, node, done
        self.name = spec['name']
        self.flags = Flags()
        self.loops = []                 # text of lifted loop definitions
        self.nloops = 0
        self.monadic = any(isinstance(n, ast.Raise) for n in ast.walk(node)) or any(
            isinstance(n, ast.Call) and is_name(n.func) and (n.func.id == 'validate_tuple' or (n.func.id in done and done[n.func.id].monadic))
            for n in ast.walk(node))
        self.image = next((p for p, t in spec['params'] if t == 'arr'), None)
        self.needs_dtype = any(isinstance(n, ast.Attribute) and n.attr == 'dtype' and is_name(n.value, self.image) for n in ast.walk(node)) \
            if self.image else False
        self.params = {p for p, _ in spec['params']}

    # ---- numeric coercions -------------------------------------------------
    def as_num(self, v, node):
        if v.ty == 'num':
            return v.coq
        if v.ty == 'int':
            return qlit(v.lit, node) if v.lit is not None else '(inject_Z %s)' % v.coq
        fail(node, 'a number is expected here, found %s' % (v.ty,))

    def as_int(self, v, node):
        if v.ty == 'int':
            return zlit(v.lit) if v.lit is not None else v.coq
        fail(node, 'an int is expected here, found %s' % (v.ty,))

    def coerce(self, v, want, node):
        if want == 'num':
            return self.as_num(v, node)
        if want == 'int':
            return self.as_int(v, node)
        if isinstance(want, tuple) and want[0] == 'arg':
            if v.ty == want:
                return v.coq
            if v.ty == ('seq', want[1]):
                return '(PySeq %s)' % v.coq
            if v.ty in ('num', 'int'):
                return '(PyScalar %s)' % self.coerce(v, want[1], node)
            fail(node, 'cannot pass %s where a scalar or sequence of %s is expected' % (v.ty, want[1]))
        if isinstance(want, tuple) and want[0] == 'opt':
            if v.ty == want:
                return v.coq
            if v.ty == 'none':
                return 'None'
            return '(Some %s)' % self.coerce(v, want[1], node)
        if v.ty == want:
            return v.coq
        fail(node, 'type %s where %s is expected' % (v.ty, want))

    # ---- expressions -----------------------------------------------------------
    def arrays_in(self, e, env):
        """array / image names read elementwise in e (not under a reduction or an array-level call)"""
        out = []

        def go(x):
            if isinstance(x, ast.Name):
                t = env.get(x.id)
                if (t == 'arr' or (isinstance(t, tuple) and t[0] == 'seq')) and x.id not in out:
                    out.append(x.id)
            elif isinstance(x, ast.BinOp):
                go(x.left), go(x.right)
            elif isinstance(x, ast.UnaryOp):
                go(x.operand)
            elif isinstance(x, ast.Compare):
                go(x.left)
                for c in x.comparators:
                    go(c)
            elif isinstance(x, ast.Call) and (is_np(x.func, 'exp') or is_np(x.func, 'where')):
                for a in x.args:
                    go(a)
        go(e)
        return out

    def rhs(self, e, env, fl):
        """expression at statement level: elementwise reading when it contains an array variable"""
        if isinstance(e, (ast.BinOp, ast.UnaryOp, ast.Compare)) or (isinstance(e, ast.Call) and (is_np(e.func, 'exp') or is_np(e.func, 'where'))):
            arrs = self.arrays_in(e, env)
            if len(arrs) > 1:
                if isinstance(e, ast.Compare) and all(isinstance(env[a], tuple) for a in arrs):
                    fail(e, 'comparison of the sequences %s (tuples compare lexicographically in Python; a per-axis test is a comprehension)' % ', '.join(arrs))
                fail(e, 'elementwise expression over more than one array (%s)' % ', '.join(arrs))
            if len(arrs) == 1:
                v = arrs[0]
                t = env[v]
                vi = v + '_i'
                if vi in env:
                    fail(e, 'name clash on %s' % vi)
                et = 'num' if t == 'arr' else t[1]
                body = self.ex(e, env, fl, {v: (vi, et)})
                if t == 'arr':
                    fl.nd = True
                    return Val('arr', '(nd_map nd (fun %s => %s) %s)' % (vi, self.as_num(body, e), v))
                if body.ty not in ('num', 'int', 'bool'):
                    fail(e, 'unsupported element type %s' % (body.ty,))
                return Val(('seq', body.ty), '(map (fun %s => %s) %s)' % (vi, body.coq if body.lit is None else self.coerce(body, body.ty, e), v))
        return self.ex(e, env, fl, {})

    def ex(self, e, env, fl, elem):
        if isinstance(e, ast.Constant):
            if e.value is None:
                return Val('none', 'None')
            if isinstance(e.value, str):
                return Val('str', strlit(e.value, e))
            if int_const(e):
                return Val('int', zlit(e.value), lit=e.value)
            if isinstance(e.value, float):
                return Val('num', qlit(e.value, e))
            fail(e, 'unsupported constant %r' % (e.value,))
        if isinstance(e, ast.Name):
            if e.id in elem:
                return Val(elem[e.id][1], elem[e.id][0])
            t = env.get(e.id)
            if t is None:
                fail(e, 'unknown name %s' % e.id)
            if elem and (t == 'arr' or (isinstance(t, tuple) and t[0] == 'seq')):
                fail(e, 'array %s inside an elementwise expression over another array' % e.id)
            return Val(t, e.id)
        if isinstance(e, ast.Attribute):
            if e.attr == 'ndim' and is_name(e.value, self.image) and env.get(self.image) == 'arr':
                fl.nd = True
                return Val('nat', '(nd_ndim nd)')
            fail(e, 'unsupported attribute .%s' % e.attr)
        if isinstance(e, ast.UnaryOp):
            if isinstance(e.op, ast.USub):
                if int_const(e.operand):
                    return Val('int', zlit(-e.operand.value), lit=-e.operand.value)
                v = self.ex(e.operand, env, fl, elem)
                if v.ty == 'int':
                    return Val('int', '(Z.opp %s)' % self.as_int(v, e))
                return Val('num', '(- %s)' % self.as_num(v, e))
            if isinstance(e.op, ast.Not):
                v = self.ex(e.operand, env, fl, elem)
                if v.ty != 'bool':
                    fail(e, '`not` on %s (only on a comparison / np.all / np.any)' % (v.ty,))
                return Val('bool', '(negb %s)' % v.coq)
            fail(e, 'unsupported unary operator')
        if isinstance(e, ast.BinOp):
            if isinstance(e.op, ast.Pow):
                if not (int_const(e.right) and 0 <= e.right.value <= 16):
                    fail(e, 'unsupported exponent')
                b = self.ex(e.left, env, fl, elem)
                if b.ty == 'int':
                    return Val('int', '(Z.pow %s %s)' % (self.as_int(b, e), zlit(e.right.value)))
                return Val('num', '(%s ^ %d)' % (self.as_num(b, e), e.right.value))
            a, b = self.ex(e.left, env, fl, elem), self.ex(e.right, env, fl, elem)
            if isinstance(e.op, ast.Add) and a.ty == 'str' and b.ty == 'str':
                return Val('str', '(%s ++ %s)%%string' % (a.coq, b.coq))
            if isinstance(e.op, ast.BitAnd):
                return Val('int', '(Z.land %s %s)' % (self.as_int(a, e), self.as_int(b, e)))
            if isinstance(e.op, ast.Div):
                return Val('num', '(py_div %s %s)' % (self.as_num(a, e), self.as_num(b, e)))
            for k, zf, qf in ((ast.Add, 'Z.add', '+'), (ast.Sub, 'Z.sub', '-'), (ast.Mult, 'Z.mul', '*')):
                if isinstance(e.op, k):
                    if a.ty == 'int' and b.ty == 'int':
                        return Val('int', '(%s %s %s)' % (zf, self.as_int(a, e), self.as_int(b, e)))
                    return Val('num', '(%s %s %s)' % (self.as_num(a, e), qf, self.as_num(b, e)))
            fail(e, 'unsupported binary operator %s' % type(e.op).__name__)
        if isinstance(e, ast.Compare):
            if len(e.ops) != 1:
                fail(e, 'chained comparison')
            a, b = self.ex(e.left, env, fl, elem), self.ex(e.comparators[0], env, fl, elem)
            names = {ast.Gt: 'py_gt', ast.GtE: 'py_ge', ast.Lt: 'py_lt', ast.LtE: 'py_le'}
            for k, f in names.items():
                if isinstance(e.ops[0], k):
                    if a.ty not in ('num', 'int') or b.ty not in ('num', 'int'):
                        fail(e, 'comparison of %s with %s (only numbers; tuples compare lexicographically in Python)' % (a.ty, b.ty))
                    if a.ty == 'int' and b.ty == 'int':
                        return Val('bool', '(%s_int %s %s)' % (f, self.as_int(a, e), self.as_int(b, e)))
                    return Val('bool', '(%s %s %s)' % (f, self.as_num(a, e), self.as_num(b, e)))
            fail(e, 'unsupported comparison %s' % type(e.ops[0]).__name__)
        if isinstance(e, ast.Call):
            return self.call(e, env, fl, elem)
        fail(e, 'unsupported expression %s' % type(e).__name__)

    def listcomp(self, e, env, fl):
        if not (isinstance(e, ast.ListComp) and len(e.generators) == 1):
            fail(e, 'expected a list comprehension with one generator')
        g = e.generators[0]
        if g.ifs or getattr(g, 'is_async', 0):
            fail(e, 'unsupported comprehension')
        it, tg = g.iter, g.target
        env2 = dict(env)
        if is_name(it) and isinstance(env.get(it.id), tuple) and env[it.id][0] == 'seq' and is_name(tg):
            x = coq_name(tg, tg.id)
            env2[x] = env[it.id][1]
            pat, src = x, it.id
        elif isinstance(it, ast.Call) and is_name(it.func, 'zip') and len(it.args) == 2 and not it.keywords \
                and all(is_name(a) and isinstance(env.get(a.id), tuple) and env[a.id][0] == 'seq' for a in it.args) \
                and isinstance(tg, ast.Tuple) and len(tg.elts) == 2 and all(is_name(z) for z in tg.elts) and tg.elts[0].id != tg.elts[1].id:
            x, y = coq_name(tg, tg.elts[0].id), coq_name(tg, tg.elts[1].id)
            env2[x], env2[y] = env[it.args[0].id][1], env[it.args[1].id][1]
            pat, src = "'(%s, %s)" % (x, y), '(py_zip %s %s)' % (it.args[0].id, it.args[1].id)
        else:
            fail(e, 'unsupported comprehension source (a sequence or zip of two sequences)')
        b = self.ex(e.elt, env2, fl, {})
        if b.ty not in ('num', 'int', 'bool'):
            fail(e, 'unsupported comprehension element')
        return Val(('seq', b.ty), '(map (fun %s => %s) %s)' % (pat, self.coerce(b, b.ty, e), src))

    def call(self, e, env, fl, elem):
        f = e.func
        nk = not e.keywords
        if is_name(f, 'int') and len(e.args) == 1 and nk:
            return Val('int', '(py_int %s)' % self.as_num(self.ex(e.args[0], env, fl, elem), e))
        if is_np(f, 'exp') and len(e.args) == 1 and nk:
            fl.exp = True
            return Val('num', '(np_exp %s)' % self.as_num(self.ex(e.args[0], env, fl, elem), e))
        if is_np(f, 'where') and len(e.args) == 3 and nk:
            if not elem:
                fail(e, 'np.where outside an elementwise expression')
            c, a, b = (self.ex(x, env, fl, elem) for x in e.args)
            if c.ty != 'bool':
                fail(e, 'np.where condition is not a comparison')
            return Val('num', '(if %s then %s else %s)' % (c.coq, self.as_num(a, e), self.as_num(b, e)))
        if elem and not is_np(f, 'sum'):
            fail(e, 'unsupported call inside an elementwise expression')
        if is_np(f, 'sum') and len(e.args) == 1 and nk and is_name(e.args[0]) and env.get(e.args[0].id) == ('seq', 'num'):
            return Val('num', '(np_sum %s)' % e.args[0].id)
        if is_np(f, 'arange') and len(e.args) == 2 and nk:
            a, b = (self.ex(x, env, fl, {}) for x in e.args)
            return Val(('seq', 'int'), '(np_arange %s %s)' % (self.as_int(a, e), self.as_int(b, e)))
        if (is_np(f, 'all') or is_np(f, 'any')) and len(e.args) == 1 and nk:
            l = self.listcomp(e.args[0], env, fl)
            if f.attr == 'all' and l.ty == ('seq', 'int'):
                return Val('bool', '(np_all_int %s)' % l.coq)
            if f.attr == 'any' and l.ty == ('seq', 'bool'):
                return Val('bool', '(np_any_bool %s)' % l.coq)
            fail(e, 'np.%s on a list of %s' % (f.attr, l.ty[1]))
        if is_np(f, 'issubdtype') and len(e.args) == 2 and nk and is_np(e.args[1], 'integer') and isinstance(e.args[0], ast.Attribute) \
                and e.args[0].attr == 'dtype' and is_name(e.args[0].value, self.image) and env.get(self.image) == 'arr':
            return Val('bool', '(np_issubdtype_integer image_dtype)')
        if is_np(f, 'array') and len(e.args) == 1 and is_name(e.args[0]) and env.get(e.args[0].id) == 'arr' and len(e.keywords) == 1 \
                and e.keywords[0].arg == 'dtype' and is_name(e.keywords[0].value, 'float'):
            return Val('arr', '(np_array_float %s)' % e.args[0].id, lit='fresh')
        if isinstance(f, ast.Attribute) and f.attr == 'copy' and is_name(f.value) and env.get(f.value.id) == 'arr' and not e.args and nk:
            return Val('arr', '(np_copy %s)' % f.value.id, lit='fresh')
        if is_name(f, 'validate_tuple') and len(e.args) == 2 and nk:
            v = self.ex(e.args[0], env, fl, {})
            n = self.ex(e.args[1], env, fl, {})
            if n.ty != 'nat':
                fail(e, 'validate_tuple: the second argument must be image.ndim')
            if isinstance(v.ty, tuple) and v.ty[0] == 'seq':
                v = Val(('arg', v.ty[1]), '(PySeq %s)' % v.coq)
            if not (isinstance(v.ty, tuple) and v.ty[0] == 'arg'):
                fail(e, 'validate_tuple on %s' % (v.ty,))
            return Val(('seq', v.ty[1]), '(validate_tuple %s %s)' % (v.coq, n.coq), lit='monadic')
        if is_name(f) and f.id in self.done:
            g = self.done[f.id]
            ps = g.spec['params']
            if not nk or len(e.args) != len(ps):
                fail(e, '%s must be called with its %d positional arguments' % (f.id, len(ps)))
            args = []
            for a, (pn, pt) in zip(e.args, ps):
                v = self.ex(a, env, fl, {})
                if pt == 'arr' and g.needs_dtype:
                    if not (is_name(a, self.image) and self.needs_dtype):
                        fail(e, '%s reads image.dtype: pass the image parameter itself' % f.id)
                    args += [v.coq, 'image_dtype']
                else:
                    args.append(self.coerce(v, pt, a))
            fl.merge(g.flags)
            head = PREFIX + f.id + (' nd' if g.flags.nd else '') + (' np_exp' if g.flags.exp else '')
            return Val(g.spec['ret'], '(%s %s)' % (head, ' '.join(args)), lit='monadic' if g.monadic else ('fresh' if g.spec['ret'] == 'arr' else None))
        fail(e, 'unsupported call')

    # ---- statements ------------------------------------------------------------
    def assigned(self, stmts):
        out = []

        def add(n):
            if n not in out:
                out.append(n)
        for s in stmts:
            if isinstance(s, ast.Assign) and len(s.targets) == 1 and is_name(s.targets[0]):
                add(s.targets[0].id)
            elif isinstance(s, ast.AugAssign) and is_name(s.target):
                add(s.target.id)
            elif isinstance(s, ast.If):
                for n in self.assigned(s.body) + self.assigned(s.orelse):
                    add(n)
            elif isinstance(s, ast.Expr) and isinstance(s.value, ast.Call):
                for k in s.value.keywords:
                    if k.arg == 'output' and is_name(k.value):
                        add(k.value.id)
            elif isinstance(s, ast.For):
                for n in self.assigned(s.body):
                    add(n)
        return out

    def inplace_filter(self, s, env, owned, fl):
        """correlate1d / uniform_filter1d with output=<first argument>: (name, term) or None"""
        c = s.value
        if not (isinstance(c, ast.Call) and is_name(c.func) and c.func.id in ('correlate1d', 'uniform_filter1d')):
            return None
        kw = {}
        for k in c.keywords:
            if k.arg is None or k.arg in kw:
                fail(s, 'unsupported keyword arguments')
            kw[k.arg] = k.value
        if len(c.args) != 3 or set(kw) != {'output', 'mode', 'cval'}:
            fail(s, '%s: expected (input, <weights | size>, axis, output=input, mode=.., cval=..)' % c.func.id)
        r = c.args[0]
        if not (is_name(r) and env.get(r.id) == 'arr' and is_name(kw['output'], r.id)):
            fail(s, '%s: input and output must be the same array variable' % c.func.id)
        if r.id not in owned:
            fail(s, '%s filters %s in place, which is not a new local array (the caller\'s image would be modified)' % (c.func.id, r.id))
        ax = self.ex(c.args[2], env, fl, {})
        if ax.ty != 'nat':
            fail(s, '%s: the axis must be the index of the enumerate loop' % c.func.id)
        mode = kw['mode']
        if not (isinstance(mode, ast.Constant) and isinstance(mode.value, str)):
            fail(s, 'mode is not a string literal')
        fl.nd = True
        if c.func.id == 'correlate1d':
            if mode.value != 'constant' or not (num_const(kw['cval']) and kw['cval'].value == 0):
                fail(s, "correlate1d: only mode='constant', cval=0.0 is a known primitive")
            w = self.ex(c.args[1], env, fl, {})
            if w.ty != ('seq', 'num'):
                fail(s, 'correlate1d: weights are not a 1-D float array')
            return r.id, '(scipy_correlate1d_constant0 nd %s %s %s)' % (r.id, w.coq, ax.coq)
        if mode.value != 'nearest' or not num_const(kw['cval']):
            fail(s, "uniform_filter1d: only mode='nearest' is a known primitive")
        n = self.ex(c.args[1], env, fl, {})
        return r.id, '(scipy_uniform_filter1d_nearest nd %s %s %s)' % (r.id, self.as_int(n, s), ax.coq)

    def raise_msg(self, s, env, fl):
        x = s.exc
        if not (s.cause is None and isinstance(x, ast.Call) and is_name(x.func, 'ValueError') and len(x.args) == 1 and not x.keywords):
            fail(s, 'expected `raise ValueError(<message>)`')
        m = self.ex(x.args[0], env, fl, {})
        if m.ty != 'str':
            fail(s, 'the exception message is not a string literal')
        return m.coq

    def tuple_of(self, names):
        return names[0] if len(names) == 1 else '(%s)' % ', '.join(names)

    def pat_of(self, names):
        return names[0] if len(names) == 1 else "'(%s)" % ', '.join(names)

    def block(self, stmts, env, owned, fl, ind, tail, top, want=None):
        """lines for stmts followed by tail(env); top: function level (bind / raise / return / for allowed)"""
        want = want or {}
        pad = '  ' * ind
        out = []
        for k, s in enumerate(stmts):
            rest = stmts[k + 1:]
            if isinstance(s, ast.Assign) and len(s.targets) == 1 and is_name(s.targets[0]):
                x = coq_name(s, s.targets[0].id)
                if env.get(x) == 'arr' and x in self.params:
                    fail(s, 'assignment to the image parameter %s' % x)
                if env.get(x) == 'nat':
                    fail(s, 'assignment to the loop index %s' % x)
                v = self.rhs(s.value, env, fl)
                if v.lit == 'monadic':
                    if not top:
                        fail(s, 'a call that may raise inside a branch or loop')
                    env[x] = v.ty
                    if v.ty == 'arr':
                        owned.add(x)
                    out.append('%sbind %s (fun %s =>' % (pad, v.coq, x))
                    sub = self.block(rest, env, owned, fl, ind, tail, top, want)
                    sub[-1] += ')'
                    return out + sub
                if v.ty in ('none', 'str', 'nat', 'dtype'):
                    fail(s, 'unsupported value of type %s in an assignment' % (v.ty,))
                ty = want.get(x, v.ty)
                term = self.coerce(v, ty, s)
                env[x] = ty
                if v.lit == 'fresh':
                    owned.add(x)
                else:
                    owned.discard(x)
                out.append('%slet %s := %s in' % (pad, x, term))
            elif isinstance(s, ast.AugAssign) and is_name(s.target) and isinstance(s.op, ast.Sub) and is_name(s.value):
                r, b = s.target.id, s.value.id
                if not (env.get(r) == 'arr' and env.get(b) == 'arr' and r != b):
                    fail(s, '`-=` is only supported between two arrays')
                if r not in owned:
                    fail(s, '%s -= .. modifies an array that is not a new local array' % r)
                fl.nd = True
                out.append('%slet %s := (nd_map2 nd (fun %s_i %s_i => (%s_i - %s_i)) %s %s) in' % (pad, r, r, b, r, b, r, b))
            elif isinstance(s, ast.Expr) and self.inplace_filter(s, env, owned, Flags()) is not None:
                r, term = self.inplace_filter(s, env, owned, fl)
                out.append('%slet %s := %s in' % (pad, r, term))
            elif isinstance(s, ast.If):
                t = s.test
                # if x is None: <assign x>
                if isinstance(t, ast.Compare) and len(t.ops) == 1 and isinstance(t.ops[0], ast.Is) and is_name(t.left) \
                        and isinstance(t.comparators[0], ast.Constant) and t.comparators[0].value is None:
                    x = t.left.id
                    ty = env.get(x)
                    if not (isinstance(ty, tuple) and ty[0] == 'opt') or s.orelse:
                        fail(s, '`is None` is only supported on an optional parameter, without else')
                    if self.assigned(s.body) != [x]:
                        fail(s, 'the `if %s is None` block must assign %s only' % (x, x))
                    inner = dict(env)
                    inner[x] = 'none'
                    body = self.block(s.body, inner, set(owned), fl, ind + 2, lambda en: self.var_tail(s, en, [x], {x: ty[1]}, ind + 2), False, {x: ty[1]})
                    out.append('%slet %s :=' % (pad, x))
                    out.append('%s  match %s with' % (pad, x))
                    out.append('%s  | None =>' % pad)
                    out += body
                    out.append('%s  | Some %s => %s' % (pad, x, x))
                    out.append('%s  end in' % pad)
                    env[x] = ty[1]
                    continue
                c = self.rhs(t, env, fl)
                if c.ty != 'bool':
                    fail(s, 'the condition is not a comparison / np.all / np.any (truthiness of %s is outside the subset)' % (c.ty,))
                # if c: raise
                if len(s.body) == 1 and isinstance(s.body[0], ast.Raise) and not s.orelse:
                    if not top:
                        fail(s, 'raise inside a branch or loop')
                    out.append('%sif %s then RaiseValueError %s else' % (pad, c.coq, self.raise_msg(s.body[0], env, fl)))
                    continue
                live = [n for n in self.assigned(s.body) + self.assigned(s.orelse) if n in env or n in want]
                exported = []
                for n in live:
                    if n not in exported:
                        exported.append(n)
                if not exported:
                    fail(s, 'an `if` that assigns no live variable')
                types = {n: want.get(n, env.get(n)) for n in exported}
                for n in exported:
                    if types[n] == 'int':
                        # an int variable may be assigned a float in a branch: not followed
                        pass
                branches = []
                owned_after = set(owned)
                for blk in (s.body, s.orelse):
                    inner, ow = dict(env), set(owned)
                    lines = self.block(blk, inner, ow, fl, ind + 2, lambda en: self.var_tail(s, en, exported, types, ind + 2), False, dict(want, **types))
                    owned_after &= ow
                    branches.append(lines)
                out.append('%slet %s :=' % (pad, self.pat_of(exported)))
                out.append('%s  if %s then' % (pad, c.coq))
                out += branches[0]
                out.append('%s  else' % pad)
                out += branches[1]
                out[-1] += ' in'
                for n in exported:
                    env[n] = types[n]
                owned.intersection_update(owned_after)
            elif isinstance(s, ast.For):
                if not top:
                    fail(s, 'nested loop')
                out += self.loop(s, env, owned, fl, ind)
            elif isinstance(s, ast.Raise):
                if not top or rest:
                    fail(s, 'unsupported raise')
                out.append('%sRaiseValueError %s' % (pad, self.raise_msg(s, env, fl)))
                return out
            elif isinstance(s, ast.Return):
                if not top or rest or s.value is None:
                    fail(s, 'return is only supported as the last statement of the function')
                v = self.rhs(s.value, env, fl)
                term = self.coerce(v, self.spec['ret'], s)
                if v.lit == 'monadic':
                    fail(s, 'return of a call that may raise')
                out.append('%s%s' % (pad, ('Ret %s' % term) if self.monadic else term))
                return out
            else:
                fail(s, 'unsupported statement %s' % type(s).__name__)
        if tail is None:
            fail(self.node, '%s: control reaches the end without return' % self.name)
        return out + tail(env)

    def var_tail(self, node, env, names, types, ind):
        for n in names:
            if env.get(n) != types[n]:
                fail(node, '%s is not assigned a %s on every path' % (n, types[n]))
        return ['%s%s' % ('  ' * ind, self.tuple_of(names))]

    def loop(self, s, env, owned, fl, ind):
        pad = '  ' * ind
        it, tg = s.iter, s.target
        ok = not s.orelse and isinstance(it, ast.Call) and is_name(it.func, 'enumerate') and len(it.args) == 1 and not it.keywords \
            and is_name(it.args[0]) and isinstance(env.get(it.args[0].id), tuple) and env[it.args[0].id][0] == 'seq' \
            and isinstance(tg, ast.Tuple) and len(tg.elts) == 2 and all(is_name(z) for z in tg.elts) and tg.elts[0].id != tg.elts[1].id
        if not ok:
            fail(s, 'expected `for <index>, <item> in enumerate(<sequence>):`')
        seq = it.args[0].id
        et = env[seq][1]
        i, v = coq_name(tg, tg.elts[0].id), coq_name(tg, tg.elts[1].id)
        if i in env or v in env:
            fail(s, 'loop variables shadow another variable')
        state = self.assigned(s.body)
        if not state or any(n not in env for n in state):
            fail(s, 'the loop body must update variables that exist before the loop (found %s)' % (state,))
        if seq in state:
            fail(s, 'the loop modifies the sequence it iterates over')
        types = {n: env[n] for n in state}
        inner = dict(env)
        inner[i], inner[v] = 'nat', et
        lfl = Flags()
        body = self.block(s.body, inner, set(owned), lfl, 1, lambda en: self.var_tail(s, en, state, types, 1), False, dict(types))
        # free variables of the body, in order of first occurrence
        free = []
        for n in ast.walk(ast.Module(body=s.body, type_ignores=[])):
            if isinstance(n, ast.Name) and n.id in env and n.id not in state and n.id not in free and n.id != self.image:
                free.append(n.id)
        if any(isinstance(n, ast.Name) and n.id == self.image for b in s.body for n in ast.walk(b)):
            fail(s, 'the loop body reads the image parameter')
        self.nloops += 1
        lname = '%s%s_loop%d' % (PREFIX, self.name, self.nloops)
        head = '%s%s%s' % ((' {A} (nd : ndarray A)' if lfl.nd else ''), (' (np_exp : Q -> Q)' if lfl.exp else ''),
                           ''.join(' (%s : %s)' % (n, coq_ty(env[n])) for n in free))
        st_ty = ' * '.join(coq_ty_atom(types[n]) for n in state)
        d = ['(* %s line %d: body of `%s` *)' % (self.name, s.lineno, ast.unparse(s).split('\n')[0]),
             'Definition %s%s (st : %s) (it : nat * %s) : %s :=' % (lname, head, st_ty, coq_ty_atom(et), st_ty),
             "  let %s := st in" % self.pat_of(state),
             "  let '(%s, %s) := it in" % (i, v)]
        d += body
        d[-1] += '.'
        self.loops.append('\n'.join(d))
        fl.merge(lfl)
        call = lname + (' nd' if lfl.nd else '') + (' np_exp' if lfl.exp else '') + ''.join(' ' + n for n in free)
        return ['%slet %s := fold_left (%s) (py_enumerate %s) %s in' % (pad, self.pat_of(state), call, seq, self.tuple_of(state))]

    # ---- whole function ---------------------------------------------------------
    def run(self):
        fn, spec = self.node, self.spec
        a = fn.args
        if a.vararg or a.kwarg or a.kwonlyargs or getattr(a, 'posonlyargs', []):
            fail(fn, '%s: unsupported signature' % self.name)
        names = [x.arg for x in a.args]
        if names != [p for p, _ in spec['params']]:
            fail(fn, '%s: expected the parameters (%s), found (%s)' % (self.name, ', '.join(p for p, _ in spec['params']), ', '.join(names)))
        decos = [d.id if isinstance(d, ast.Name) else '?' for d in fn.decorator_list]
        if decos != spec['decorators']:
            fail(fn, '%s: decorators %r (expected %r)' % (self.name, decos, spec['decorators']))
        for n in ast.walk(fn):
            if isinstance(n, (ast.Global, ast.Nonlocal, ast.Lambda, ast.FunctionDef, ast.ClassDef, ast.Yield, ast.YieldFrom, ast.Await,
                              ast.Try, ast.With, ast.While, ast.Delete, ast.Starred, ast.NamedExpr)) and n is not fn:
                fail(n, 'unsupported construct %s' % type(n).__name__)
        env = {}
        for p, t in spec['params']:
            env[coq_name(fn, p)] = t
        defaults = [None] * (len(names) - len(a.defaults)) + list(a.defaults)
        out = []
        fl0 = Flags()
        for (p, t), d in zip(spec['params'], defaults):
            if d is None:
                continue
            v = self.ex(d, {}, fl0, {})
            out.append('Definition %s%s_default_%s : %s := %s.' % (PREFIX, self.name, p, coq_ty(t), self.coerce(v, t, d)))
        body = self.block(body_wo_doc(fn), env, set(), self.flags, 1, None, True)
        body[-1] += '.'
        params = []
        for p, t in spec['params']:
            params.append('(%s : %s)' % (p, coq_ty(t)))
            if t == 'arr' and self.needs_dtype:
                params.append('(image_dtype : np_dtype)')
        head = '%s%s' % ((' {A} (nd : ndarray A)' if self.flags.nd else ''), (' (np_exp : Q -> Q)' if self.flags.exp else ''))
        if self.image and not self.flags.nd:
            fail(fn, '%s: the image is never used' % self.name)
        ret = coq_ty(spec['ret'])
        if self.monadic:
            ret = 'pyres %s' % coq_ty_atom(spec['ret'])
        text = []
        for l in self.loops:
            text += [l, '']
        text.append('(* trackpy/%s.py line %d: %s(%s)%s *)' % (spec['module'], fn.lineno, self.name, ast.unparse(a), '   [@memo: read as transparent]' if decos else ''))
        text += out
        text.append('Definition %s%s%s %s : %s :=' % (PREFIX, self.name, head, ' '.join(params), ret))
        text += body
        return '\n'.join(text)


# ----------------------------------------------------------------------------
def check_module(tree, module, wanted):
    """top-level discipline: each wanted def exactly once, imports bind the primitives, nothing rebinds them"""
    defs = {}
    bound = {}
    watch = set(wanted) | set(IMPORTS[module]) | {'np'}
    for n in tree.body:
        if isinstance(n, (ast.FunctionDef, ast.ClassDef, ast.AsyncFunctionDef)):
            if n.name in watch:
                if n.name in defs or n.name in bound:
                    raise TranslationError('%s.py: %s is bound twice at module level' % (module, n.name))
                if not isinstance(n, ast.FunctionDef):
                    raise TranslationError('%s.py: %s is not a plain function' % (module, n.name))
                defs[n.name] = n
        elif isinstance(n, ast.Import):
            for al in n.names:
                nm = al.asname or al.name.split('.')[0]
                if nm in watch:
                    if nm != 'np' or al.name != 'numpy' or nm in bound:
                        raise TranslationError('%s.py line %d: import rebinds %s' % (module, n.lineno, nm))
                    bound[nm] = ('numpy', 0)
        elif isinstance(n, ast.ImportFrom):
            for al in n.names:
                nm = al.asname or al.name
                if nm in watch or al.name == '*':
                    if al.name == '*' or nm in bound or nm in defs or al.asname not in (None, al.name):
                        raise TranslationError('%s.py line %d: import rebinds %s' % (module, n.lineno, nm))
                    bound[nm] = (n.module, n.level)
        else:
            # any other top-level statement (also inside try/if blocks) must not bind a watched name
            for m in ast.walk(n):
                nm = None
                if isinstance(m, ast.Name) and isinstance(m.ctx, (ast.Store, ast.Del)):
                    nm = m.id
                elif isinstance(m, (ast.FunctionDef, ast.ClassDef, ast.AsyncFunctionDef)):
                    nm = m.name
                elif isinstance(m, ast.alias):
                    nm = m.asname or m.name.split('.')[0]
                    if m.name == '*':
                        raise TranslationError('%s.py: star import' % module)
                if nm in watch:
                    raise TranslationError('%s.py line %s: %s is rebound at module level' % (module, getattr(m, 'lineno', getattr(n, 'lineno', '?')), nm))
    for w in wanted:
        if w not in defs:
            raise TranslationError('%s.py: function %s not found' % (module, w))
    if bound.get('np') != ('numpy', 0):
        raise TranslationError('%s.py: `import numpy as np` not found' % module)
    for nm, src in IMPORTS[module].items():
        if bound.get(nm) != src:
            raise TranslationError('%s.py: %s is not imported from %s%s (found %r)' % (module, nm, '.' * src[1], src[0], bound.get(nm)))
    return defs


def normal_dump(fn):
    f = ast.FunctionDef(name=fn.name, args=fn.args, body=body_wo_doc(fn), decorator_list=fn.decorator_list, returns=fn.returns,
                        type_comment=None, lineno=0, col_offset=0)
    try:
        f.type_params = []
    except Exception:        # noqa
        pass
    return ast.dump(f, annotate_fields=True, include_attributes=False)


def translate(repo):
    trees = {}
    for module in ('preprocessing', 'masks', 'utils'):
        path = os.path.join(repo, 'trackpy', module + '.py')
        trees[module] = ast.parse(open(path).read())
    defs = {}
    defs.update(check_module(trees['preprocessing'], 'preprocessing', [s['name'] for s in SPECS if s['module'] == 'preprocessing']))
    defs.update(check_module(trees['masks'], 'masks', [s['name'] for s in SPECS if s['module'] == 'masks']))
    # utils.validate_tuple: pinned
    vt = [n for n in ast.walk(trees['utils']) if isinstance(n, (ast.FunctionDef, ast.ClassDef)) and n.name == 'validate_tuple']
    stores = [n for n in ast.walk(trees['utils']) if isinstance(n, ast.Name) and n.id == 'validate_tuple' and isinstance(n.ctx, ast.Store)]
    if len(vt) != 1 or vt[0] not in trees['utils'].body or stores or not isinstance(vt[0], ast.FunctionDef):
        raise TranslationError('utils.py: validate_tuple is not defined exactly once at module level')
    pinned = ast.parse(PINNED_VALIDATE_TUPLE).body[0]
    if normal_dump(vt[0]) != normal_dump(pinned):
        raise TranslationError('utils.py line %d: validate_tuple differs from the pinned definition the primitive [validate_tuple] stands for' % vt[0].lineno)
    done = {}
    parts = []
    for spec in SPECS:
        f = Function(spec, defs[spec['name']], done)
        parts.append(f.run())
        done[spec['name']] = f
    out = ['(* GENERATED by tools/py2coq_preproc.py from trackpy/preprocessing.py and trackpy/masks.py -- do not edit.',
           '   gaussian_kernel, lowpass, boxcar, bandpass statement by statement; see the translator for the subset,',
           '   Model/PyPreproc.v for the vocabulary (named primitives: validate_tuple, correlate1d mode=constant cval=0,',
           '   uniform_filter1d mode=nearest, np.exp as the parameter np_exp).  nd : the n-D array interface of the image',
           '   type A (nd2 / nd3); image_dtype stands for image.dtype. *)',
           'From Coq Require Import ZArith QArith List Bool String.',
           'From TP Require Import Model.Bandpass Model.PyPreproc.',
           'Import ListNotations.',
           'Open Scope Q_scope.',
           '']
    return '\n'.join(out) + '\n' + '\n\n'.join(parts) + '\n'


def main():
    ap = argparse.ArgumentParser()
    ap.add_argument('--repo', default=os.environ.get('TRACKPY_REPO', '/repo'))
    ap.add_argument('--out', default=os.path.join(os.path.dirname(os.path.dirname(os.path.abspath(__file__))), 'coq', 'Gen', 'preproc.v'))
    ap.add_argument('--stdout', action='store_true')
    a = ap.parse_args()
    try:
        text = translate(a.repo)
    except TranslationError as e:
        sys.stderr.write('py2coq_preproc: TRANSLATION ERROR: %s\n' % e)
        sys.exit(2)
    except (OSError, SyntaxError, RecursionError) as e:
        sys.stderr.write('py2coq_preproc: TRANSLATION ERROR: cannot read / parse the source: %s\n' % e)
        sys.exit(2)
    if a.stdout:
        sys.stdout.write(text)
        return
    old = open(a.out).read() if os.path.exists(a.out) else None
    if old != text:
        os.makedirs(os.path.dirname(a.out), exist_ok=True)
        tmp = a.out + '.tmp%d' % os.getpid()
        with open(tmp, 'w') as f:
            f.write(text)
        os.replace(tmp, a.out)
        print('py2coq_preproc: wrote %s (changed)' % a.out)
    else:
        print('py2coq_preproc: %s up to date' % a.out)


if __name__ == '__main__':
    main()
