#!/usr/bin/env python3
"""Fail-closed translator (route T) for C07.

Reads  $TRACKPY_REPO/trackpy/refine/center_of_mass.py  (default /repo) with the
Python `ast` module and regenerates  /verif/coq/Gen/com_kernels.v : the four
numba kernels

    _numba_refine_2D, _numba_refine_2D_c, _numba_refine_2D_c_a, _numba_refine_3D

as Coq functions over Z / Q (vocabulary: coq/Model/PyKernel.v).  The Python
function `_f` becomes `f` (leading underscore dropped); every `for` loop body
is lambda-lifted into its own definition `f_loop<k>` (k = order of appearance),
whose arguments are the variables it reads, the loop index, and the tuple of
the variables it assigns (the loop state).

Translated subset (anything else: exit status 2, nothing written):

  statements   x = e ; x += e ; x -= e ; x /= e ; results[i, k] = e ;
               results[i, k] = np.sqrt(e) ; pass ; if / elif / else ;
               `for v in range(e):` ; `if c: break` as a direct statement of a
               loop body ; a final `return 0`
  expressions  names, int / float literals, + - * / unary -, a[i] a[i,j]
               a[i,j,k] on the array parameters, abs(e), int(round(e)) on an
               integer e (identity), comparisons < > <= >= ==, `and`, `not`
  types        Z (integers: pixels, coordinates, mask offsets / weights),
               Q (Python floats, exact), bool; a variable's type is that of
               its first assignment (a Q variable may later receive a Z value,
               coerced by inject_Z; the converse is an error); parameter types
               come from the table PARAMS below (unknown parameter: error).

Conventions (all visible in the generated text):
  * floats are exact rationals; `0.` is 0%Q; Z meets Q through inject_Z;
  * every division is guarded: the statement containing x / y becomes
    `if Qeq_bool y 0 then DivZero else ...` (numba: ZeroDivisionError / nan);
  * a variable that Python would find unbound (assigned only inside a loop or
    branch that did not run) is pre-bound to 0 where a loop / if state tuple
    needs it: UnboundLocalError is not modelled (refine_com_arr raises
    max_iterations to >= 1);
  * a loop index is visible in its loop body only (use after the loop: error);
  * ecc is not modelled: assignments to the names in SLICED and to
    results[.., ECC_COL] are dropped, and it is an ERROR if any remaining
    statement mentions one of these names (so nothing translated depends on them).

Usage:  py2coq_com.py [--repo /repo] [--out /verif/coq/Gen/com_kernels.v] [--stdout]
"""
import ast, sys, os, argparse
from fractions import Fraction

KERNELS = ['_numba_refine_2D', '_numba_refine_2D_c', '_numba_refine_2D_c_a', '_numba_refine_3D']

# parameter name -> type.  Z, Q, B scalars; A1/A2/A3 integer arrays of that rank;
# QA1 rational vector (only the sliced cos/sin masks); R the results array
PARAMS = {
    'image': None, 'raw_image': None,          # rank = number of radius parameters
    'radiusZ': 'Z', 'radiusY': 'Z', 'radiusX': 'Z', 'shapeZ': 'Z', 'shapeY': 'Z', 'shapeX': 'Z',
    'coords': 'A2', 'N': 'Z', 'max_iterations': 'Z', 'N_mask': 'Z', 'shift_thresh': 'Q', 'characterize': 'B',
    'maskZ': 'A1', 'maskY': 'A1', 'maskX': 'A1', 'r2_mask': 'A1', 'z2_mask': 'A1', 'y2_mask': 'A1', 'x2_mask': 'A1',
    'cmask': 'QA1', 'smask': 'QA1', 'results': 'R',
}
SLICED = ['ecc1', 'ecc2', 'cmask', 'smask', 'center_px', 'ECC_COL']
COQTYPE = {'Z': 'Z', 'Q': 'Q', 'B': 'bool', 'A1': 'list Z', 'A2': 'list (list Z)', 'A3': 'list (list (list Z))',
           'QA1': 'list Q', 'R': 'list (list cell)'}
DEFAULT = {'Z': '0', 'Q': '0%Q', 'B': 'false'}
RENAME = {'N': 'N_'}          # Python names that would shadow a Coq global we use


class TranslationError(Exception):
    pass


def fail(node, msg):
    raise TranslationError('line %s: %s' % (getattr(node, 'lineno', '?'), msg))


def cn(name):
    return RENAME.get(name, name)


def is_np(e, attr):
    return isinstance(e, ast.Attribute) and e.attr == attr and isinstance(e.value, ast.Name) and e.value.id == 'np'


def names_in(node):
    return {n.id for n in ast.walk(node) if isinstance(n, ast.Name)}


def is_break_if(s):
    return isinstance(s, ast.If) and len(s.body) == 1 and isinstance(s.body[0], ast.Break) and not s.orelse


def assigned(stmts):
    """names assigned by a statement list (nested too), in order of first assignment; loop indices excluded"""
    out = []

    def add(n):
        if n not in out:
            out.append(n)

    def walk(ss):
        for s in ss:
            if isinstance(s, ast.Assign):
                t = s.targets[0]
                if isinstance(t, ast.Name):
                    add(t.id)
                elif isinstance(t, ast.Subscript) and isinstance(t.value, ast.Name):
                    add(t.value.id)
            elif isinstance(s, ast.AugAssign) and isinstance(s.target, ast.Name):
                add(s.target.id)
            elif isinstance(s, ast.If):
                walk(s.body); walk(s.orelse)
            elif isinstance(s, ast.For):
                walk(s.body)
    walk(stmts)
    return out


def loop_indices(stmts):
    out = set()
    for s in stmts:
        for n in ast.walk(s):
            if isinstance(n, ast.For) and isinstance(n.target, ast.Name):
                out.add(n.target.id)
    return out


def has_div(stmts):
    for s in stmts:
        for n in ast.walk(s):
            if isinstance(n, ast.Div):
                return True
    return False


def has_break(stmts):
    return any(isinstance(n, ast.Break) for s in stmts for n in ast.walk(s))


class Kernel:
    def __init__(self, fdef):
        self.f = fdef
        self.name = fdef.name.lstrip('_')
        a = fdef.args
        if a.vararg or a.kwarg or a.kwonlyargs or a.defaults or getattr(a, 'posonlyargs', []):
            fail(fdef, 'unsupported signature')
        self.params = [x.arg for x in a.args]
        if len(set(self.params)) != len(self.params):
            fail(fdef, 'duplicate parameter')
        rank = len([p for p in self.params if p.startswith('radius')])
        if rank not in (2, 3):
            fail(fdef, 'expected 2 or 3 radius parameters')
        self.types = {}
        for p in self.params:
            if p not in PARAMS:
                fail(fdef, 'unknown parameter %s' % p)
            self.types[p] = PARAMS[p] or 'A%d' % rank
        if 'results' not in self.params:
            fail(fdef, 'no results parameter')
        self.order = list(self.params)      # all variable names in order of appearance
        self.defs = []                      # lifted loop definitions
        self.nloop = 0
        self.divs = []

    # ---------------- slicing ----------------
    def slice_block(self, stmts):
        out = []
        for s in stmts:
            if isinstance(s, ast.Assign) and len(s.targets) == 1:
                t = s.targets[0]
                if isinstance(t, ast.Name) and t.id in SLICED:
                    continue
                if isinstance(t, ast.Subscript) and isinstance(t.value, ast.Name) and t.value.id == 'results' \
                        and isinstance(t.slice, ast.Tuple) and len(t.slice.elts) == 2 \
                        and isinstance(t.slice.elts[1], ast.Name) and t.slice.elts[1].id == 'ECC_COL':
                    continue
            if isinstance(s, ast.AugAssign) and isinstance(s.target, ast.Name) and s.target.id in SLICED:
                continue
            if isinstance(s, ast.If):
                s = ast.copy_location(ast.If(test=s.test, body=self.slice_block(s.body) or [ast.copy_location(ast.Pass(), s)],
                                             orelse=self.slice_block(s.orelse)), s)
            elif isinstance(s, ast.For):
                s = ast.copy_location(ast.For(target=s.target, iter=s.iter, body=self.slice_block(s.body) or [ast.copy_location(ast.Pass(), s)],
                                              orelse=s.orelse, type_comment=None), s)
            out.append(s)
        return out

    # ---------------- expressions ----------------
    def toq(self, t):
        s, ty = t
        if ty == 'Q':
            return s
        if ty == 'Z':
            return '(inject_Z %s)' % s
        raise TranslationError('boolean used as a number')

    def ex(self, e, bound):
        """-> (coq text, type in Z/Q/B); bound = names readable here (None: typing pre-pass, no check)"""
        if isinstance(e, ast.Constant):
            v = e.value
            if isinstance(v, bool) or not isinstance(v, (int, float)):
                fail(e, 'unsupported constant %r' % (v,))
            if isinstance(v, int):
                return ('%d' % v if v >= 0 else '(%d)' % v), 'Z'
            if v != v or v in (float('inf'), float('-inf')):
                fail(e, 'non-finite constant')
            f = Fraction(v)
            if f.denominator == 1 and f >= 0:
                return '%d%%Q' % f.numerator, 'Q'
            return '(%d # %d)%%Q' % (f.numerator, f.denominator), 'Q'
        if isinstance(e, ast.Name):
            if e.id not in self.types:
                fail(e, 'unknown name %s' % e.id)
            if bound is not None and e.id not in bound:
                fail(e, 'name %s is read where it is not bound' % e.id)
            ty = self.types[e.id]
            if ty not in ('Z', 'Q', 'B'):
                fail(e, 'array %s used as a scalar' % e.id)
            return cn(e.id), ty
        if isinstance(e, ast.Subscript):
            if not isinstance(e.value, ast.Name) or e.value.id not in self.types:
                fail(e, 'unsupported subscript')
            if bound is not None and e.value.id not in bound:
                fail(e, 'name %s is read where it is not bound' % e.value.id)
            ty = self.types[e.value.id]
            if ty not in ('A1', 'A2', 'A3'):
                fail(e, '%s is not an integer array' % e.value.id)
            rank = int(ty[1])
            idx = e.slice.elts if isinstance(e.slice, ast.Tuple) else [e.slice]
            if len(idx) != rank:
                fail(e, '%s indexed with %d indices, rank is %d' % (e.value.id, len(idx), rank))
            parts = []
            for i in idx:
                if isinstance(i, (ast.Slice, ast.Starred)):
                    fail(e, 'slices are not supported')
                s, t = self.ex(i, bound)
                if t != 'Z':
                    fail(i, 'non-integer index')
                parts.append(s)
            return '(get%d %s %s)' % (rank, cn(e.value.id), ' '.join(parts)), 'Z'
        if isinstance(e, ast.UnaryOp):
            if isinstance(e.op, ast.USub):
                s, t = self.ex(e.operand, bound)
                if t == 'B':
                    fail(e, 'negated boolean')
                return '(- %s)%%%s' % (s, t), t
            if isinstance(e.op, ast.Not):
                s, t = self.ex(e.operand, bound)
                if t != 'B':
                    fail(e, '`not` of a non-boolean')
                return '(negb %s)' % s, 'B'
            fail(e, 'unsupported unary operator')
        if isinstance(e, ast.BinOp):
            a, b = self.ex(e.left, bound), self.ex(e.right, bound)
            if 'B' in (a[1], b[1]):
                fail(e, 'arithmetic on a boolean')
            if isinstance(e.op, ast.Div):
                d = self.toq(b)
                self.divs.append(d)
                return '(%s / %s)%%Q' % (self.toq(a), d), 'Q'
            for k, s in ((ast.Add, '+'), (ast.Sub, '-'), (ast.Mult, '*')):
                if isinstance(e.op, k):
                    if a[1] == 'Z' and b[1] == 'Z':
                        return '(%s %s %s)%%Z' % (a[0], s, b[0]), 'Z'
                    return '(%s %s %s)%%Q' % (self.toq(a), s, self.toq(b)), 'Q'
            fail(e, 'unsupported binary operator %s' % type(e.op).__name__)
        if isinstance(e, ast.Compare):
            if len(e.ops) != 1:
                fail(e, 'chained comparison')
            a, b = self.ex(e.left, bound), self.ex(e.comparators[0], bound)
            if 'B' in (a[1], b[1]):
                fail(e, 'comparison of booleans')
            op = e.ops[0]
            if a[1] == 'Z' and b[1] == 'Z':
                for k, s in ((ast.Lt, '<?'), (ast.Gt, '>?'), (ast.Eq, '=?'), (ast.LtE, '<=?'), (ast.GtE, '>=?')):
                    if isinstance(op, k):
                        return '(%s %s %s)%%Z' % (a[0], s, b[0]), 'B'
            else:
                if isinstance(op, ast.Lt):
                    return '(qltb %s %s)' % (self.toq(a), self.toq(b)), 'B'
                if isinstance(op, ast.Gt):
                    return '(qltb %s %s)' % (self.toq(b), self.toq(a)), 'B'
                if isinstance(op, ast.LtE):
                    return '(Qle_bool %s %s)' % (self.toq(a), self.toq(b)), 'B'
                if isinstance(op, ast.GtE):
                    return '(Qle_bool %s %s)' % (self.toq(b), self.toq(a)), 'B'
            fail(e, 'unsupported comparison %s' % type(op).__name__)
        if isinstance(e, ast.BoolOp):
            if not isinstance(e.op, ast.And):
                fail(e, 'only `and` is supported')
            parts = []
            for v in e.values:
                s, t = self.ex(v, bound)
                if t != 'B':
                    fail(v, '`and` of a non-boolean')
                parts.append(s)
            return '(' + ' && '.join(parts) + ')', 'B'
        if isinstance(e, ast.Call):
            if e.keywords or len(e.args) != 1 or not isinstance(e.func, ast.Name):
                fail(e, 'unsupported call')
            if e.func.id == 'abs':
                s, t = self.ex(e.args[0], bound)
                if t == 'Q':
                    return '(Qabs %s)' % s, 'Q'
                if t == 'Z':
                    return '(Z.abs %s)' % s, 'Z'
                fail(e, 'abs of a boolean')
            if e.func.id == 'int':
                r = e.args[0]
                if isinstance(r, ast.Call) and isinstance(r.func, ast.Name) and r.func.id == 'round' \
                        and len(r.args) == 1 and not r.keywords:
                    s, t = self.ex(r.args[0], bound)
                    if t != 'Z':
                        fail(e, 'int(round(e)) on a non-integer e')
                    return s, 'Z'
            fail(e, 'unsupported call')
        fail(e, 'unsupported expression %s' % type(e).__name__)

    # ---------------- typing pre-pass ----------------
    def settype(self, node, name, ty):
        if name in self.params:
            if name != 'results':
                fail(node, 'parameter %s is assigned' % name)
            return
        old = self.types.get(name)
        if old is None:
            self.types[name] = ty
            self.order.append(name)
        elif old == ty or (old == 'Q' and ty == 'Z'):
            pass
        else:
            fail(node, 'variable %s changes type from %s to %s' % (name, old, ty))

    def infer(self, stmts):
        for s in stmts:
            if isinstance(s, ast.Assign):
                if len(s.targets) != 1:
                    fail(s, 'multiple assignment targets')
                t = s.targets[0]
                if isinstance(t, ast.Name):
                    self.settype(s, t.id, self.ex(s.value, None)[1])
                elif isinstance(t, ast.Subscript):
                    pass
                else:
                    fail(s, 'unsupported assignment target')
            elif isinstance(s, ast.AugAssign):
                if not isinstance(s.target, ast.Name) or s.target.id not in self.types:
                    fail(s, 'unsupported augmented assignment')
                ty = self.ex(ast.BinOp(left=s.target, op=s.op, right=s.value), None)[1]
                self.settype(s, s.target.id, ty)
            elif isinstance(s, ast.If):
                self.infer(s.body); self.infer(s.orelse)
            elif isinstance(s, ast.For):
                if not isinstance(s.target, ast.Name):
                    fail(s, 'unsupported loop target')
                if s.target.id in self.params:
                    fail(s, 'loop index is a parameter')
                old = self.types.get(s.target.id)
                if old not in (None, 'Z'):
                    fail(s, 'loop index %s has another type' % s.target.id)
                if old is None:
                    self.types[s.target.id] = 'Z'
                    self.order.append(s.target.id)
                self.infer(s.body)
            elif isinstance(s, (ast.Pass, ast.Break, ast.Return)):
                pass
            else:
                fail(s, 'unsupported statement %s' % type(s).__name__)
        self.divs = []

    # ---------------- statements ----------------
    def tup(self, names):
        if not names:
            return 'tt'
        return '(' + ', '.join(cn(n) for n in names) + ')' if len(names) > 1 else cn(names[0])

    def pat(self, names):
        if not names:
            return '_'
        return "'(" + ', '.join(cn(n) for n in names) + ')' if len(names) > 1 else cn(names[0])

    def tuptype(self, names):
        if not names:
            return 'unit'
        return ' * '.join(COQTYPE[self.types[n]] for n in names)

    def prebind(self, names, bound, ind):
        out = ''
        for n in names:
            if n not in bound:
                ty = self.types[n]
                if ty not in DEFAULT:
                    raise TranslationError('no default for %s' % n)
                out += '%slet %s := %s in   (* unbound in Python until assigned *)\n' % (ind, cn(n), DEFAULT[ty])
        return out

    def guards(self, node, mode, ind):
        g = ''
        for d in self.divs:
            if mode == 'pure':
                fail(node, 'division in a context translated as pure')
            g += '%sif Qeq_bool %s 0 then DivZero else\n' % (ind, d)
        self.divs = []
        return g

    def assign_name(self, node, name, value, bound, mode, ind):
        if name in self.params:
            fail(node, 'parameter %s is assigned' % name)
        if name in self.indices:
            fail(node, 'loop index %s is assigned' % name)
        self.divs = []
        s, ty = self.ex(value, bound)
        vt = self.types[name]
        if vt == 'Q' and ty == 'Z':
            s = '(inject_Z %s)' % s
        elif vt != ty:
            fail(node, 'type mismatch assigning %s' % name)
        g = self.guards(node, mode, ind)
        return g + '%slet %s := %s in\n' % (ind, cn(name), s)

    def seq(self, stmts, bound, term, mode, ind, brk_state=None, top=False):
        """translate a statement list; `term(bound)` gives the final expression.
        mode: 'pure' | 'res' (value in the res monad).  brk_state: state tuple names when
        `if c: break` is allowed here (direct statements of a breaking loop's body)."""
        if not stmts:
            return ind + term(bound) + '\n'
        s, rest = stmts[0], stmts[1:]
        bound = set(bound)
        if isinstance(s, ast.Pass):
            return self.seq(rest, bound, term, mode, ind, brk_state, top)
        if isinstance(s, ast.Return):
            if not (top and not rest and isinstance(s.value, ast.Constant) and s.value.value == 0):
                fail(s, 'only a final `return 0` is supported')
            return self.seq(rest, bound, term, mode, ind, brk_state, top)
        if isinstance(s, ast.Assign):
            t = s.targets[0]
            if isinstance(t, ast.Name):
                txt = self.assign_name(s, t.id, s.value, bound, mode, ind)
                bound.add(t.id)
                return txt + self.seq(rest, bound, term, mode, ind, brk_state, top)
            # results[i, k] = e | np.sqrt(e)
            if not (isinstance(t, ast.Subscript) and isinstance(t.value, ast.Name) and t.value.id == 'results'
                    and isinstance(t.slice, ast.Tuple) and len(t.slice.elts) == 2):
                fail(s, 'unsupported subscript assignment')
            self.divs = []
            i0, i1 = self.ex(t.slice.elts[0], bound), self.ex(t.slice.elts[1], bound)
            if i0[1] != 'Z' or i1[1] != 'Z':
                fail(s, 'non-integer results index')
            v = s.value
            if isinstance(v, ast.Call) and is_np(v.func, 'sqrt') and len(v.args) == 1 and not v.keywords:
                c = '(CSqrt %s)' % self.toq(self.ex(v.args[0], bound))
            else:
                c = '(CQ %s)' % self.toq(self.ex(v, bound))
            g = self.guards(s, mode, ind)
            txt = g + '%slet results := set2 results %s %s %s in\n' % (ind, i0[0], i1[0], c)
            return txt + self.seq(rest, bound, term, mode, ind, brk_state, top)
        if isinstance(s, ast.AugAssign):
            if not isinstance(s.op, (ast.Add, ast.Sub, ast.Div)):
                fail(s, 'unsupported augmented assignment')
            v = ast.copy_location(ast.BinOp(left=ast.copy_location(ast.Name(id=s.target.id, ctx=ast.Load()), s), op=s.op, right=s.value), s)
            txt = self.assign_name(s, s.target.id, v, bound, mode, ind)
            return txt + self.seq(rest, bound, term, mode, ind, brk_state, top)
        if isinstance(s, ast.If):
            self.divs = []
            c, ct = self.ex(s.test, bound)
            if ct != 'B':
                fail(s, 'condition is not a boolean')
            if self.divs:
                fail(s, 'division in a condition')
            if is_break_if(s):
                if brk_state is None:
                    fail(s, '`break` is only supported as `if c: break` directly in a loop body')
                return ('%sif %s then Ok (true, %s) else\n' % (ind, c, self.tup(brk_state))
                        + self.seq(rest, bound, term, mode, ind, brk_state, top))
            if has_break([s]):
                fail(s, '`break` is only supported as `if c: break` directly in a loop body')
            W = assigned([s])
            if not W:
                return self.seq(rest, bound, term, mode, ind, brk_state, top)
            monadic = has_div([s]) or any(isinstance(n, ast.For) and self.loop_is_monadic(n) for n in ast.walk(s))
            if monadic and mode == 'pure':
                fail(s, 'division in a context translated as pure')
            pre = self.prebind(W, bound, ind)
            b2 = bound | set(W)
            fin = (lambda _b: 'Ok ' + self.tup(W)) if monadic else (lambda _b: self.tup(W))
            m2 = 'res' if monadic else 'pure'
            th = self.seq(s.body, b2, fin, m2, ind + '    ')
            el = self.seq(s.orelse, b2, fin, m2, ind + '    ')
            body = '%sif %s then\n%s%selse\n%s' % (ind + '  ', c, th, ind + '  ', el)
            if monadic:
                txt = '%sbind (\n%s%s) (fun %s =>\n' % (ind, body, ind, self.pat(W))
                return pre + txt + self.seq(rest, b2, term, mode, ind, brk_state, top) + ind + ')\n'
            txt = '%slet %s := (\n%s%s) in\n' % (ind, self.pat(W), body, ind)
            return pre + txt + self.seq(rest, b2, term, mode, ind, brk_state, top)
        if isinstance(s, ast.For):
            if s.orelse:
                fail(s, 'for/else')
            it = s.iter
            if not (isinstance(it, ast.Call) and isinstance(it.func, ast.Name) and it.func.id == 'range'
                    and len(it.args) == 1 and not it.keywords):
                fail(s, 'only `for v in range(e)` is supported')
            self.divs = []
            n, nt = self.ex(it.args[0], bound)
            if nt != 'Z' or self.divs:
                fail(s, 'unsupported range bound')
            idx = s.target.id
            W = assigned(s.body)
            if idx in W or (set(W) & loop_indices(s.body)):
                fail(s, 'a loop index is assigned')
            if idx in bound:
                fail(s, 'loop index %s shadows a live variable' % idx)
            monadic = self.loop_is_monadic(s)
            if monadic and mode == 'pure':
                fail(s, 'division / break in a context translated as pure')
            self.nloop += 1
            lname = '%s_loop%d' % (self.name, self.nloop)
            pre = self.prebind(W, bound, ind)
            b2 = bound | set(W)
            inner = loop_indices(s.body)
            reads = set()
            for st in s.body:
                reads |= names_in(st)
            env = [v for v in self.order if v in reads and v not in W and v != idx and v not in inner]
            for v in env:
                if v not in b2:
                    fail(s, 'name %s is read in the loop where it is not bound' % v)
            bb = b2 | {idx}
            if monadic:
                body = self.seq(s.body, bb, lambda _b: 'Ok (false, %s)' % self.tup(W), 'res', '  ', brk_state=W)
                rty = 'res (bool * (%s))' % self.tuptype(W)
            else:
                body = self.seq(s.body, bb, lambda _b: self.tup(W), 'pure', '  ')
                rty = self.tuptype(W)
            binders = ' '.join('(%s : %s)' % (cn(v), COQTYPE[self.types[v]]) for v in env)
            d = '(* line %d: for %s in range(%s) *)\n' % (s.lineno, idx, ast.unparse(it.args[0]))
            d += 'Definition %s %s (%s : Z) (st : %s) : %s :=\n' % (lname, binders, cn(idx), self.tuptype(W), rty)
            d += '  let %s := st in\n' % self.pat(W)
            d += body.rstrip('\n') + '.\n'
            self.defs.append(d)
            call = '%s %s' % (lname, ' '.join(cn(v) for v in env))
            if monadic:
                txt = '%sbind (for_break %s (%s) %s) (fun %s =>\n' % (ind, n, call.strip(), self.tup(W), self.pat(W))
                return pre + txt + self.seq(rest, b2, term, mode, ind, brk_state, top) + ind + ')\n'
            txt = '%slet %s := for_range %s (%s) %s in\n' % (ind, self.pat(W), n, call.strip(), self.tup(W))
            return pre + txt + self.seq(rest, b2, term, mode, ind, brk_state, top)
        fail(s, 'unsupported statement %s' % type(s).__name__)

    def loop_is_monadic(self, loop):
        return has_div(loop.body) or has_break(loop.body)

    def translate(self):
        body = list(self.f.body)
        if body and isinstance(body[0], ast.Expr) and isinstance(body[0].value, ast.Constant) and isinstance(body[0].value.value, str):
            body = body[1:]
        body = self.slice_block(body)
        for s in body:
            leak = names_in(s) & set(SLICED)
            if leak:
                fail(s, 'a translated statement depends on the sliced-out name(s) %s' % ', '.join(sorted(leak)))
        self.indices = loop_indices(body)
        self.infer(body)
        for s in body:
            for n in ast.walk(s):
                if isinstance(n, (ast.While, ast.Continue, ast.Try, ast.With, ast.Lambda, ast.ListComp, ast.Yield,
                                  ast.FunctionDef, ast.Global, ast.Nonlocal, ast.Delete, ast.Raise, ast.Assert)):
                    fail(n, 'unsupported construct %s' % type(n).__name__)
        if not (body and isinstance(body[-1], ast.Return)):
            fail(self.f, 'expected a final `return 0`')
        main = self.seq(body, set(self.params), lambda _b: 'Ok results', 'res', '  ', top=True)
        binders = ' '.join('(%s : %s)' % (cn(p), COQTYPE[self.types[p]]) for p in self.params)
        out = '(* ===== %s (line %d) ===== *)\n' % (self.f.name, self.f.lineno)
        out += '\n'.join(self.defs)
        out += '\nDefinition %s %s : res (list (list cell)) :=\n%s.\n' % (self.name, binders, main.rstrip('\n'))
        return out


def translate(repo):
    path = os.path.join(repo, 'trackpy', 'refine', 'center_of_mass.py')
    src = open(path).read()
    tree = ast.parse(src)
    defs = {n.name: n for n in tree.body if isinstance(n, ast.FunctionDef)}
    out = ['(* GENERATED by tools/py2coq_com.py from trackpy/refine/center_of_mass.py -- do not edit.',
           '   The four numba kernels, statement by statement; see the translator for the subset and the',
           '   conventions, Model/PyKernel.v for the vocabulary.  ecc (cmask / smask / ecc1 / ecc2 /',
           '   center_px / ECC_COL) is sliced out; nothing translated depends on it. *)',
           'From Coq Require Import ZArith QArith Qabs List Bool.',
           'From TP Require Import Model.PyKernel.',
           'Import ListNotations.',
           'Open Scope Z_scope.',
           '']
    for name in KERNELS:
        if name not in defs:
            raise TranslationError('function %s not found' % name)
        out.append(Kernel(defs[name]).translate())
    return '\n'.join(out)


def main():
    ap = argparse.ArgumentParser()
    ap.add_argument('--repo', default=os.environ.get('TRACKPY_REPO', '/repo'))
    ap.add_argument('--out', default=os.path.join(os.path.dirname(os.path.dirname(os.path.abspath(__file__))), 'coq', 'Gen', 'com_kernels.v'))
    ap.add_argument('--stdout', action='store_true')
    a = ap.parse_args()
    try:
        text = translate(a.repo)
    except TranslationError as e:
        sys.stderr.write('py2coq_com: TRANSLATION ERROR: %s\n' % e)
        sys.exit(2)
    except (OSError, SyntaxError) as e:
        sys.stderr.write('py2coq_com: TRANSLATION ERROR: cannot read / parse the source: %s\n' % e)
        sys.exit(2)
    if a.stdout:
        sys.stdout.write(text)
        return
    old = open(a.out).read() if os.path.exists(a.out) else None
    if old != text:
        os.makedirs(os.path.dirname(a.out), exist_ok=True)
        tmp = a.out + '.tmp%d' % os.getpid()
        with open(tmp, 'w') as f:
            f.write(text)
        os.replace(tmp, a.out)
        print('py2coq_com: wrote %s (changed)' % a.out)
    else:
        print('py2coq_com: %s up to date' % a.out)


if __name__ == '__main__':
    main()
