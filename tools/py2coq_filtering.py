#!/usr/bin/env python3
"""Fail-closed translator (route T) for C20.

Reads  $TRACKPY_REPO/trackpy/filtering.py  and  $TRACKPY_REPO/trackpy/utils.py
(default /repo) with the Python `ast` module and regenerates
/verif/coq/Gen/filtering.v :

    filtering.py   filter_stubs, filter_clusters, filter            -> py_filter_stubs ...
                   bust_ghosts = filter_stubs, bust_clusters = ..    -> py_bust_ghosts ...
    utils.py       pandas_sort, guess_pos_columns                    -> py_pandas_sort ...

as shallow Gallina over the vocabulary of coq/Model/PyFiltering.v.  Every
generated function takes the pandas interface `P : pandas` first: pandas
operations are NAMED PRIMITIVES (fields of that record), matched as exact
syntactic patterns; Model/PyFiltering.v interprets the record three times, with
the meaning Model/TrajLayout.v, Model/TrajFilter.v and Model/TrajData.v give the
operations.  Proofs/TrajGen.v proves the generated functions equal to those
hand-written models for all inputs and carries the C20 theorems over.

Embedding
  * a Python variable is a let-/bind-bound Coq variable of the same name (`_`
    appended when the name is reserved in Coq or in the vocabulary, e.g. by -> by_);
  * an operation that can raise is bound in the exception monad: rbind (op) (fun v => ..);
    sub-expressions are bound left to right (Python's evaluation order) to tmp<k>;
  * `try: <column reads> except KeyError: raise ValueError(<literal>)` is
    catch_KeyError (<reads>; ROk tt) (RRaise (EValueError <literal>));
  * `if X is None: X = e` for an optional float parameter X rebinds X to
    match X with Some v => ROk v | None => e end;
  * a lambda (one parameter, a DataFrame: the group handed over by
    GroupBy.filter) is a Coq function DataFrame P -> res bool;
  * `E is not None and R` as the test of an if / conditional expression narrows E
    (an Optional[str]: an index name) to a str inside R and inside the true branch:
        match E with Some nm => if R then <true branch> else <false branch> | None => <false branch> end
  * an `if` that is not the last statement of its block yields the tuple of the
    variables it assigns (existing before it, or assigned in both branches);
  * `df.index.name = v`, `df.index.name += s`, `df.index.names = l` change the
    CALLER's object: they rebind the parameter (p_set_index_name(s)); a function
    that does this may not rebind the parameter in any other way (`df = ...`
    would make the local and the caller's object differ: translation error);
  * pandas_sort(df, by, *args, **kwargs): every call site in trackpy/ (tests
    excluded) is checked to be pandas_sort(<df>, <by>) or pandas_sort(<df>, <by>,
    inplace=True), so args is empty and kwargs is at most {inplace: True}; the
    generated function takes `inplace : bool` in their place and returns the pair
    (the caller's object afterwards, the returned value -- None when inplace).

Primitives (exact syntactic patterns; anything else is an error):
    E['c'] , E.c  (E a DataFrame, c in COLUMN_ATTRS for the attribute form)   p_getitem P E "c"
    'c' in E                                  p_contains P "c" E
    E.reset_index(drop=True)                  p_reset_index_drop P E
    E.groupby('c')                            p_groupby P E "c"
    G.filter(func)                            p_gb_filter P G func
    E.set_index('c', drop=False)              p_set_index_keep P E "c"
    S.count() / S.mean() / S.quantile(q)      p_count / p_mean / p_quantile
    E.index.name / .nlevels / .names          p_index_name / p_index_nlevels / p_index_names
    E.index.name = v / E.index.names = l      p_set_index_name / p_set_index_names
    name in by                                in_by name by_   (Model/TrajLayout.v: substring test for a
                                              str, membership for a list)
    df.sort_values(*args, by=by, **kwargs)    p_sort_values P df by_ inplace
    int comparisons                           (a >=? b)%Z ...
    float comparisons                         flt_lt / flt_le / flt_gt / flt_ge  (False on NaN)
    s + t on str                              String.append s t

Anything outside this subset: exit status 2, nothing written (the check treats
that like a broken proof).

Usage:  py2coq_filtering.py [--repo /repo] [--out /verif/coq/Gen/filtering.v] [--stdout]
"""
import ast, sys, os, argparse, glob


class TranslationError(Exception):
    pass


def fail(node, msg):
    raise TranslationError('line %s: %s' % (getattr(node, 'lineno', '?'), msg))


COQTY = {'df': 'DataFrame P', 'gb': 'GroupBy P', 'ser': 'Series P', 'Z': 'Z', 'Q': 'Q', 'float': 'float',
         'optfloat': 'option float', 'bool': 'bool', 'str': 'name', 'ostr': 'option name', 'strlist': 'list name',
         'ostrlist': 'list (option name)', 'by': 'by_t', 'func': 'DataFrame P -> res bool'}

# attribute access that is column access: trackpy column names that are not DataFrame members
# ('size' is NOT here: DataFrame.size is the number of cells)
COLUMN_ATTRS = {'frame', 'particle', 'x', 'y', 'z', 'mass', 'ecc', 'signal', 'ep'}

RESERVED = {'by', 'as', 'at', 'in', 'if', 'then', 'else', 'let', 'fun', 'match', 'with', 'end', 'fix', 'cofix', 'forall',
            'exists', 'return', 'where', 'using', 'for', 'Type', 'Prop', 'Set', 'SProp', 'P', 'res', 'ROk', 'RRaise', 'rbind',
            'float', 'name', 'DataFrame', 'GroupBy', 'Series', 'pandas', 'map', 'Some', 'None', 'true', 'false', 'in_by', 'tt',
            'filter', 'exn', 'catch_KeyError', 'flt_lt', 'flt_le', 'flt_gt', 'flt_ge', 'option', 'list', 'bool', 'Z', 'Q',
            'negb', 'String', 'unit', 'by_t', 'ByStr', 'ByList', 'inplace', 'schema', 'idx', 'cols', 'row', 'frame', 'size',
            'pid', 'rid', 'body', 'label', 'labels', 'rename', 'bind', 'outcome', 'Ok', 'Missing', 'Ambiguous', 'version',
            'fixed', 'pinned', 'length', 'fst', 'snd', 'app', 'nil', 'cons', 'EKeyError', 'EAmbiguous', 'EValueError',
            'EUnmodelled', 'quantile', 'qmean', 'sizes', 'take', 'insert', 'isort', 'select', 'getitem', 'getitems'}


def cq(n):
    if n in RESERVED or n.startswith('p_') or n.startswith('py_') or n.startswith('tmp') or n.startswith('nm'):
        return n + '_'
    return n


def cstr(s):
    if not isinstance(s, str) or any(ord(c) < 32 or ord(c) > 126 for c in s):
        raise TranslationError('unsupported string literal %r' % (s,))
    return '"%s"' % s.replace('"', '""')


def cmt(text):
    return text.replace('"', "'").replace('(*', '( *').replace('*)', '* )')


def key(e):
    return ast.unparse(e)


def is_none(e):
    return isinstance(e, ast.Constant) and e.value is None


def is_strconst(e):
    return isinstance(e, ast.Constant) and isinstance(e.value, str)


def split_narrow(test):
    """`E is not None and R1 and ..` -> (E, [R1, ..]) else None"""
    if isinstance(test, ast.BoolOp) and isinstance(test.op, ast.And) and len(test.values) >= 2:
        f = test.values[0]
        if isinstance(f, ast.Compare) and len(f.ops) == 1 and isinstance(f.ops[0], ast.IsNot) and is_none(f.comparators[0]):
            return f.left, test.values[1:]
    return None


def index_attr(e):
    """E.index.<a> with E a Name -> (E.id, a)"""
    if isinstance(e, ast.Attribute) and isinstance(e.value, ast.Attribute) and e.value.attr == 'index' \
            and isinstance(e.value.value, ast.Name):
        return e.value.value.id, e.attr
    return None


def assigned(stmts):
    out = []

    def add(x):
        if x not in out:
            out.append(x)

    def target(t):
        if isinstance(t, ast.Name):
            add(t.id)
        else:
            ia = index_attr(t)
            if ia and ia[1] in ('name', 'names'):
                add(ia[0])
            else:
                fail(t, 'unsupported assignment target `%s`' % ast.unparse(t))
    for s in stmts:
        if isinstance(s, ast.Assign):
            for t in s.targets:
                target(t)
        elif isinstance(s, ast.AugAssign):
            target(s.target)
        elif isinstance(s, ast.If):
            for x in assigned(s.body) + assigned(s.orelse):
                add(x)
    return out


class Fn:
    def __init__(self, fdef, params, result, mutates=False, inplace=False):
        """params: [(python name, type)]; result: 'df' (res DataFrame), 'sort' (res (DataFrame * option DataFrame)),
        'strlist' (pure); mutates: the function changes its DataFrame parameter in place"""
        self.f = fdef
        self.name = fdef.name
        self.params = params
        self.result = result
        self.mutates = mutates
        self.inplace = inplace
        self.env = {}
        self.narrow = {}
        self.pre = []
        self.ntmp = 0
        self.nnm = 0
        self.pure = result == 'strlist'
        self.paramnames = [n for n, _ in params]
        self.captured = set()    # variables read inside a lambda: Python closures see later assignments
        for n, t in params:
            self.env[n] = t

    # ------------------------------------------------------------------ environment
    def tmp(self):
        self.ntmp += 1
        return 'tmp%d' % self.ntmp

    def fresh_nm(self):
        self.nnm += 1
        return 'nm%d' % self.nnm

    def bind(self, node, name, ty, rebinding_param_ok=False):
        if name in self.paramnames and self.env.get(name) == 'df' and self.mutates and not rebinding_param_ok:
            fail(node, 'the DataFrame parameter %s is rebound in a function that changes it in place: the local '
                       'and the caller\'s object would differ' % name)
        if name in self.captured:
            fail(node, 'variable %s is assigned after a lambda that reads it was created (closures are late-binding)' % name)
        self.env[name] = ty
        self.narrow = {k: v for k, v in self.narrow.items() if name not in v[2]}

    def var(self, node, name, want=None):
        if name not in self.env:
            fail(node, 'name %s is read where it is not bound (or is outside the translated subset)' % name)
        if want is not None and self.env[name] != want:
            fail(node, '%s has type %s, expected %s' % (name, self.env[name], want))
        return cq(name), self.env[name]

    # ------------------------------------------------------------------ expressions
    def exT(self, e, want):
        s, t = self.ex(e)
        if t == 'str' and want == 'ostr':
            return '(Some %s)' % s
        if t != want:
            fail(e, 'expression `%s` has type %s, expected %s' % (ast.unparse(e), t, want))
        return s

    def monadic(self, node, term, ty):
        if self.pure:
            fail(node, 'an operation that can raise occurs in a function translated as pure')
        t = self.tmp()
        self.pre.append([t, term])
        return t, ty

    def unify(self, node, a, ta, b, tb):
        if ta == tb:
            return a, b, ta
        if ta == 'str' and tb == 'ostr':
            return '(Some %s)' % a, b, 'ostr'
        if ta == 'ostr' and tb == 'str':
            return a, '(Some %s)' % b, 'ostr'
        fail(node, 'branches of different types (%s, %s)' % (ta, tb))

    def ex(self, e):
        k = key(e)
        if k in self.narrow:
            v = self.narrow[k]
            return v[0], v[1]
        if isinstance(e, ast.Name):
            return self.var(e, e.id)
        if isinstance(e, ast.Constant):
            v = e.value
            if isinstance(v, str):
                return cstr(v), 'str'
            if isinstance(v, int) and not isinstance(v, bool):
                return ('%d' % v if v >= 0 else '(%d)' % v), 'Z'
            fail(e, 'unsupported constant %r' % (v,))
        if isinstance(e, ast.List):
            if not e.elts or not all(is_strconst(x) for x in e.elts):
                fail(e, 'only non-empty lists of string literals are supported')
            return '[' + '; '.join(cstr(x.value) for x in e.elts) + ']', 'strlist'
        if isinstance(e, ast.Subscript):
            v = self.exT(e.value, 'df')
            if not is_strconst(e.slice):
                fail(e, 'only df[<string literal>] is supported')
            return self.monadic(e, 'p_getitem P %s %s' % (v, cstr(e.slice.value)), 'ser')
        if isinstance(e, ast.Attribute):
            ia = index_attr(e)
            if ia:
                d, _ = self.var(e, ia[0], 'df')
                if ia[1] == 'name':
                    return '(p_index_name P %s)' % d, 'ostr'
                if ia[1] == 'nlevels':
                    return '(p_index_nlevels P %s)' % d, 'Z'
                if ia[1] == 'names':
                    return '(p_index_names P %s)' % d, 'ostrlist'
                fail(e, 'unsupported index attribute %s' % ia[1])
            if e.attr in COLUMN_ATTRS:
                v = self.exT(e.value, 'df')
                return self.monadic(e, 'p_getitem P %s %s' % (v, cstr(e.attr)), 'ser')
            fail(e, 'unsupported attribute `%s`' % ast.unparse(e))
        if isinstance(e, ast.Call):
            return self.call(e)
        if isinstance(e, ast.Lambda):
            return self.lam(e)
        if isinstance(e, ast.Compare):
            return self.compare(e)
        if isinstance(e, ast.BoolOp):
            nar = split_narrow(e)
            if nar:
                E, rest = nar
                et = self.exT(E, 'ostr')
                nm = self.fresh_nm()
                saved = dict(self.narrow)
                self.narrow[key(E)] = (nm, 'str', {n.id for n in ast.walk(E) if isinstance(n, ast.Name)})
                npre = len(self.pre)
                parts = [self.exT(r, 'bool') for r in rest]
                self.narrow = saved
                if len(self.pre) != npre:
                    fail(e, 'an operation that can raise under `and`')
                return '(match %s with Some %s => %s | None => false end)' % (et, nm, ' && '.join(parts)), 'bool'
            npre = len(self.pre)
            parts = [self.exT(v, 'bool') for v in e.values]
            if len(self.pre) != npre and len(e.values) > 1:
                fail(e, 'an operation that can raise under a short-circuit operator')
            return '(' + (' && ' if isinstance(e.op, ast.And) else ' || ').join(parts) + ')', 'bool'
        if isinstance(e, ast.UnaryOp) and isinstance(e.op, ast.Not):
            return '(negb %s)' % self.exT(e.operand, 'bool'), 'bool'
        if isinstance(e, ast.IfExp):
            return self.ifexp(e)
        if isinstance(e, ast.ListComp):
            g = e.generators
            if len(g) != 1 or g[0].ifs or g[0].is_async or not isinstance(g[0].target, ast.Name):
                fail(e, 'unsupported list comprehension')
            src, ts = self.ex(g[0].iter)
            if ts not in ('ostrlist', 'strlist'):
                fail(e, 'comprehension over a %s' % ts)
            x = g[0].target.id
            if x in self.env:
                fail(e, 'comprehension variable %s shadows a variable' % x)
            npre = len(self.pre)
            self.env[x] = 'ostr' if ts == 'ostrlist' else 'str'
            body, tb = self.ex(e.elt)
            del self.env[x]
            if len(self.pre) != npre:
                fail(e, 'an operation that can raise inside a comprehension')
            if tb not in ('ostr', 'str'):
                fail(e, 'comprehension of %s' % tb)
            return '(map (fun %s => %s) %s)' % (cq(x), body, src), ('ostrlist' if tb == 'ostr' else 'strlist')
        if isinstance(e, ast.BinOp) and isinstance(e.op, ast.Add):
            a, ta = self.ex(e.left)
            b, tb = self.ex(e.right)
            if ta == 'str' and tb == 'str':
                return '(String.append %s %s)' % (a, b), 'str'
            fail(e, '`+` on %s and %s (a name that may be None must be tested with `is not None and` first)' % (ta, tb))
        fail(e, 'unsupported expression `%s`' % ast.unparse(e))

    def call(self, e):
        f = e.func
        if not isinstance(f, ast.Attribute):
            fail(e, 'unsupported call `%s`' % ast.unparse(e))
        kws = [(k.arg, k.value) for k in e.keywords]
        m = f.attr

        def kwconst(name, val):
            return len(kws) == 1 and kws[0][0] == name and isinstance(kws[0][1], ast.Constant) and kws[0][1].value is val
        if any(isinstance(a, ast.Starred) for a in e.args):
            fail(e, 'unsupported call `%s`' % ast.unparse(e))
        v, tv = self.ex(f.value)
        if m == 'reset_index' and tv == 'df' and not e.args and kwconst('drop', True):
            return self.monadic(e, 'p_reset_index_drop P %s' % v, 'df')
        if m == 'groupby' and tv == 'df' and len(e.args) == 1 and is_strconst(e.args[0]) and not kws:
            return self.monadic(e, 'p_groupby P %s %s' % (v, cstr(e.args[0].value)), 'gb')
        if m == 'filter' and tv == 'gb' and len(e.args) == 1 and not kws:
            fn = self.exT(e.args[0], 'func')
            return self.monadic(e, 'p_gb_filter P %s %s' % (v, fn), 'df')
        if m == 'set_index' and tv == 'df' and len(e.args) == 1 and is_strconst(e.args[0]) and kwconst('drop', False):
            return self.monadic(e, 'p_set_index_keep P %s %s' % (v, cstr(e.args[0].value)), 'df')
        if m == 'count' and tv == 'ser' and not e.args and not kws:
            return '(p_count P %s)' % v, 'Z'
        if m == 'mean' and tv == 'ser' and not e.args and not kws:
            return '(p_mean P %s)' % v, 'float'
        if m == 'quantile' and tv == 'ser' and len(e.args) == 1 and not kws:
            return '(p_quantile P %s %s)' % (v, self.exT(e.args[0], 'Q')), 'float'
        fail(e, 'unsupported call `%s` (receiver of type %s)' % (ast.unparse(e), tv))

    def lam(self, e):
        a = e.args
        if len(a.args) != 1 or a.vararg or a.kwarg or a.kwonlyargs or a.defaults or getattr(a, 'posonlyargs', []):
            fail(e, 'only one-parameter lambdas are supported')
        x = a.args[0].arg
        if x in self.env:
            fail(e, 'lambda parameter %s shadows a variable' % x)
        if self.pure:
            fail(e, 'lambda in a function translated as pure')
        saved_pre, self.pre = self.pre, []
        self.captured |= {n.id for n in ast.walk(e.body) if isinstance(n, ast.Name) and n.id != x}
        self.env[x] = 'df'
        body = self.exT(e.body, 'bool')
        del self.env[x]
        pre, self.pre = self.pre, saved_pre
        txt = '(fun %s =>' % cq(x)
        for pt, mt in pre:
            txt += ' rbind (%s) (fun %s =>' % (mt, pt)
        txt += ' ROk %s' % body + ')' * len(pre) + ')'
        return txt, 'func'

    def compare(self, e):
        if len(e.ops) != 1:
            fail(e, 'chained comparison')
        op, l, r = e.ops[0], e.left, e.comparators[0]
        if isinstance(op, (ast.Is, ast.IsNot)):
            if not is_none(r):
                fail(e, 'unsupported `is`')
            s, t = self.ex(l)
            if t not in ('optfloat', 'ostr'):
                fail(e, '`is None` on a %s' % t)
            yes, no = ('true', 'false') if isinstance(op, ast.Is) else ('false', 'true')
            return '(match %s with None => %s | Some _ => %s end)' % (s, yes, no), 'bool'
        if isinstance(op, ast.In):
            c, tc = self.ex(r)
            if tc == 'df':
                if not is_strconst(l):
                    fail(e, 'only <string literal> in <DataFrame> is supported')
                return '(p_contains P %s %s)' % (cstr(l.value), c), 'bool'
            if tc == 'by':
                return '(in_by %s %s)' % (self.exT(l, 'str'), c), 'bool'
            fail(e, '`in` on a %s' % tc)
        a, ta = self.ex(l)
        b, tb = self.ex(r)
        if ta != tb:
            fail(e, 'comparison of %s with %s' % (ta, tb))
        if ta == 'Z':
            for kk, s in ((ast.Lt, '<?'), (ast.Gt, '>?'), (ast.LtE, '<=?'), (ast.GtE, '>=?'), (ast.Eq, '=?')):
                if isinstance(op, kk):
                    return '(%s %s %s)%%Z' % (a, s, b), 'bool'
        if ta == 'float':
            for kk, s in ((ast.Lt, 'flt_lt'), (ast.Gt, 'flt_gt'), (ast.LtE, 'flt_le'), (ast.GtE, 'flt_ge')):
                if isinstance(op, kk):
                    return '(%s %s %s)' % (s, a, b), 'bool'
        fail(e, 'unsupported comparison `%s`' % ast.unparse(e))

    def ifexp(self, e):
        npre = len(self.pre)
        nar = split_narrow(e.test)
        if nar:
            E, rest = nar
            et = self.exT(E, 'ostr')
            nm = self.fresh_nm()
            saved = dict(self.narrow)
            self.narrow[key(E)] = (nm, 'str', {n.id for n in ast.walk(E) if isinstance(n, ast.Name)})
            c = ' && '.join(self.exT(r, 'bool') for r in rest)
            a, ta = self.ex(e.body)
            self.narrow = saved
            b, tb = self.ex(e.orelse)
            a, b, t = self.unify(e, a, ta, b, tb)
            if len(self.pre) != npre:
                fail(e, 'an operation that can raise inside a conditional expression')
            return '(match %s with Some %s => if %s then %s else %s | None => %s end)' % (et, nm, c, a, b, b), t
        c = self.exT(e.test, 'bool')
        a, ta = self.ex(e.body)
        b, tb = self.ex(e.orelse)
        a, b, t = self.unify(e, a, ta, b, tb)
        if len(self.pre) != npre:
            fail(e, 'an operation that can raise inside a conditional expression')
        return '(if %s then %s else %s)' % (c, a, b), t

    # ------------------------------------------------------------------ statements
    def flush(self, ind):
        pre, self.pre = self.pre, []
        head = ''.join('%srbind (%s) (fun %s =>\n' % (ind, m, p) for p, m in pre)
        return head, ')' * len(pre)

    def tup(self, names):
        return '(' + ', '.join(cq(n) for n in names) + ')' if len(names) != 1 else cq(names[0])

    def pat(self, names):
        return "'(" + ', '.join(cq(n) for n in names) + ')' if len(names) != 1 else cq(names[0])

    def seq(self, stmts, tail, ind):
        if not stmts:
            return ind + tail()
        s, rest = stmts[0], stmts[1:]

        def go():
            return self.seq(rest, tail, ind)

        if isinstance(s, ast.Pass):
            return go()
        if isinstance(s, ast.Expr) and isinstance(s.value, ast.Constant) and isinstance(s.value.value, str):
            return go()
        if isinstance(s, ast.Expr):
            v, t = self.ex(s.value)
            if t != 'ser' or not self.pre or self.pre[-1][0] != v:
                fail(s, 'unsupported expression statement `%s` (only a column read, for its KeyError)' % ast.unparse(s))
            self.pre[-1][0] = '_'
            head, close = self.flush(ind)
            return head + go() + close
        if isinstance(s, ast.Try):
            return self.trystmt(s, go, ind)
        if isinstance(s, ast.Return):
            if rest:
                fail(s, 'statements after return')
            return self.ret(s, ind)
        if isinstance(s, ast.Assign):
            return self.assign(s, go, ind)
        if isinstance(s, ast.AugAssign):
            ia = index_attr(s.target)
            if not ia or ia[1] != 'name' or not isinstance(s.op, ast.Add):
                fail(s, 'unsupported augmented assignment')
            load = ast.parse(ast.unparse(s.target), mode='eval').body
            v = self.exT(ast.BinOp(left=load, op=ast.Add(), right=s.value), 'ostr')
            if self.pre:
                fail(s, 'unsupported augmented assignment')
            d, _ = self.var(s, ia[0], 'df')
            self.bind(s, ia[0], 'df', rebinding_param_ok=True)
            return '%slet %s := p_set_index_name P %s %s in\n' % (ind, d, d, v) + go()
        if isinstance(s, ast.If):
            return self.ifstmt(s, rest, tail, ind)
        fail(s, 'unsupported statement %s' % type(s).__name__)

    def trystmt(self, s, go, ind):
        if s.orelse or s.finalbody or len(s.handlers) != 1:
            fail(s, 'unsupported try statement')
        h = s.handlers[0]
        if not (isinstance(h.type, ast.Name) and h.type.id == 'KeyError' and h.name is None and len(h.body) == 1
                and isinstance(h.body[0], ast.Raise) and h.body[0].cause is None):
            fail(s, 'only `except KeyError: raise ValueError(<literal>)` is supported')
        x = h.body[0].exc
        if not (isinstance(x, ast.Call) and isinstance(x.func, ast.Name) and x.func.id == 'ValueError' and len(x.args) == 1
                and is_strconst(x.args[0]) and not x.keywords):
            fail(s, 'only `except KeyError: raise ValueError(<literal>)` is supported')
        if self.pure or self.pre:
            fail(s, 'try in a pure context')
        for b in s.body:
            if not isinstance(b, ast.Expr):
                fail(b, 'only column reads are supported inside try')
        env0 = dict(self.env)
        body = self.seq(list(s.body), lambda: 'ROk tt', ind + '    ')
        self.env = env0
        return ('%srbind (catch_KeyError (\n%s)\n%s  (RRaise (EValueError %s))) (fun _ =>\n'
                % (ind, body, ind, cstr(x.args[0].value))) + go() + ')'

    def ret(self, s, ind):
        if s.value is None:
            fail(s, 'bare return')
        if self.result == 'sort':
            e = s.value
            ok = (isinstance(e, ast.Call) and isinstance(e.func, ast.Attribute) and e.func.attr == 'sort_values'
                  and isinstance(e.func.value, ast.Name) and len(e.args) == 1 and isinstance(e.args[0], ast.Starred)
                  and isinstance(e.args[0].value, ast.Name) and e.args[0].value.id == 'args' and len(e.keywords) == 2
                  and e.keywords[0].arg == 'by' and isinstance(e.keywords[0].value, ast.Name)
                  and e.keywords[1].arg is None and isinstance(e.keywords[1].value, ast.Name) and e.keywords[1].value.id == 'kwargs')
            if not ok:
                fail(s, 'only `return <df>.sort_values(*args, by=<by>, **kwargs)` is supported here')
            d, _ = self.var(s, e.func.value.id, 'df')
            b, _ = self.var(s, e.keywords[0].value.id, 'by')
            return '%sp_sort_values P %s %s inplace' % (ind, d, b)
        if self.result == 'strlist':
            v = self.exT(s.value, 'strlist')
            return ind + v
        v = self.exT(s.value, 'df')
        if self.pre and self.pre[-1][0] == v:
            last = self.pre.pop()
            head, close = self.flush(ind)
            return head + ind + last[1] + close
        head, close = self.flush(ind)
        return head + '%sROk %s' % (ind, v) + close

    def assign(self, s, go, ind):
        if len(s.targets) != 1:
            fail(s, 'chained assignment')
        t = s.targets[0]
        ia = index_attr(t)
        if ia:
            d, _ = self.var(s, ia[0], 'df')
            if ia[1] == 'name':
                v = self.exT(s.value, 'ostr')
                prim = 'p_set_index_name'
            elif ia[1] == 'names':
                v = self.exT(s.value, 'ostrlist')
                prim = 'p_set_index_names'
            else:
                fail(s, 'unsupported assignment target')
            if self.pre:
                fail(s, 'unsupported assignment')
            self.bind(s, ia[0], 'df', rebinding_param_ok=True)
            return '%slet %s := %s P %s %s in\n' % (ind, d, prim, d, v) + go()
        if not isinstance(t, ast.Name):
            fail(s, 'unsupported assignment target `%s`' % ast.unparse(t))
        v, tv = self.ex(s.value)
        if tv not in COQTY:
            fail(s, 'cannot bind a value of type %s' % tv)
        if t.id in self.env and self.env[t.id] != tv:
            fail(s, 'variable %s changes type from %s to %s' % (t.id, self.env[t.id], tv))
        if self.pre and self.pre[-1][0] == v:
            self.pre[-1][0] = cq(t.id)
            head, close = self.flush(ind)
            self.bind(s, t.id, tv)
            return head + go() + close
        head, close = self.flush(ind)
        self.bind(s, t.id, tv)
        return head + '%slet %s := %s in\n' % (ind, cq(t.id), v) + go() + close

    def ifstmt(self, s, rest, tail, ind):
        for n in ast.walk(s):
            if isinstance(n, (ast.Return, ast.Continue, ast.Break, ast.Raise)):
                fail(n, 'unsupported control flow inside an if')
        # if X is None: X = e          (X an optional float)
        t = s.test
        if isinstance(t, ast.Compare) and len(t.ops) == 1 and isinstance(t.ops[0], ast.Is) and is_none(t.comparators[0]) \
                and isinstance(t.left, ast.Name) and self.env.get(t.left.id) == 'optfloat':
            x = t.left.id
            if s.orelse or len(s.body) != 1 or not isinstance(s.body[0], ast.Assign) or len(s.body[0].targets) != 1 \
                    or not isinstance(s.body[0].targets[0], ast.Name) or s.body[0].targets[0].id != x:
                fail(s, 'only `if %s is None: %s = <float>` is supported for an optional parameter' % (x, x))
            if self.pure or self.pre:
                fail(s, 'unsupported if')
            self.env[x] = 'none'          # reading X inside e would read None
            v = self.exT(s.body[0].value, 'float')
            head, close = self.flush(ind + '    ')
            self.env[x] = 'float'
            return ('%srbind (match %s with\n%s  | Some tmp0 => ROk tmp0\n%s  | None =>\n%s%s    ROk %s%s\n%s  end) (fun %s =>\n'
                    % (ind, cq(x), ind, ind, head, ind, v, close, ind, cq(x))) + self.seq(rest, tail, ind) + ')'
        ab, ao = assigned(s.body), assigned(s.orelse)
        W = [v for v in ab + ao if (v in self.env or (v in ab and v in ao))]
        W = list(dict.fromkeys(W))
        if rest and not W:
            fail(s, 'an if that changes nothing visible')
        env0, nar0 = dict(self.env), dict(self.narrow)
        last = not rest
        fin = tail if last else (lambda: self.tup(W))
        results = []

        def branch(body, i2):
            txt = self.seq(list(body), fin, i2)
            if self.pre:
                fail(s, 'an operation that can raise inside an if')
            results.append({w: self.env.get(w) for w in W})
            return txt

        nar = split_narrow(t)
        if nar:
            E, rs = nar
            et = self.exT(E, 'ostr')
            nm = self.fresh_nm()
            self.narrow[key(E)] = (nm, 'str', {n.id for n in ast.walk(E) if isinstance(n, ast.Name)})
            c = ' && '.join(self.exT(r, 'bool') for r in rs)
            if self.pre:
                fail(s, 'a condition that can raise')
            a = branch(s.body, ind + '      ')
            self.env, self.narrow = dict(env0), dict(nar0)
            b1 = branch(s.orelse, ind + '      ')
            self.env, self.narrow = dict(env0), dict(nar0)
            b2 = branch(s.orelse, ind + '    ')
            body = ('%smatch %s with\n%s| Some %s =>\n%s    if %s then\n%s\n%s    else\n%s\n%s| None =>\n%s\n%send'
                    % (ind + '  ', et, ind + '  ', nm, ind, c, a, ind, b1, ind + '  ', b2, ind + '  '))
        else:
            c = self.exT(t, 'bool')
            if self.pre:
                fail(s, 'a condition that can raise')
            a = branch(s.body, ind + '    ')
            self.env, self.narrow = dict(env0), dict(nar0)
            b1 = branch(s.orelse, ind + '    ')
            body = '%sif %s then\n%s\n%selse\n%s' % (ind + '  ', c, a, ind + '  ', b1)
        self.env, self.narrow = dict(env0), dict(nar0)
        for r in results[1:]:
            if r != results[0]:
                fail(s, 'a variable gets different types in the branches of an if')
        if last:
            return body
        for w in W:
            if results[0][w] is None:
                fail(s, 'variable %s is not assigned in every branch' % w)
            self.bind(s, w, results[0][w], rebinding_param_ok=True)
        return '%slet %s := (\n%s) in\n' % (ind, self.pat(W), body) + self.seq(rest, tail, ind)

    # ------------------------------------------------------------------ function
    def translate(self):
        body = list(self.f.body)
        for s in body:
            for n in ast.walk(s):
                if isinstance(n, (ast.While, ast.For, ast.With, ast.DictComp, ast.SetComp, ast.GeneratorExp, ast.Yield,
                                  ast.YieldFrom, ast.FunctionDef, ast.ClassDef, ast.Global, ast.Nonlocal, ast.Delete,
                                  ast.Await, ast.NamedExpr, ast.Assert, ast.Import, ast.ImportFrom)):
                    fail(n, 'unsupported construct %s' % type(n).__name__)
        if not body or not isinstance(body[-1], ast.Return):
            fail(self.f, 'the function does not end with a return')

        def notail():
            fail(self.f, 'a path without return')
        main = self.seq(body, notail, '  ')
        binders = '(P : pandas) ' + ''.join('(%s : %s) ' % (cq(n), COQTY[t]) for n, t in self.params)
        if self.inplace:
            binders += '(inplace : bool) '
        rty = {'df': 'res (DataFrame P)', 'sort': 'res (DataFrame P * option (DataFrame P))', 'strlist': 'list name'}[self.result]
        return '(* ===== %s (line %d) ===== *)\nDefinition py_%s %s: %s :=\n%s.\n' % (self.name, self.f.lineno, self.name, binders, rty, main)


def check_sig(fdef, names, defaults, vararg=None, kwarg=None):
    a = fdef.args
    got = [x.arg for x in a.args]
    if got != names or (a.vararg.arg if a.vararg else None) != vararg or a.kwonlyargs or getattr(a, 'posonlyargs', []) or \
            (a.kwarg.arg if a.kwarg else None) != kwarg:
        fail(fdef, 'signature of %s changed: %s' % (fdef.name, ast.unparse(a)))
    if [ast.unparse(d) for d in a.defaults] != defaults:
        fail(fdef, 'defaults of %s changed: %s' % (fdef.name, [ast.unparse(d) for d in a.defaults]))
    if fdef.decorator_list:
        fail(fdef, 'decorated function')


def module_defs(tree, wanted, what):
    """the unique module-level definitions of the wanted functions; nothing else in the module may bind those names"""
    defs = {}
    for n in tree.body:
        if isinstance(n, ast.FunctionDef) and n.name in wanted:
            if n.name in defs:
                raise TranslationError('%s: function %s defined twice' % (what, n.name))
            defs[n.name] = n
    for n in ast.walk(tree):
        bound = []
        if isinstance(n, (ast.FunctionDef, ast.ClassDef, ast.AsyncFunctionDef)) and n.name in wanted and defs.get(n.name) is not n:
            bound.append(n.name)
        if isinstance(n, ast.Name) and isinstance(n.ctx, (ast.Store, ast.Del)) and n.id in wanted:
            bound.append(n.id)
        if isinstance(n, ast.alias) and (n.asname or n.name) in wanted:
            bound.append(n.asname or n.name)
        if isinstance(n, ast.arg) and n.arg in wanted:
            bound.append(n.arg)
        if bound:
            raise TranslationError('%s: %s is bound a second time (line %s)' % (what, bound[0], getattr(n, 'lineno', '?')))
    for w in wanted:
        if w not in defs:
            raise TranslationError('%s: function %s not found' % (what, w))
    return defs


def check_call_sites(repo):
    """every call of pandas_sort in trackpy/ (tests excluded): two positional arguments, at most inplace=True"""
    n = 0
    files = sorted(glob.glob(os.path.join(repo, 'trackpy', '**', '*.py'), recursive=True))
    for path in files:
        rel = os.path.relpath(path, repo)
        if os.sep + 'tests' + os.sep in os.sep + rel:
            continue
        try:
            tree = ast.parse(open(path).read())
        except SyntaxError as e:
            raise TranslationError('%s does not parse: %s' % (rel, e))
        for c in ast.walk(tree):
            if isinstance(c, ast.Call) and ((isinstance(c.func, ast.Name) and c.func.id == 'pandas_sort')
                                            or (isinstance(c.func, ast.Attribute) and c.func.attr == 'pandas_sort')):
                n += 1
                ok = len(c.args) == 2 and not any(isinstance(a, ast.Starred) for a in c.args) and len(c.keywords) <= 1 and \
                    all(k.arg == 'inplace' and isinstance(k.value, ast.Constant) and k.value.value is True for k in c.keywords)
                if not ok:
                    raise TranslationError('%s line %d: call `%s` passes arguments the generated pandas_sort does not model '
                                           '(expected pandas_sort(df, by) or pandas_sort(df, by, inplace=True))'
                                           % (rel, c.lineno, ast.unparse(c)))
            elif isinstance(c, ast.Name) and c.id == 'pandas_sort' and isinstance(c.ctx, ast.Load):
                pass
    # a bare reference (passing the function around) would escape the scan
    for path in files:
        rel = os.path.relpath(path, repo)
        if os.sep + 'tests' + os.sep in os.sep + rel:
            continue
        tree = ast.parse(open(path).read())
        called = {id(c.func) for c in ast.walk(tree) if isinstance(c, ast.Call)}
        for x in ast.walk(tree):
            if isinstance(x, ast.Name) and x.id == 'pandas_sort' and isinstance(x.ctx, ast.Load) and id(x) not in called:
                raise TranslationError('%s line %d: pandas_sort is used other than by calling it' % (rel, x.lineno))
    if n == 0:
        raise TranslationError('no call of pandas_sort found in trackpy/')
    return n


HEADER = """(* GENERATED by tools/py2coq_filtering.py from trackpy/filtering.py and trackpy/utils.py -- do not edit.
   filter_stubs, filter_clusters, filter, bust_ghosts, bust_clusters (filtering.py) and
   pandas_sort, guess_pos_columns (utils.py), statement by statement, as Gallina over
   Model/PyFiltering.v: every pandas operation is a field of the interface record
   [P : pandas] (conventions and the list of primitives: that file and the translator's
   docstring).  Proofs/TrajGen.v instantiates P with the three hand-written C20 models.
   py_pandas_sort: `inplace` stands for *args / **kwargs (every call site in trackpy/ passes
   nothing or inplace=True: checked by the translator, %d call sites); the result is
   (the caller's object afterwards, the returned value).
   Pinned defaults: filter_stubs(threshold=100), filter_clusters(quantile=0.8, threshold=None). *)
From Coq Require Import ZArith QArith String List Bool.
From TP Require Import Model.TrajLayout Model.PyFiltering.
Import ListNotations.
Local Open Scope string_scope.
"""

ALL_EXPECTED = "__all__ = ['filter_stubs', 'filter_clusters', 'filter']"
ALIASES = {'bust_ghosts': 'filter_stubs', 'bust_clusters': 'filter_clusters'}


def translate(repo):
    # ---- trackpy/filtering.py: the whole module
    path = os.path.join(repo, 'trackpy', 'filtering.py')
    tree = ast.parse(open(path).read())
    defs, aliases, seen_all = {}, {}, False
    for n in tree.body:
        if isinstance(n, ast.FunctionDef):
            if n.name in defs:
                fail(n, 'function %s defined twice' % n.name)
            defs[n.name] = n
        elif isinstance(n, ast.Expr) and isinstance(n.value, ast.Constant) and isinstance(n.value.value, str):
            pass
        elif isinstance(n, ast.Assign) and ast.unparse(n) == ALL_EXPECTED:
            seen_all = True
        elif isinstance(n, ast.Assign) and len(n.targets) == 1 and isinstance(n.targets[0], ast.Name) \
                and isinstance(n.value, ast.Name) and ALIASES.get(n.targets[0].id) == n.value.id and n.value.id in defs \
                and n.targets[0].id not in aliases:
            aliases[n.targets[0].id] = n.value.id
        else:
            fail(n, 'filtering.py: unexpected module-level statement `%s`' % ast.unparse(n).split('\n')[0])
    if not seen_all:
        raise TranslationError('filtering.py: __all__ changed')
    if sorted(defs) != ['filter', 'filter_clusters', 'filter_stubs']:
        raise TranslationError('filtering.py: functions are %s' % sorted(defs))
    if aliases != ALIASES:
        raise TranslationError('filtering.py: aliases are %s, expected %s' % (aliases, ALIASES))
    for n in ast.walk(tree):      # later aliases must see the final binding of the function names
        if isinstance(n, ast.Name) and isinstance(n.ctx, ast.Store) and n.id in defs:
            fail(n, 'filtering.py: %s is rebound' % n.id)
    out = []
    check_sig(defs['filter_stubs'], ['tracks', 'threshold'], ['100'])
    out.append(Fn(defs['filter_stubs'], [('tracks', 'df'), ('threshold', 'Z')], 'df').translate())
    check_sig(defs['filter_clusters'], ['tracks', 'quantile', 'threshold'], ['0.8', 'None'])
    out.append(Fn(defs['filter_clusters'], [('tracks', 'df'), ('quantile', 'Q'), ('threshold', 'optfloat')], 'df').translate())
    check_sig(defs['filter'], ['tracks', 'condition_func'], [])
    out.append(Fn(defs['filter'], [('tracks', 'df'), ('condition_func', 'func')], 'df').translate())
    for a in sorted(aliases, reverse=True):
        out.append('(* %s = %s *)\nDefinition py_%s := py_%s.\n' % (a, aliases[a], a, aliases[a]))

    # ---- trackpy/utils.py: two functions
    upath = os.path.join(repo, 'trackpy', 'utils.py')
    utree = ast.parse(open(upath).read())
    udefs = module_defs(utree, ['pandas_sort', 'guess_pos_columns'], 'utils.py')
    ncalls = check_call_sites(repo)
    check_sig(udefs['pandas_sort'], ['df', 'by'], [], vararg='args', kwarg='kwargs')
    out.append(Fn(udefs['pandas_sort'], [('df', 'df'), ('by', 'by')], 'sort', mutates=True, inplace=True).translate())
    check_sig(udefs['guess_pos_columns'], ['f'], [])
    out.append(Fn(udefs['guess_pos_columns'], [('f', 'df')], 'strlist').translate())
    return HEADER % ncalls + '\n' + '\n'.join(out)


def main():
    ap = argparse.ArgumentParser()
    ap.add_argument('--repo', default=os.environ.get('TRACKPY_REPO', '/repo'))
    ap.add_argument('--out', default=os.path.join(os.path.dirname(os.path.dirname(os.path.abspath(__file__))), 'coq', 'Gen', 'filtering.v'))
    ap.add_argument('--stdout', action='store_true')
    a = ap.parse_args()
    try:
        text = translate(a.repo)
    except TranslationError as e:
        sys.stderr.write('py2coq_filtering: TRANSLATION ERROR: %s\n' % e)
        sys.exit(2)
    except (OSError, SyntaxError) as e:
        sys.stderr.write('py2coq_filtering: TRANSLATION ERROR: cannot read / parse the source: %s\n' % e)
        sys.exit(2)
    except Exception as e:      # fail closed on anything unforeseen
        sys.stderr.write('py2coq_filtering: TRANSLATION ERROR: internal error %r\n' % (e,))
        sys.exit(2)
    if a.stdout:
        sys.stdout.write(text)
        return
    old = open(a.out).read() if os.path.exists(a.out) else None
    if old != text:
        os.makedirs(os.path.dirname(a.out), exist_ok=True)
        tmp = a.out + '.tmp%d' % os.getpid()
        with open(tmp, 'w') as f:
            f.write(text)
        os.replace(tmp, a.out)
        print('py2coq_filtering: wrote %s (changed)' % a.out)
    else:
        print('py2coq_filtering: %s up to date' % a.out)


if __name__ == '__main__':
    main()
