#!/bin/bash
# tools/regress_seeded.sh [jobs] : run every seeded change under /verif/seeded against the check of its property
# (scratch copy of /repo, quick tier, default seed); prints one line per change: caught / MISSED / NOAPPLY
J=${1:-6}
cd /verif
ls seeded | xargs -P $J -I{} bash -c '
  id={}; prop=${id%%-*}
  D=/tmp/rs-$id; rm -rf $D; mkdir -p $D; git -C /repo archive HEAD | tar -x -C $D
  if ! (cd $D && patch -p1 -s < /verif/seeded/$id/patch.diff) >/dev/null 2>&1; then echo "$id NOAPPLY"; rm -rf $D; exit 0; fi
  out=$(VERIF_EVIDENCE_DIR=/tmp/rs-ev-$id TRACKPY_REPO=$D ./check $prop --tier quick 2>&1 | grep -c "^VIOLATION")
  if [ "$out" -gt 0 ]; then echo "$id caught ($out)"; else echo "$id MISSED"; fi
  rm -rf $D /tmp/rs-ev-$id'
python3 tools/regen_all.py >/dev/null 2>&1
