#!/usr/bin/env python3
"""Fail-closed translator (route T) for C16: the bounds assembly.

Reads  $TRACKPY_REPO/trackpy/refine/least_squares.py  (default /repo) with the
Python `ast` module and regenerates  /verif/coq/Gen/bounds.v :

  validate_bounds_loop / validate_bounds
        FitFunctions.validate_bounds: the body of `for i, param in
        enumerate(self.params)` statement by statement (dictionary look-ups,
        the own-key / broadcast-key / default cascade) and the three (2, P)
        arrays it fills column by column;
  compute_bounds_<var> / compute_bounds
        FitFunctions.compute_bounds: one function per entry-wise numpy variable
        (bound_low, bound_high: nanmax / nanmin / fmax / fmin / NaN -> -+inf on
        one entry params[i, j]), their broadcast over the parameter array, the
        packing through vect_from_params(.., operation=np.min / np.max) and the
        returned pair of columns;
  refine_leastsq_radius / refine_leastsq_f_bounds
        the wiring inside refine_leastsq: radius = tuple([x//2 for x in
        diameter]); bounds = ff.validate_bounds(bounds, radius=radius);
        f_bounds = ff.compute_bounds(bounds, params, groups) once per unit,
        inside the try block and BEFORE the recentring loop;
        minimize(..., bounds=f_bounds, ...) inside that loop.

Vocabulary of the generated text: coq/Model/PyBounds.v (read its header for the
meaning of every construct).  Translated subset -- anything else, a missing
function, a changed signature, a second assignment to one of the wired names,
is an ERROR (exit status 2, nothing written); the check treats that like a
broken proof:

  validate_bounds
    `if bounds is None: bounds = dict()` ;
    `A = np.empty((2, len(self.params)), dtype=np.float64)` (three arrays) ;
    `for i, param in enumerate(self.params):` with body statements
        v = bounds.get(K, np.nan)        K ::= param | param + '<suffix>' | '<broadcast name>'
        v = (e, e)                       e ::= float literal | np.nan | name of a float variable
        v = float(radius[self.pos_columns.index(param)])
        if C: <statements>               (no else; variables first bound inside are local to the branch)
        A[:, i] = v                      (top level of the loop body, each array exactly once)
      C ::= atom | atom and atom ... ;   atom ::= v is np.nan | param in L
      L ::= self.pos_columns | self.size_columns | ['background' | 'signal', ...] | L + L
    `return A1, A2, A3`
  compute_bounds
    `a, d, r = bounds` ; `with np.errstate(..)` / `with warnings.catch_warnings()` (transparent),
    `warnings.simplefilter(..)` (dropped) ;
        x = np.nanmax([e1, e2], axis=0) | np.nanmin([e1, e2], axis=0)
        x = np.fmax(x, v) | np.fmin(x, v)
        x[np.isnan(x)] = np.inf | -np.inf
      e ::= params (+|-|*|/) v ;  v ::= a[0] | a[1] | d[0] | ...
    x = vect_from_params(x, self.modes, groups, operation=np.min | np.max)
    `return np.array([x, y], dtype=np.float64).T`

Usage:  py2coq_bounds.py [--repo /repo] [--out /verif/coq/Gen/bounds.v] [--stdout]
"""
import ast, sys, os, argparse
from fractions import Fraction

SUFFIXES = ('_abs', '_rel')
BROADCAST = ('pos', 'pos_abs', 'pos_rel', 'size', 'size_abs', 'size_rel')
PLAIN_NAMES = ('background', 'signal')


class TranslationError(Exception):
    pass


def fail(node, msg):
    raise TranslationError('line %s: %s' % (getattr(node, 'lineno', '?'), msg))


def is_np(e, attr):
    return isinstance(e, ast.Attribute) and e.attr == attr and isinstance(e.value, ast.Name) and e.value.id == 'np'


def is_self(e, attr):
    return isinstance(e, ast.Attribute) and e.attr == attr and isinstance(e.value, ast.Name) and e.value.id == 'self'


def is_name(e, n=None):
    return isinstance(e, ast.Name) and (n is None or e.id == n)


def qlit(v, node=None):
    if isinstance(v, bool) or not isinstance(v, (int, float)):
        fail(node, 'unsupported constant %r' % (v,))
    if isinstance(v, float) and (v != v or v in (float('inf'), float('-inf'))):
        fail(node, 'non-finite literal')
    f = Fraction(v)
    return '(%d # %d)' % (f.numerator, f.denominator)


def body_wo_doc(fn):
    b = list(fn.body)
    if b and isinstance(b[0], ast.Expr) and isinstance(b[0].value, ast.Constant) and isinstance(b[0].value.value, str):
        b = b[1:]
    return b


def signature(fn):
    a = fn.args
    if a.vararg or a.kwarg or a.kwonlyargs or getattr(a, 'posonlyargs', []):
        fail(fn, 'unsupported signature of %s' % fn.name)
    names = [x.arg for x in a.args]
    nd = len(a.defaults)
    defaults = [None] * (len(names) - nd) + list(a.defaults)
    for d in a.defaults:
        if not (isinstance(d, ast.Constant) and d.value is None):
            fail(fn, 'default argument of %s is not None' % fn.name)
    return names, [d is not None for d in defaults]


# ----------------------------------------------------------------------------
# validate_bounds
# ----------------------------------------------------------------------------
class Validate:
    def __init__(self, fn):
        self.fn = fn
        self.lines = []
        self.arrays = []
        self.stores = {}

    def key(self, e):
        if is_name(e, 'param'):
            return '(key_param param "")'
        if isinstance(e, ast.BinOp) and isinstance(e.op, ast.Add) and is_name(e.left, 'param') \
                and isinstance(e.right, ast.Constant) and isinstance(e.right.value, str):
            if e.right.value not in SUFFIXES:
                fail(e, 'unknown key suffix %r' % e.right.value)
            return '(key_param param "%s")' % e.right.value
        if isinstance(e, ast.Constant) and isinstance(e.value, str):
            if e.value not in BROADCAST:
                fail(e, 'unknown broadcast key %r' % e.value)
            return '(key_lit "%s")' % e.value
        fail(e, 'unsupported dictionary key')

    def member_list(self, e):
        """`L` of `param in L` -> Coq bool term"""
        if is_self(e, 'pos_columns'):
            return '(in_pos_columns param)'
        if is_self(e, 'size_columns'):
            return '(in_size_columns param)'
        if isinstance(e, ast.List):
            names = []
            for x in e.elts:
                if not (isinstance(x, ast.Constant) and x.value in PLAIN_NAMES):
                    fail(e, 'only %s may be listed by name' % (PLAIN_NAMES,))
                names.append('"%s"' % x.value)
            return '(in_names param [%s])' % '; '.join(names)
        if isinstance(e, ast.BinOp) and isinstance(e.op, ast.Add):
            return '(%s || %s)' % (self.member_list(e.left), self.member_list(e.right))
        fail(e, 'unsupported list in a membership test')

    def atom(self, e, env):
        if isinstance(e, ast.Compare) and len(e.ops) == 1:
            op, rhs = e.ops[0], e.comparators[0]
            if isinstance(op, ast.Is) and is_np(rhs, 'nan') and is_name(e.left):
                if env.get(e.left.id) != 'obj':
                    fail(e, '`is np.nan` on %s, which is not a dictionary value' % e.left.id)
                return '(is_np_nan %s)' % e.left.id
            if isinstance(op, ast.In) and is_name(e.left, 'param'):
                return self.member_list(rhs)
        fail(e, 'unsupported condition')

    def cond(self, e, env):
        if isinstance(e, ast.BoolOp) and isinstance(e.op, ast.And):
            return '(' + ' && '.join(self.atom(x, env) for x in e.values) + ')'
        return self.atom(e, env)

    def flt(self, e, env):
        """element of a tuple: an ext"""
        if isinstance(e, ast.Constant):
            return '(Fin %s)' % qlit(e.value, e)
        if is_np(e, 'nan'):
            return 'NaN'
        if is_name(e) and env.get(e.id) == 'flt':
            return e.id
        fail(e, 'unsupported tuple element')

    def rhs(self, e, env):
        """-> (type, term)"""
        if isinstance(e, ast.Call) and isinstance(e.func, ast.Attribute) and e.func.attr == 'get' \
                and is_name(e.func.value, 'bounds') and len(e.args) == 2 and not e.keywords and is_np(e.args[1], 'nan'):
            return 'obj', '(dict_get bounds %s)' % self.key(e.args[0])
        if isinstance(e, ast.Tuple) and len(e.elts) == 2:
            return 'obj', '(Some (Pair %s %s))' % (self.flt(e.elts[0], env), self.flt(e.elts[1], env))
        if isinstance(e, ast.Call) and is_name(e.func, 'float') and len(e.args) == 1 and not e.keywords:
            a = e.args[0]
            if isinstance(a, ast.Subscript) and is_name(a.value, 'radius'):
                i = a.slice
                if isinstance(i, ast.Call) and isinstance(i.func, ast.Attribute) and i.func.attr == 'index' \
                        and is_self(i.func.value, 'pos_columns') and len(i.args) == 1 and is_name(i.args[0], 'param') and not i.keywords:
                    return 'flt', '(py_float_Z (nth (pos_index param) radius 0%Z))'
        fail(e, 'unsupported right-hand side')

    def assigned(self, stmts):
        out = []
        for s in stmts:
            if isinstance(s, ast.Assign) and len(s.targets) == 1 and is_name(s.targets[0]):
                if s.targets[0].id not in out:
                    out.append(s.targets[0].id)
            elif isinstance(s, ast.If):
                for n in self.assigned(s.body):
                    if n not in out:
                        out.append(n)
        return out

    def block(self, stmts, env, ind, top):
        """emit `let` lines for stmts; env: name -> type, updated"""
        out = []
        pad = '  ' * ind
        for s in stmts:
            if isinstance(s, ast.Assign) and len(s.targets) == 1 and is_name(s.targets[0]):
                nm = s.targets[0].id
                if nm in ('param', 'bounds', 'radius', 'i', 'self'):
                    fail(s, 'assignment to %s inside the loop' % nm)
                ty, term = self.rhs(s.value, env)
                if nm in env and env[nm] != ty:
                    fail(s, '%s changes type' % nm)
                env[nm] = ty
                out.append('%slet %s := %s in' % (pad, nm, term))
            elif isinstance(s, ast.If):
                if s.orelse:
                    fail(s, '`else` is outside the subset')
                c = self.cond(s.test, env)
                exported = [n for n in self.assigned(s.body) if n in env]
                if not exported:
                    fail(s, 'an `if` that assigns no live variable')
                inner = dict(env)
                body = self.block(s.body, inner, ind + 2, False)
                for n in exported:
                    if inner[n] != env[n]:
                        fail(s, '%s changes type' % n)
                tup = exported[0] if len(exported) == 1 else '(%s)' % ', '.join(exported)
                pat = exported[0] if len(exported) == 1 else "'(%s)" % ', '.join(exported)
                out.append('%slet %s :=' % (pad, pat))
                out.append('%s  if %s then' % (pad, c))
                out += body
                out.append('%s    %s' % (pad, tup))
                out.append('%s  else %s in' % (pad, tup))
            elif isinstance(s, ast.Assign) and len(s.targets) == 1 and isinstance(s.targets[0], ast.Subscript):
                t = s.targets[0]
                if not top:
                    fail(s, 'array store inside a branch')
                sl = t.slice
                ok = is_name(t.value) and t.value.id in self.arrays and isinstance(sl, ast.Tuple) and len(sl.elts) == 2 \
                    and isinstance(sl.elts[0], ast.Slice) and sl.elts[0].lower is None and sl.elts[0].upper is None and sl.elts[0].step is None \
                    and is_name(sl.elts[1], 'i')
                if not ok:
                    fail(s, 'unsupported array store')
                if t.value.id in self.stores:
                    fail(s, 'second store into %s' % t.value.id)
                if not (is_name(s.value) and env.get(s.value.id) == 'obj'):
                    fail(s, 'stored value is not a dictionary value')
                # freeze the value under a fresh name: later statements may reassign the variable
                fresh = 'col_%s' % t.value.id
                out.append('%slet %s := col_of %s in' % (pad, fresh, s.value.id))
                self.stores[t.value.id] = fresh
            else:
                fail(s, 'unsupported statement %s' % type(s).__name__)
        return out

    def run(self):
        fn = self.fn
        names, _ = signature(fn)
        if names != ['self', 'bounds', 'radius']:
            fail(fn, 'validate_bounds: expected (self, bounds=None, radius=None)')
        body = body_wo_doc(fn)
        if len(body) != 6:
            fail(fn, 'validate_bounds: expected 6 top-level statements, found %d' % len(body))
        s0 = body[0]
        ok = isinstance(s0, ast.If) and not s0.orelse and isinstance(s0.test, ast.Compare) and is_name(s0.test.left, 'bounds') \
            and len(s0.test.ops) == 1 and isinstance(s0.test.ops[0], ast.Is) and isinstance(s0.test.comparators[0], ast.Constant) \
            and s0.test.comparators[0].value is None and len(s0.body) == 1 and isinstance(s0.body[0], ast.Assign) \
            and is_name(s0.body[0].targets[0], 'bounds') and isinstance(s0.body[0].value, ast.Call) and is_name(s0.body[0].value.func, 'dict') \
            and not s0.body[0].value.args and not s0.body[0].value.keywords
        if not ok:
            fail(s0, 'expected `if bounds is None: bounds = dict()`')
        for s in body[1:4]:
            ok = isinstance(s, ast.Assign) and len(s.targets) == 1 and is_name(s.targets[0]) and isinstance(s.value, ast.Call) \
                and is_np(s.value.func, 'empty') and len(s.value.args) == 1
            if ok:
                sh = s.value.args[0]
                ok = isinstance(sh, ast.Tuple) and len(sh.elts) == 2 and isinstance(sh.elts[0], ast.Constant) and sh.elts[0].value == 2 \
                    and isinstance(sh.elts[1], ast.Call) and is_name(sh.elts[1].func, 'len') and len(sh.elts[1].args) == 1 \
                    and is_self(sh.elts[1].args[0], 'params')
                kw = s.value.keywords
                ok = ok and len(kw) == 1 and kw[0].arg == 'dtype' and is_np(kw[0].value, 'float64')
            if not ok:
                fail(s, 'expected `<arr> = np.empty((2, len(self.params)), dtype=np.float64)`')
            self.arrays.append(s.targets[0].id)
        if len(set(self.arrays)) != 3:
            fail(fn, 'array names are not distinct')
        lp = body[4]
        ok = isinstance(lp, ast.For) and not lp.orelse and isinstance(lp.target, ast.Tuple) and len(lp.target.elts) == 2 \
            and is_name(lp.target.elts[0], 'i') and is_name(lp.target.elts[1], 'param') and isinstance(lp.iter, ast.Call) \
            and is_name(lp.iter.func, 'enumerate') and len(lp.iter.args) == 1 and is_self(lp.iter.args[0], 'params') and not lp.iter.keywords
        if not ok:
            fail(lp, 'expected `for i, param in enumerate(self.params):`')
        env = {}
        lines = self.block(lp.body, env, 1, True)
        ret = body[5]
        if not (isinstance(ret, ast.Return) and isinstance(ret.value, ast.Tuple) and len(ret.value.elts) == 3
                and all(is_name(x) for x in ret.value.elts)):
            fail(ret, 'expected `return <arr>, <arr>, <arr>`')
        order = [x.id for x in ret.value.elts]
        if sorted(order) != sorted(self.arrays) or set(self.stores) != set(self.arrays):
            fail(ret, 'the returned arrays are not the three filled arrays')
        out = ['(* line %d: body of `for i, param in enumerate(self.params)`; result = column i of (%s) *)' % (lp.lineno, ', '.join(order)),
               'Definition validate_bounds_loop (bounds : bdict) (radius : list Z) (param : pkind) : (ext * ext) * (ext * ext) * (ext * ext) :=']
        out += lines
        out.append('  (%s).' % ', '.join(self.stores[a] for a in order))
        out.append('')
        out.append('(* line %d: FitFunctions.validate_bounds(self, bounds=None, radius=None); self_params = self.params *)' % fn.lineno)
        out.append('Definition validate_bounds (self_params : list pkind) (bounds : option bdict) (radius : list Z) : arr2 * arr2 * arr2 :=')
        out.append('  let bounds := match bounds with None => empty_dict | Some b => b end in')
        out.append('  let cols := map (validate_bounds_loop bounds radius) self_params in')
        out.append('  (map (fun c => fst (fst c)) cols, map (fun c => snd (fst c)) cols, map (fun c => snd c) cols).')
        return out


# ----------------------------------------------------------------------------
# compute_bounds
# ----------------------------------------------------------------------------
class Compute:
    OPS = {ast.Sub: 'fsub', ast.Div: 'fdiv', ast.Add: 'fadd', ast.Mult: 'fmul'}

    def __init__(self, fn):
        self.fn = fn
        self.vecs = []          # names unpacked from `bounds`
        self.entry = {}         # entry-wise variable -> list of lines
        self.order = []

    def vec(self, e):
        if isinstance(e, ast.Subscript) and is_name(e.value) and e.value.id in self.vecs and isinstance(e.slice, ast.Constant) \
                and e.slice.value in (0, 1) and not isinstance(e.slice.value, bool):
            return '(%s %s)' % ('fst' if e.slice.value == 0 else 'snd', e.value.id)
        fail(e, 'expected <bounds array>[0] or [1]')

    def arith(self, e):
        if isinstance(e, ast.BinOp) and is_name(e.left, 'params'):
            for k, f in self.OPS.items():
                if isinstance(e.op, k):
                    return '(%s params %s)' % (f, self.vec(e.right))
        fail(e, 'expected params (+|-|*|/) <bounds array>[k]')

    def statement(self, s):
        if isinstance(s, ast.With):
            for it in s.items:
                c = it.context_expr
                ok = it.optional_vars is None and isinstance(c, ast.Call) and (
                    is_np(c.func, 'errstate') or
                    (isinstance(c.func, ast.Attribute) and c.func.attr == 'catch_warnings' and is_name(c.func.value, 'warnings') and not c.args and not c.keywords))
                if not ok:
                    fail(s, 'unsupported context manager')
            for t in s.body:
                self.statement(t)
            return
        if isinstance(s, ast.Expr) and isinstance(s.value, ast.Call) and isinstance(s.value.func, ast.Attribute) \
                and s.value.func.attr == 'simplefilter' and is_name(s.value.func.value, 'warnings'):
            return
        if isinstance(s, ast.Assign) and len(s.targets) == 1 and is_name(s.targets[0]):
            x = s.targets[0].id
            if x in self.vecs or x in ('params', 'groups', 'bounds', 'self'):
                fail(s, 'assignment to %s' % x)
            v = s.value
            if isinstance(v, ast.Call) and (is_np(v.func, 'nanmax') or is_np(v.func, 'nanmin')):
                kw = v.keywords
                ok = len(v.args) == 1 and isinstance(v.args[0], ast.List) and len(v.args[0].elts) == 2 and len(kw) == 1 \
                    and kw[0].arg == 'axis' and isinstance(kw[0].value, ast.Constant) and kw[0].value.value == 0
                if not ok:
                    fail(s, 'expected np.%s([e1, e2], axis=0)' % v.func.attr)
                if x in self.entry:
                    fail(s, '%s defined twice by nanmax/nanmin' % x)
                self.entry[x] = ['  let %s := np_%s2 %s %s in' % (x, v.func.attr, self.arith(v.args[0].elts[0]), self.arith(v.args[0].elts[1]))]
                self.order.append(x)
                return
            if isinstance(v, ast.Call) and (is_np(v.func, 'fmax') or is_np(v.func, 'fmin')):
                if not (len(v.args) == 2 and not v.keywords and is_name(v.args[0], x) and x in self.entry):
                    fail(s, 'expected %s = np.%s(%s, <bounds array>[k])' % (x, v.func.attr, x))
                self.entry[x].append('  let %s := np_%s %s %s in' % (x, v.func.attr, x, self.vec(v.args[1])))
                return
            fail(s, 'unsupported assignment')
        if isinstance(s, ast.Assign) and len(s.targets) == 1 and isinstance(s.targets[0], ast.Subscript):
            t = s.targets[0]
            ok = is_name(t.value) and t.value.id in self.entry and isinstance(t.slice, ast.Call) and is_np(t.slice.func, 'isnan') \
                and len(t.slice.args) == 1 and is_name(t.slice.args[0], t.value.id) and not t.slice.keywords
            if not ok:
                fail(s, 'expected x[np.isnan(x)] = +-np.inf')
            x = t.value.id
            if is_np(s.value, 'inf'):
                c = 'PInf'
            elif isinstance(s.value, ast.UnaryOp) and isinstance(s.value.op, ast.USub) and is_np(s.value.operand, 'inf'):
                c = 'NInf'
            else:
                fail(s, 'expected +-np.inf')
            self.entry[x].append('  let %s := if np_isnan %s then %s else %s in' % (x, x, c, x))
            return
        fail(s, 'unsupported statement %s' % type(s).__name__)

    def run(self):
        fn = self.fn
        names, _ = signature(fn)
        if names != ['self', 'bounds', 'params', 'groups']:
            fail(fn, 'compute_bounds: expected (self, bounds, params, groups=None)')
        body = body_wo_doc(fn)
        s0 = body[0]
        if not (isinstance(s0, ast.Assign) and len(s0.targets) == 1 and isinstance(s0.targets[0], ast.Tuple) and len(s0.targets[0].elts) == 3
                and all(is_name(x) for x in s0.targets[0].elts) and is_name(s0.value, 'bounds')):
            fail(s0, 'expected `a, d, r = bounds`')
        self.vecs = [x.id for x in s0.targets[0].elts]
        if len(set(self.vecs)) != 3:
            fail(s0, 'duplicate names')
        rest = body[1:]
        # entry-wise part: everything up to the first vect_from_params call
        k = 0
        while k < len(rest) and not (isinstance(rest[k], ast.Assign) and isinstance(rest[k].value, ast.Call)
                                     and is_name(rest[k].value.func, 'vect_from_params')):
            self.statement(rest[k])
            k += 1
        packs = []
        while k < len(rest) and isinstance(rest[k], ast.Assign):
            s = rest[k]
            v = s.value
            ok = len(s.targets) == 1 and is_name(s.targets[0]) and isinstance(v, ast.Call) and is_name(v.func, 'vect_from_params') \
                and len(v.args) == 3 and is_name(v.args[0], s.targets[0].id) and s.targets[0].id in self.entry \
                and is_self(v.args[1], 'modes') and is_name(v.args[2], 'groups') and len(v.keywords) == 1 and v.keywords[0].arg == 'operation' \
                and (is_np(v.keywords[0].value, 'min') or is_np(v.keywords[0].value, 'max'))
            if not ok:
                fail(s, 'expected x = vect_from_params(x, self.modes, groups, operation=np.min|np.max)')
            if s.targets[0].id in [p[0] for p in packs]:
                fail(s, '%s packed twice' % s.targets[0].id)
            packs.append((s.targets[0].id, 'np_' + v.keywords[0].value.attr, s.lineno))
            k += 1
        if k != len(rest) - 1:
            fail(fn, 'unexpected statements before the return')
        ret = rest[k]
        v = ret.value if isinstance(ret, ast.Return) else None
        ok = isinstance(v, ast.Attribute) and v.attr == 'T' and isinstance(v.value, ast.Call) and is_np(v.value.func, 'array') \
            and len(v.value.args) == 1 and isinstance(v.value.args[0], ast.List) and len(v.value.args[0].elts) == 2 \
            and all(is_name(x) for x in v.value.args[0].elts) and len(v.value.keywords) == 1 and v.value.keywords[0].arg == 'dtype' \
            and is_np(v.value.keywords[0].value, 'float64')
        if not ok:
            fail(ret, 'expected `return np.array([lo, hi], dtype=np.float64).T`')
        cols = [x.id for x in v.value.args[0].elts]
        if sorted(cols) != sorted(p[0] for p in packs) or len(set(cols)) != 2 or sorted(cols) != sorted(self.order):
            fail(ret, 'the returned columns are not the two packed entry-wise variables')
        out = []
        a, d, r = self.vecs
        for x in self.order:
            out.append('(* FitFunctions.compute_bounds, the statements defining `%s`, on one entry params[i, j];' % x)
            out.append('   %s, %s, %s = column j of the three arrays of validate_bounds *)' % (a, d, r))
            out.append('Definition compute_bounds_%s (%s %s %s : ext * ext) (params : Q) : ext :=' % (x, a, d, r))
            out += self.entry[x]
            out.append('  %s.' % x)
            out.append('')
        out.append('(* line %d: FitFunctions.compute_bounds(self, bounds, params, groups=None); self_modes = self.modes;' % fn.lineno)
        out.append('   result = the two columns of the (len(vect), 2) array handed to scipy *)')
        out.append('Definition compute_bounds (self_modes : list nat) (bounds : arr2 * arr2 * arr2) (params : list (list Q)) (groups : grouping) : list ext * list ext :=')
        out.append("  let '(%s, %s, %s) := bounds in" % (a, d, r))
        for x in self.order:
            out.append('  let %s := bcast compute_bounds_%s %s %s %s params in' % (x, x, a, d, r))
        for x, op, ln in packs:
            out.append('  let %s := vect_from_params %s self_modes groups %s in' % (x, x, op))
        out.append('  (%s, %s).' % (cols[0], cols[1]))
        return out


# ----------------------------------------------------------------------------
# wiring inside refine_leastsq
# ----------------------------------------------------------------------------
def assigns_to(fn, name):
    out = []
    for n in ast.walk(fn):
        if isinstance(n, ast.Assign):
            for t in n.targets:
                for m in ast.walk(t):
                    if isinstance(m, ast.Name) and m.id == name:
                        out.append(n)
        elif isinstance(n, (ast.AugAssign, ast.AnnAssign)) and is_name(n.target, name):
            out.append(n)
        elif isinstance(n, ast.For):
            for m in ast.walk(n.target):
                if isinstance(m, ast.Name) and m.id == name:
                    out.append(n)
        elif isinstance(n, ast.With):
            for it in n.items:
                if it.optional_vars is not None and any(isinstance(m, ast.Name) and m.id == name for m in ast.walk(it.optional_vars)):
                    out.append(n)
    return out


def wiring(fn):
    names, _ = signature_any(fn)
    for need in ('bounds', 'diameter'):
        if need not in names:
            fail(fn, 'refine_leastsq has no parameter %s' % need)

    def single(name):
        a = assigns_to(fn, name)
        if len(a) != 1 or not isinstance(a[0], ast.Assign) or len(a[0].targets) != 1 or not is_name(a[0].targets[0], name):
            fail(fn, 'refine_leastsq: expected exactly one plain assignment to %s, found %d' % (name, len(a)))
        return a[0]
    # radius = tuple([x//2 for x in diameter])
    s_rad = single('radius')
    v = s_rad.value
    ok = isinstance(v, ast.Call) and is_name(v.func, 'tuple') and len(v.args) == 1 and not v.keywords and isinstance(v.args[0], ast.ListComp)
    if ok:
        lc = v.args[0]
        g = lc.generators
        ok = len(g) == 1 and not g[0].ifs and is_name(g[0].target) and is_name(g[0].iter, 'diameter') and isinstance(lc.elt, ast.BinOp) \
            and isinstance(lc.elt.op, ast.FloorDiv) and is_name(lc.elt.left, g[0].target.id) and isinstance(lc.elt.right, ast.Constant) \
            and lc.elt.right.value == 2 and not isinstance(lc.elt.right.value, bool)
    if not ok:
        fail(s_rad, 'expected `radius = tuple([x//2 for x in diameter])`')
    # diameter = validate_tuple(diameter, ndim) is the only assignment allowed to diameter
    for a in assigns_to(fn, 'diameter'):
        ok = isinstance(a, ast.Assign) and isinstance(a.value, ast.Call) and is_name(a.value.func, 'validate_tuple') \
            and len(a.value.args) == 2 and is_name(a.value.args[0], 'diameter') and a.lineno < s_rad.lineno
        if not ok:
            fail(a, 'unexpected assignment to diameter')
    # bounds = ff.validate_bounds(bounds, radius=radius)
    s_b = single('bounds')
    v = s_b.value
    ok = isinstance(v, ast.Call) and isinstance(v.func, ast.Attribute) and v.func.attr == 'validate_bounds' and is_name(v.func.value, 'ff') \
        and len(v.args) == 1 and is_name(v.args[0], 'bounds') and len(v.keywords) == 1 and v.keywords[0].arg == 'radius' \
        and is_name(v.keywords[0].value, 'radius')
    if not ok:
        fail(s_b, 'expected `bounds = ff.validate_bounds(bounds, radius=radius)`')
    if s_b not in fn.body or s_rad not in fn.body or not s_rad.lineno < s_b.lineno:
        fail(s_b, 'radius / bounds are not assigned at the top level of refine_leastsq, in this order')
    # f_bounds = ff.compute_bounds(bounds, params, groups): direct child of the try body, before the for
    s_f = single('f_bounds')
    v = s_f.value
    ok = isinstance(v, ast.Call) and isinstance(v.func, ast.Attribute) and v.func.attr == 'compute_bounds' and is_name(v.func.value, 'ff') \
        and len(v.args) == 3 and not v.keywords and is_name(v.args[0], 'bounds') and is_name(v.args[1], 'params') and is_name(v.args[2], 'groups')
    if not ok:
        fail(s_f, 'expected `f_bounds = ff.compute_bounds(bounds, params, groups)`')
    tries = [n for n in ast.walk(fn) if isinstance(n, ast.Try) and s_f in n.body]
    if len(tries) != 1:
        fail(s_f, 'f_bounds is not assigned directly inside the try block')
    tr = tries[0]
    if not tr.lineno > s_b.lineno:
        fail(tr, 'the try block precedes validate_bounds')
    loops = [n for n in tr.body if isinstance(n, ast.For)]
    if len(loops) != 1 or not loops[0].lineno > s_f.lineno:
        fail(tr, 'expected exactly one for loop in the try block, after f_bounds')
    lp = loops[0]
    ok = is_name(lp.iter.func if isinstance(lp.iter, ast.Call) else None, 'range') and len(lp.iter.args) == 1 and is_name(lp.iter.args[0], 'max_iter')
    if not ok:
        fail(lp, 'expected `for _ in range(max_iter)`')
    # between `params = f_iter[ff.params].values` and f_bounds, params is not reassigned (only inside the loop)
    for a in assigns_to(fn, 'params'):
        inside = any(a is m for m in ast.walk(lp))
        if not inside and not (a.lineno < tr.lineno):
            fail(a, 'params reassigned between the start of the try block and the loop')
    for a in assigns_to(fn, 'groups'):
        if not a.lineno < tr.lineno:
            fail(a, 'groups reassigned inside the try block')
    # minimize(..., bounds=f_bounds, ...) : exactly one call, inside the loop
    calls = [n for n in ast.walk(fn) if isinstance(n, ast.Call) and is_name(n.func, 'minimize')]
    if len(calls) != 1 or not any(calls[0] is m for m in ast.walk(lp)):
        fail(fn, 'expected exactly one call of minimize, inside the recentring loop')
    kws = [k for k in calls[0].keywords if k.arg == 'bounds']
    if len(kws) != 1 or not is_name(kws[0].value, 'f_bounds'):
        fail(calls[0], 'expected minimize(..., bounds=f_bounds, ...)')
    out = ['(* refine_leastsq line %d: radius = tuple([x//2 for x in diameter]) *)' % s_rad.lineno,
           'Definition refine_leastsq_radius (diameter : list Z) : list Z := map (fun x => (x / 2)%Z) diameter.',
           '',
           '(* refine_leastsq line %d: bounds = ff.validate_bounds(bounds, radius=radius)   (once, before the loop over units)' % s_b.lineno,
           '                  line %d: f_bounds = ff.compute_bounds(bounds, params, groups) (per unit, in the try block, BEFORE' % s_f.lineno,
           '                            `for _n_iter in range(max_iter)` of line %d: from the START values of the unit)' % lp.lineno,
           '                  line %d: minimize(residual, vect, bounds=f_bounds, ...)       (every recentring iteration) *)' % calls[0].lineno,
           'Definition refine_leastsq_f_bounds (ff_params : list pkind) (ff_modes : list nat) (bounds : option bdict) (diameter : list Z)',
           '           (params : list (list Q)) (groups : grouping) : list ext * list ext :=',
           '  let radius := refine_leastsq_radius diameter in',
           '  let bounds := validate_bounds ff_params bounds radius in',
           '  let f_bounds := compute_bounds ff_modes bounds params groups in',
           '  f_bounds.']
    return out


def signature_any(fn):
    a = fn.args
    return [x.arg for x in a.args] + [x.arg for x in a.kwonlyargs], None


def translate(repo):
    path = os.path.join(repo, 'trackpy', 'refine', 'least_squares.py')
    src = open(path).read()
    tree = ast.parse(src)
    classes = {n.name: n for n in tree.body if isinstance(n, ast.ClassDef)}
    funs = {n.name: n for n in tree.body if isinstance(n, ast.FunctionDef)}
    if 'FitFunctions' not in classes:
        raise TranslationError('class FitFunctions not found')
    meth = {}
    for n in classes['FitFunctions'].body:
        if isinstance(n, ast.FunctionDef):
            if n.name in meth:
                raise TranslationError('method %s defined twice' % n.name)
            meth[n.name] = n
    for m in ('validate_bounds', 'compute_bounds'):
        if m not in meth:
            raise TranslationError('method FitFunctions.%s not found' % m)
        if meth[m].decorator_list:
            raise TranslationError('method FitFunctions.%s is decorated' % m)
    if 'refine_leastsq' not in funs:
        raise TranslationError('function refine_leastsq not found')
    out = ['(* GENERATED by tools/py2coq_bounds.py from trackpy/refine/least_squares.py -- do not edit.',
           '   FitFunctions.validate_bounds and FitFunctions.compute_bounds statement by statement, and the',
           '   statements of refine_leastsq that hand their result to scipy; see the translator for the subset,',
           '   Model/PyBounds.v for the vocabulary. *)',
           'From Coq Require Import ZArith QArith List Bool String.',
           'From TP Require Import Model.RefineBounds Model.PyBounds.',
           'Import ListNotations.',
           'Open Scope string_scope.',
           '']
    out += Validate(meth['validate_bounds']).run()
    out.append('')
    out += Compute(meth['compute_bounds']).run()
    out.append('')
    out += wiring(funs['refine_leastsq'])
    out.append('')
    return '\n'.join(out)


def main():
    ap = argparse.ArgumentParser()
    ap.add_argument('--repo', default=os.environ.get('TRACKPY_REPO', '/repo'))
    ap.add_argument('--out', default=os.path.join(os.path.dirname(os.path.dirname(os.path.abspath(__file__))), 'coq', 'Gen', 'bounds.v'))
    ap.add_argument('--stdout', action='store_true')
    a = ap.parse_args()
    try:
        text = translate(a.repo)
    except TranslationError as e:
        sys.stderr.write('py2coq_bounds: TRANSLATION ERROR: %s\n' % e)
        sys.exit(2)
    if a.stdout:
        sys.stdout.write(text)
        return
    old = open(a.out).read() if os.path.exists(a.out) else None
    if old != text:
        os.makedirs(os.path.dirname(a.out), exist_ok=True)
        tmp = a.out + '.tmp%d' % os.getpid()
        with open(tmp, 'w') as f:
            f.write(text)
        os.replace(tmp, a.out)
        print('py2coq_bounds: wrote %s (changed)' % a.out)
    else:
        print('py2coq_bounds: %s up to date' % a.out)


if __name__ == '__main__':
    main()
