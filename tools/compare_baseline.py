#!/usr/bin/env python3
"""Compare a junit xml with BASELINE.json's stable_pass set."""
import json, sys, xml.etree.ElementTree as ET
base = set(json.load(open('/root/.vp/BASELINE.json'))['stable_pass'])
t = ET.parse(sys.argv[1])
passed = set()
for tc in t.iter('testcase'):
    if not any(c.tag in ('failure', 'error', 'skipped') for c in tc):
        passed.add(tc.get('classname') + '::' + tc.get('name'))
print('passed', len(passed), 'baseline', len(base), 'missing', len(base - passed), 'extra', len(passed - base))
for m in sorted(base - passed)[:20]:
    print('  MISSING', m)
sys.exit(1 if base - passed else 0)
