#!/usr/bin/env python3
"""Fail-closed translator (route T) for the linking core of C02.

Reads, with the Python `ast` module, the CURRENT source text of

    SubnetLinker.__init__, SubnetLinker.do_recur   $TRACKPY_REPO/trackpy/linking/subnetlinker.py
    assign_subnet                                  $TRACKPY_REPO/trackpy/linking/subnet.py

(default repo /repo) and regenerates  /verif/coq/Gen/linker_core.v :

    py_do_recur           the pruned recursive search, statement by statement
    py_SubnetLinker_init  the constructor (sort of s_lst, initial best_sum = inf, cur_sum = 0,
                          empty d_taken / cur_pairs, size check, do_recur(0))
    py_assign_subnet      the subnet-dictionary update

The embedding is shallow and state passing (vocabulary and its meaning: coq/Model/PyLinker.v).
Every statement becomes a term of type `outcome state` (Normal / Continue / Return / Raise);
`s1; s2` is `bind s1 (fun state => s2)` (written `let state := ... in` when s1 cannot fail or
jump); `for x in l: body` is `for_each (fun x state => body) l state`; a def body is closed by
`fn_end`; the recursive call self.do_recur(j + 1) is a call with one unit of fuel less
(`Fail OutOfFuel` at 0).  Python locals become Coq lets.

Translated subset (ANYTHING else: exit status 2, nothing written):

  statements   x = e (a new local: re-assigning a local is refused, so a binding made in a
               branch or loop body never has to flow out of it); self.f = e; self.f += / -= e;
               p.subnet = i; if / elif / else; `for a, b in src.forward_cands`;
               `for p in itertools.chain(*subnets[i])`; return; continue (inside for); pass;
               raise E(...) for E in EXNS; del subnets[i]; docstrings; the method calls
               deque.append / deque.pop, set.add / set.remove, list.sort(key=lambda x:
               len(x.forward_cands)), self.do_recur(e), subnets[i][k].add(p),
               subnets[i][k].update(subnets[i'][k])
  expressions  names, non-negative int literals (typed by the other operand / the target), None,
               np.inf, self.f, src.forward_cands, p.subnet, + and - on Z (+ on nat), dist**2,
               < > <= >= == != on numbers (against best_sum: gt_inf / lt_inf / ge_inf / le_inf), == on subnet ids,
               `is None`, `is not None`, `in` / `not in` a set, and / or / not, len(), list(deque),
               deque([]), set(), [s for s in s_sn], the pair (cur_s, cur_d), l[j] on s_lst,
               subnets[i], subnets[i][0 | 1]
  types        fields of SubnetLinker: table FIELDS (fields in IGNORED_FIELDS are write-only in
               the translated methods: the assignment is dropped and ANY read is an error);
               in __init__ a field must be assigned (top level) before it is read;
               function arguments: table SIGS (a changed argument list is an error).

Conventions (all visible in the generated text, explained in Model/PyLinker.v):
  * partial operations are guarded, in evaluation order, before the statement takes effect:
    `match <lookup> with None => Raise IndexError | Some v => ... end`;
  * a variable that may be None (cur_d, i1, i2) is an option.  `if x is None / is not None`
    and `x is not None and ...` become a match that binds the non-None value in the branch
    where it is known; using a possibly-None id as a dictionary key raises KeyError when it
    is None (None is never a key) and binds the value for the REST of the block; storing a
    possibly-None id into p.subnet is refused;
  * `for cur_d, dist in ...forward_cands`: dist may only occur as dist**2, rendered as the
    integer cost component of the candidate (so cur_sum is exact; float rounding not modelled);
  * sets inside the dictionary are written back into their entry (no aliasing between entries).

Usage:  py2coq_linker.py [--repo /repo] [--out /verif/coq/Gen/linker_core.v] [--stdout]
"""
import ast, sys, os, argparse

# ---- types -----------------------------------------------------------------
Z, NAT, ZINF, BOOL = 'Z', 'nat', 'zinf', 'bool'
SRC, OPTDEST, DEST, DIST = 'src', 'option dest', 'dest', 'dist'
LSRC, LCAND, PSET, DEQUE, PAIR, LPAIR, OPTLPAIR = 'list src', 'list cand', 'pset', 'deque', 'pair', 'list pair', 'option (list pair)'
SRCPT, DSTPT, OPTID, ID, DICT, ENTRY, LSRCPT, LDSTPT, VERT, LVERT = ('srcpt', 'dstpt', 'option id', 'id', 'dict', 'entry',
                                                                    'list srcpt', 'list dstpt', 'vert', 'list vert')
IGN = 'ignored'
OPTIONS = {OPTDEST: DEST, OPTID: ID}

FIELDS = {'max_size': NAT, 's_lst': LSRC, 'MAX': NAT, 'best_pairs': OPTLPAIR, 'cur_pairs': DEQUE,
          'best_sum': ZINF, 'd_taken': PSET, 'cur_sum': Z}
IGNORED_FIELDS = {'s_sn', 'search_range', 'max_links'}
EXNS = ['IndexError', 'KeyError', 'ValueError', 'SubnetOversizeException']
SIGS = {
    'do_recur': [('self', None), ('j', NAT)],
    '__init__': [('self', None), ('s_sn', LSRC), ('dest_size', IGN), ('search_range', IGN), ('max_size', NAT)],
    'assign_subnet': [('source', SRCPT), ('dest', DSTPT), ('subnets', DICT)],
}
COQTY = {NAT: 'nat', LSRC: 'list spoint', SRCPT: 'nat', DSTPT: 'nat'}
RESERVED = set('''self st it fuel fuel' bind for_each fn_end call Normal Continue Return Raise Done Fail fst snd Some None
 true false if then else match with end let in fun fix forall exists nat Z list option length nth_error negb andb orb
 linker mst cand src pair spoint spair vert sets blank_linker recur_fuel forward_cands gt_inf lt_inf ge_inf le_inf set_in set_add set_remove
 deque_append deque_pop deque_to_list sort_key is_none opt_eqb dict_get dict_put dict_del chain_star
 py_do_recur py_SubnetLinker_init py_assign_subnet subs ssub dsub'''.split()) | set(FIELDS) | set('set_' + f for f in FIELDS)


class TranslationError(Exception):
    pass


def fail(node, msg):
    raise TranslationError('line %s: %s' % (getattr(node, 'lineno', '?'), msg))


def is_np(e, attr):
    return isinstance(e, ast.Attribute) and e.attr == attr and isinstance(e.value, ast.Name) and e.value.id == 'np'


def is_none_const(e):
    return isinstance(e, ast.Constant) and e.value is None


def comment(s):
    try:
        t = ast.unparse(s).split('\n')[0]
    except Exception:
        t = type(s).__name__
    t = t.replace('(*', '( *').replace('*)', '* )').replace('"', "'")
    if len(t) > 110:
        t = t[:107] + '...'
    return '(* %d: %s *)' % (getattr(s, 'lineno', 0), t)


class Guards:
    """partial operations of one statement, in evaluation order: (option-valued term, exception, bound name)"""
    def __init__(self):
        self.items = []

    def add(self, opt, exn, var):
        self.items.append((opt, exn, var))

    def wrap(self, inner, ind):
        for opt, exn, var in reversed(self.items):
            inner = 'match %s with None => Raise %s | Some %s =>\n%s%s\n%send' % (opt, exn, var, ind, inner, ind)
        return inner


class Fn:
    def __init__(self, node, kind):
        self.f = node
        self.kind = kind                     # 'do_recur' | '__init__' | 'assign_subnet'
        self.method = kind in ('do_recur', '__init__')
        self.sv = 'self' if self.method else 'st'
        self.svty = 'linker' if self.method else 'mst'
        self.assigned = set()                # __init__: fields assigned so far (top level)
        self.depth = 0
        self.loops = 0
        self.n = 0
        self.used = set()

    # ---- names
    def fresh(self, base):
        self.n += 1
        return '%s%d' % (base, self.n)

    def refname(self, name):
        """name of the non-None value of the optional local `name` (unique per binding site)"""
        k = 0
        while True:
            c = name + '_v' + (str(k) if k else '')
            if c not in self.used and c not in RESERVED:
                self.used.add(c)
                return c
            k += 1

    def newlocal(self, node, name, env, suffix=''):
        c = name + suffix
        if name in env:
            fail(node, 'local %s is assigned twice (re-assignment of a local is outside the subset)' % name)
        if c in RESERVED or c in self.used or not name.isidentifier() or name.startswith('_'):
            fail(node, 'local name %s cannot be used' % name)
        self.used.add(c)
        return c

    # ---- expressions
    def nog(self, g, node):
        if g is None:
            fail(node, 'partial operation (lookup) inside a condition / operand where it is not supported')
        return g

    def refine_key(self, node, env, g):
        """dictionary key: Name of type id or option id (unwrapped with KeyError for the rest of the block)"""
        if not isinstance(node, ast.Name) or node.id not in env:
            fail(node, 'dictionary key must be a local name')
        c, t = env[node.id]
        if t == ID:
            return c
        if t == OPTID:
            v = self.refname(node.id)
            self.nog(g, node).add(c, 'KeyError', v)
            env[node.id] = (v, ID)
            return v
        fail(node, 'dictionary key of type %s' % t)

    def entry(self, e, env, g):
        """subnets[i] -> (entry variable, key term)"""
        if not (isinstance(e, ast.Subscript) and isinstance(e.value, ast.Name) and e.value.id in env and env[e.value.id][1] == DICT):
            fail(e, 'expected subnets[<id>]')
        k = self.refine_key(e.slice, env, g)
        v = self.fresh('e')
        self.nog(g, e).add('dict_get %s %s' % (self.sv, k), 'KeyError', v)
        return v, k

    def component(self, e, env, g):
        """subnets[i][k] -> (entry variable, key term, k)"""
        if not (isinstance(e, ast.Subscript) and isinstance(e.slice, ast.Constant) and e.slice.value in (0, 1)
                and not isinstance(e.slice.value, bool)):
            fail(e, 'expected subnets[<id>][0 or 1]')
        v, k = self.entry(e.value, env, g)
        return v, k, e.slice.value

    def expr(self, e, env, g, expect=None):
        if isinstance(e, ast.Constant):
            v = e.value
            if v is None:
                if expect in (OPTLPAIR,):
                    return 'None', expect
                fail(e, 'None where a value of type %s is expected' % expect)
            if isinstance(v, bool) or not isinstance(v, int) or v < 0:
                fail(e, 'unsupported constant %r' % (v,))
            if expect in (Z, ZINF):
                return '%d%%Z' % v, Z
            if expect == NAT:
                return '%d%%nat' % v, NAT
            fail(e, 'integer literal whose type cannot be determined')
        if isinstance(e, ast.Name):
            if e.id not in env:
                fail(e, 'unknown name %s' % e.id)
            c, t = env[e.id]
            if t == IGN:
                fail(e, 'argument %s is not modelled and may not be read' % e.id)
            if t == DIST:
                fail(e, '%s may only be used as %s**2' % (e.id, e.id))
            if t == DICT:
                fail(e, 'the dictionary may only be subscripted')
            return c, t
        if isinstance(e, ast.Attribute):
            if is_np(e, 'inf'):
                return 'None', ZINF
            if self.method and isinstance(e.value, ast.Name) and e.value.id == 'self':
                f = e.attr
                if f in IGNORED_FIELDS:
                    fail(e, 'field %s is not modelled and may not be read' % f)
                if f not in FIELDS:
                    fail(e, 'unknown field self.%s' % f)
                if self.kind == '__init__' and f not in self.assigned:
                    fail(e, 'self.%s read before __init__ has assigned it' % f)
                return '(%s %s)' % (f, self.sv), FIELDS[f]
            c, t = self.expr(e.value, env, g)
            if t == SRC and e.attr == 'forward_cands':
                return '(forward_cands %s)' % c, LCAND
            if t == SRCPT and e.attr == 'subnet':
                return '(get_subnet_src %s %s)' % (self.sv, c), OPTID
            if t == DSTPT and e.attr == 'subnet':
                return '(get_subnet_dst %s %s)' % (self.sv, c), OPTID
            fail(e, 'unsupported attribute .%s of a %s' % (e.attr, t))
        if isinstance(e, ast.BinOp):
            if isinstance(e.op, ast.Pow):
                if isinstance(e.left, ast.Name) and e.left.id in env and env[e.left.id][1] == DIST \
                        and isinstance(e.right, ast.Constant) and e.right.value == 2 and not isinstance(e.right.value, bool) \
                        and isinstance(e.right.value, int):
                    return env[e.left.id][0], Z
                fail(e, 'unsupported power (only <dist>**2)')
            if isinstance(e.op, (ast.Add, ast.Sub)):
                if isinstance(e.left, ast.Constant) and isinstance(e.right, ast.Constant):
                    fail(e, 'constant arithmetic')
                if isinstance(e.left, ast.Constant):
                    r, t = self.expr(e.right, env, g, expect)
                    l, _ = self.expr(e.left, env, g, t)
                else:
                    l, t = self.expr(e.left, env, g, expect)
                    r, t2 = self.expr(e.right, env, g, t)
                    if t2 != t:
                        fail(e, 'operands of types %s and %s' % (t, t2))
                if t == Z:
                    return '(%s %s %s)%%Z' % (l, '+' if isinstance(e.op, ast.Add) else '-', r), Z
                if t == NAT and isinstance(e.op, ast.Add):
                    return '(%s + %s)%%nat' % (l, r), NAT
                fail(e, 'unsupported arithmetic on %s' % t)
            fail(e, 'unsupported binary operator %s' % type(e.op).__name__)
        if isinstance(e, ast.UnaryOp) and isinstance(e.op, ast.Not):
            c, t = self.expr(e.operand, env, None)
            if t != BOOL:
                fail(e, 'not on a %s' % t)
            return '(negb %s)' % c, BOOL
        if isinstance(e, ast.BoolOp):
            return self.boolop(e, list(e.values), env)
        if isinstance(e, ast.Compare):
            return self.compare(e, env)
        if isinstance(e, ast.Call):
            if e.keywords or not isinstance(e.func, ast.Name):
                fail(e, 'unsupported call')
            fn = e.func.id
            if fn == 'len' and len(e.args) == 1:
                c, t = self.expr(e.args[0], env, g)
                if t not in (LSRC, LCAND, LPAIR, DEQUE):
                    fail(e, 'len of a %s' % t)
                return '(length %s)' % c, NAT
            if fn == 'list' and len(e.args) == 1:
                c, t = self.expr(e.args[0], env, g)
                if t != DEQUE:
                    fail(e, 'list() of a %s' % t)
                return '(deque_to_list %s)' % c, LPAIR
            if fn == 'deque' and len(e.args) == 1 and isinstance(e.args[0], ast.List) and not e.args[0].elts:
                return '[]', DEQUE
            if fn == 'set' and not e.args:
                return '[]', PSET
            fail(e, 'unsupported call %s(...)' % fn)
        if isinstance(e, ast.ListComp):
            if len(e.generators) == 1:
                ge = e.generators[0]
                if not ge.ifs and not ge.is_async and isinstance(ge.target, ast.Name) and isinstance(e.elt, ast.Name) \
                        and e.elt.id == ge.target.id:
                    c, t = self.expr(ge.iter, env, g)
                    if t == LSRC:
                        return c, LSRC
            fail(e, 'unsupported list comprehension (only [s for s in <sources>])')
        if isinstance(e, ast.Tuple) and len(e.elts) == 2:
            a, ta = self.expr(e.elts[0], env, g)
            b, tb = self.expr(e.elts[1], env, g)
            if (ta, tb) == (SRC, OPTDEST):
                return '(%s, %s)' % (a, b), PAIR
            fail(e, 'unsupported tuple (%s, %s)' % (ta, tb))
        if isinstance(e, ast.Subscript):
            if isinstance(e.value, ast.Subscript):
                v, k, comp = self.component(e, env, g)
                return ('(fst %s)' % v, LSRCPT) if comp == 0 else ('(snd %s)' % v, LDSTPT)
            if isinstance(e.value, ast.Name) and e.value.id in env and env[e.value.id][1] == DICT:
                v, k = self.entry(e, env, g)
                return v, ENTRY
            c, t = self.expr(e.value, env, g)
            if t == LSRC:
                i, ti = self.expr(e.slice, env, g, NAT)
                if ti != NAT:
                    fail(e, 'index of type %s' % ti)
                v = self.fresh('x')
                self.nog(g, e).add('nth_error %s %s' % (c, i), 'IndexError', v)
                return v, SRC
            fail(e, 'unsupported subscript of a %s' % t)
        fail(e, 'unsupported expression %s' % type(e).__name__)

    def none_test(self, e, env):
        """`X is None` / `X is not None` on an optional local -> (name, is_not) or None"""
        if isinstance(e, ast.Compare) and len(e.ops) == 1 and isinstance(e.ops[0], (ast.Is, ast.IsNot)) \
                and is_none_const(e.comparators[0]) and isinstance(e.left, ast.Name) and e.left.id in env \
                and env[e.left.id][1] in OPTIONS:
            return e.left.id, isinstance(e.ops[0], ast.IsNot)
        return None

    def boolop(self, node, vals, env):
        if len(vals) == 1:
            c, t = self.expr(vals[0], env, None)
            if t != BOOL:
                fail(node, 'boolean operator on a %s' % t)
            return c, BOOL
        nt = self.none_test(vals[0], env)
        if isinstance(node.op, ast.And) and nt and nt[1]:
            # X is not None and <rest, where X is known>
            c, t = env[nt[0]]
            v = self.refname(nt[0])
            env2 = dict(env)
            env2[nt[0]] = (v, OPTIONS[t])
            r, _ = self.boolop(node, vals[1:], env2)
            return '(match %s with Some %s => %s | None => false end)' % (c, v, r), BOOL
        a, t = self.expr(vals[0], env, None)
        if t != BOOL:
            fail(node, 'boolean operator on a %s' % t)
        r, _ = self.boolop(node, vals[1:], env)
        if isinstance(node.op, ast.And):
            return '(andb %s %s)' % (a, r), BOOL
        if isinstance(node.op, ast.Or):
            return '(orb %s %s)' % (a, r), BOOL
        fail(node, 'unsupported boolean operator')

    def compare(self, e, env):
        if len(e.ops) != 1:
            fail(e, 'chained comparison')
        op, lhs, rhs = e.ops[0], e.left, e.comparators[0]
        if isinstance(op, (ast.Is, ast.IsNot)):
            nt = self.none_test(e, env)
            if not nt:
                fail(e, '`is` is only supported as <optional local> is [not] None')
            c = env[nt[0]][0]
            return ('(negb (is_none %s))' % c if nt[1] else '(is_none %s)' % c), BOOL
        if isinstance(op, (ast.In, ast.NotIn)):
            a, ta = self.expr(lhs, env, None)
            b, tb = self.expr(rhs, env, None)
            if (ta, tb) != (DEST, PSET):
                fail(e, '`in` between %s and %s (a possibly-None value must be tested with `is not None` first)' % (ta, tb))
            c = '(set_in %s %s)' % (a, b)
            return (c if isinstance(op, ast.In) else '(negb %s)' % c), BOOL
        if isinstance(lhs, ast.Constant):
            b, tb = self.expr(rhs, env, None)
            a, ta = self.expr(lhs, env, None, tb)
        else:
            a, ta = self.expr(lhs, env, None)
            b, tb = self.expr(rhs, env, None, ta)
        if (ta, tb) == (Z, ZINF):
            if isinstance(op, ast.Gt):
                return '(gt_inf %s %s)' % (a, b), BOOL
            if isinstance(op, ast.Lt):
                return '(lt_inf %s %s)' % (a, b), BOOL
            if isinstance(op, ast.GtE):
                return '(ge_inf %s %s)' % (a, b), BOOL
            if isinstance(op, ast.LtE):
                return '(le_inf %s %s)' % (a, b), BOOL
            fail(e, 'only < > <= >= are supported against best_sum')
        if ta == tb and ta in (Z, NAT):
            m = 'Z' if ta == Z else 'Nat'
            tab = {ast.Lt: '(%s.ltb %s %s)' % (m, a, b), ast.Gt: '(%s.ltb %s %s)' % (m, b, a),
                   ast.LtE: '(%s.leb %s %s)' % (m, a, b), ast.GtE: '(%s.leb %s %s)' % (m, b, a),
                   ast.Eq: '(%s.eqb %s %s)' % (m, a, b), ast.NotEq: '(negb (%s.eqb %s %s))' % (m, a, b)}
            for k, s in tab.items():
                if isinstance(op, k):
                    return s, BOOL
            fail(e, 'unsupported comparison')
        if ta in (ID, OPTID) and tb in (ID, OPTID) and isinstance(op, (ast.Eq, ast.NotEq)):
            a = a if ta == OPTID else '(Some %s)' % a
            b = b if tb == OPTID else '(Some %s)' % b
            c = '(opt_eqb %s %s)' % (a, b)
            return (c if isinstance(op, ast.Eq) else '(negb %s)' % c), BOOL
        fail(e, 'unsupported comparison between %s and %s' % (ta, tb))

    # ---- statements
    def then_pure(self, newstate, rest, env, ind):
        if not rest:
            return 'Normal (%s)' % newstate
        return 'let %s := %s in\n%s%s' % (self.sv, newstate, ind, self.block(rest, env, ind))

    def then_gen(self, oc, rest, env, ind):
        if not rest:
            return oc
        return 'bind (%s) (fun %s =>\n%s%s)' % (oc, self.sv, ind, self.block(rest, env, ind))

    def sub(self, stmts, env, ind, loop=False):
        self.depth += 1
        self.loops += 1 if loop else 0
        r = self.block(stmts, dict(env), ind)
        self.loops -= 1 if loop else 0
        self.depth -= 1
        return r

    def block(self, stmts, env, ind):
        if not stmts:
            return 'Normal %s' % self.sv
        s, rest = stmts[0], stmts[1:]
        env = dict(env)
        return comment(s) + '\n' + ind + self.stmt(s, rest, env, ind)

    def stmt(self, s, rest, env, ind):
        sv = self.sv
        g = Guards()
        i2 = ind + '  '
        if isinstance(s, ast.Expr) and isinstance(s.value, ast.Constant) and isinstance(s.value.value, str):
            return self.block(rest, env, ind)                                 # docstring
        if isinstance(s, ast.Pass):
            return self.block(rest, env, ind)
        if isinstance(s, ast.Return):
            if s.value is not None and not is_none_const(s.value):
                fail(s, 'return with a value')
            if rest:
                fail(rest[0], 'statement after return')
            return 'Return %s' % sv
        if isinstance(s, ast.Continue):
            if not self.loops:
                fail(s, 'continue outside a loop')
            if rest:
                fail(rest[0], 'statement after continue')
            return 'Continue %s' % sv
        if isinstance(s, ast.Raise):
            if s.cause is not None or not (isinstance(s.exc, ast.Call) and isinstance(s.exc.func, ast.Name) and s.exc.func.id in EXNS
                                           and not s.exc.keywords):
                fail(s, 'unsupported raise')
            for a in s.exc.args:
                if isinstance(a, ast.Constant) and isinstance(a.value, str):
                    continue
                if isinstance(a, ast.BinOp) and isinstance(a.op, ast.Mod) and isinstance(a.left, ast.Constant) and isinstance(a.left.value, str):
                    self.expr(a.right, env, None)
                    continue
                fail(a, 'unsupported exception argument')
            if rest:
                fail(rest[0], 'statement after raise')
            return 'Raise %s' % s.exc.func.id
        if isinstance(s, ast.Assign):
            if len(s.targets) != 1:
                fail(s, 'multiple assignment targets')
            t = s.targets[0]
            if isinstance(t, ast.Name):
                c, ty = self.expr(s.value, env, g)
                if ty in (DICT, ENTRY, IGN, DIST):
                    fail(s, 'a local may not hold a %s' % ty)
                nm = self.newlocal(t, t.id, env)
                env[t.id] = (nm, ty)
                return g.wrap('let %s := %s in\n%s%s' % (nm, c, ind, self.block(rest, env, ind)), ind)
            if isinstance(t, ast.Attribute) and isinstance(t.value, ast.Name) and t.value.id == 'self' and self.method:
                f = t.attr
                if f in IGNORED_FIELDS:
                    return '(* not modelled: write-only field *)\n' + ind + self.block(rest, env, ind)
                if f not in FIELDS:
                    fail(s, 'unknown field self.%s' % f)
                c, ty = self.expr(s.value, env, g, FIELDS[f])
                c = self.coerce(s, c, ty, FIELDS[f])
                if self.kind == '__init__' and self.depth == 0:
                    self.assigned.add(f)
                return g.wrap(self.then_pure('set_%s %s %s' % (f, sv, c), rest, env, ind), ind)
            if isinstance(t, ast.Attribute) and t.attr == 'subnet' and isinstance(t.value, ast.Name) and t.value.id in env:
                p, tp = env[t.value.id]
                c, ty = self.expr(s.value, env, g)
                if ty != ID:
                    fail(s, 'storing a %s into .subnet (must be a subnet id known not to be None)' % ty)
                setter = {SRCPT: 'set_subnet_src', DSTPT: 'set_subnet_dst', VERT: 'set_subnet_vert'}.get(tp)
                if not setter:
                    fail(s, '.subnet of a %s' % tp)
                return g.wrap(self.then_pure('%s %s %s %s' % (setter, sv, p, c), rest, env, ind), ind)
            fail(s, 'unsupported assignment target')
        if isinstance(s, ast.AugAssign):
            t = s.target
            if not (isinstance(t, ast.Attribute) and isinstance(t.value, ast.Name) and t.value.id == 'self' and self.method
                    and t.attr in FIELDS and FIELDS[t.attr] == Z and isinstance(s.op, (ast.Add, ast.Sub))):
                fail(s, 'unsupported augmented assignment')
            if self.kind == '__init__' and t.attr not in self.assigned:
                fail(s, 'self.%s read before __init__ has assigned it' % t.attr)
            c, ty = self.expr(s.value, env, g, Z)
            if ty != Z:
                fail(s, 'augmented assignment of a %s' % ty)
            new = 'set_%s %s (%s %s %s %s)%%Z' % (t.attr, sv, t.attr, sv, '+' if isinstance(s.op, ast.Add) else '-', c)
            return g.wrap(self.then_pure(new, rest, env, ind), ind)
        if isinstance(s, ast.Delete):
            if len(s.targets) != 1:
                fail(s, 'unsupported del')
            t = s.targets[0]
            if not (isinstance(t, ast.Subscript) and isinstance(t.value, ast.Name) and t.value.id in env and env[t.value.id][1] == DICT):
                fail(s, 'unsupported del')
            k = self.refine_key(t.slice, env, g)
            v = self.fresh('st_')
            g.add('dict_del %s %s' % (sv, k), 'KeyError', v)
            return g.wrap(self.then_pure(v, rest, env, ind), ind)
        if isinstance(s, ast.If):
            nt = self.none_test(s.test, env)
            if nt:
                c, ty = env[nt[0]]
                v = self.refname(nt[0])
                envk = dict(env)
                envk[nt[0]] = (v, OPTIONS[ty])
                known, unknown = (s.body, s.orelse) if nt[1] else (s.orelse, s.body)
                a = self.sub(known, envk, i2)
                b = self.sub(unknown, env, i2)
                oc = 'match %s with\n%s| Some %s =>\n%s%s\n%s| None =>\n%s%s\n%send' % (c, ind, v, i2, a, ind, i2, b, ind)
            else:
                c, ty = self.expr(s.test, env, None)
                if ty != BOOL:
                    fail(s, 'condition of type %s' % ty)
                a = self.sub(s.body, env, i2)
                b = self.sub(s.orelse, env, i2)
                oc = 'if %s\n%sthen\n%s%s\n%selse\n%s%s' % (c, ind, i2, a, ind, i2, b)
            return self.then_gen(oc, rest, env, ind)
        if isinstance(s, ast.For):
            if s.orelse:
                fail(s, 'for ... else')
            it = s.iter
            if isinstance(it, ast.Call) and isinstance(it.func, ast.Attribute) and it.func.attr == 'chain' \
                    and isinstance(it.func.value, ast.Name) and it.func.value.id == 'itertools' and not it.keywords \
                    and len(it.args) == 1 and isinstance(it.args[0], ast.Starred):
                v, k = self.entry(it.args[0].value, env, g)
                if not isinstance(s.target, ast.Name):
                    fail(s, 'unsupported loop target')
                benv = dict(env)
                p = self.newlocal(s.target, s.target.id, env)
                benv[s.target.id] = (p, VERT)
                body = self.sub(s.body, benv, i2, loop=True)
                oc = 'for_each (fun (%s : vert) (%s : %s) =>\n%s%s)\n%s(chain_star %s) %s' % (p, sv, self.svty, i2, body, ind, v, sv)
                return g.wrap(self.then_gen(oc, rest, env, ind), ind)
            c, ty = self.expr(it, env, g)
            if ty == LCAND:
                t = s.target
                if not (isinstance(t, ast.Tuple) and len(t.elts) == 2 and all(isinstance(x, ast.Name) for x in t.elts)
                        and t.elts[0].id != t.elts[1].id):
                    fail(s, 'expected `for <dest>, <dist> in ...forward_cands`')
                benv = dict(env)
                a = self.newlocal(t.elts[0], t.elts[0].id, env)
                b = self.newlocal(t.elts[1], t.elts[1].id, env, '_sq')
                benv[t.elts[0].id] = (a, OPTDEST)
                benv[t.elts[1].id] = (b, DIST)
                body = self.sub(s.body, benv, i2, loop=True)
                oc = ('for_each (fun (it : cand) (%s : %s) =>\n%slet %s := fst it in let %s := snd it in\n%s%s)\n%s%s %s'
                      % (sv, self.svty, i2, a, b, i2, body, ind, c, sv))
                return g.wrap(self.then_gen(oc, rest, env, ind), ind)
            fail(s, 'unsupported loop over a %s' % ty)
        if isinstance(s, ast.Expr) and isinstance(s.value, ast.Call) and isinstance(s.value.func, ast.Attribute):
            return self.method_call(s, s.value, rest, env, g, ind)
        fail(s, 'unsupported statement %s' % type(s).__name__)

    def coerce(self, node, c, ty, want):
        if ty == want:
            return c
        if (ty, want) in ((Z, ZINF), (LPAIR, OPTLPAIR)):
            return '(Some %s)' % c
        fail(node, 'value of type %s where %s is expected' % (ty, want))

    def method_call(self, s, call, rest, env, g, ind):
        sv = self.sv
        recv, meth = call.func.value, call.func.attr
        if self.method and isinstance(recv, ast.Name) and recv.id == 'self':
            if meth != 'do_recur' or call.keywords or len(call.args) != 1:
                fail(s, 'unsupported method call self.%s' % meth)
            if self.kind == '__init__':
                missing = [f for f in FIELDS if f not in self.assigned]
                if missing or self.depth != 0:
                    fail(s, 'do_recur called before __init__ has assigned %s' % ', '.join(missing))
            a, ta = self.expr(call.args[0], env, g, NAT)
            if ta != NAT:
                fail(s, 'do_recur argument of type %s' % ta)
            fuel = "fuel'" if self.kind == 'do_recur' else '(recur_fuel %s)' % sv
            return g.wrap(self.then_gen('call (py_do_recur %s %s %s)' % (fuel, sv, a), rest, env, ind), ind)
        if self.method and isinstance(recv, ast.Attribute) and isinstance(recv.value, ast.Name) and recv.value.id == 'self':
            f = recv.attr
            fc, ft = self.expr(recv, env, g)
            if ft == LSRC and meth == 'sort':
                if call.args or len(call.keywords) != 1 or call.keywords[0].arg != 'key':
                    fail(s, 'unsupported sort arguments')
                lam = call.keywords[0].value
                if not (isinstance(lam, ast.Lambda) and len(lam.args.args) == 1 and not lam.args.vararg and not lam.args.kwarg
                        and not lam.args.kwonlyargs and not lam.args.defaults and not getattr(lam.args, 'posonlyargs', [])):
                    fail(s, 'unsupported sort key')
                x = lam.args.args[0].arg
                xn = self.newlocal(lam, x, env)
                lenv = dict(env)
                lenv[x] = (xn, SRC)
                kc, kt = self.expr(lam.body, lenv, None)
                if kt != NAT:
                    fail(s, 'sort key of type %s' % kt)
                return self.then_pure('set_%s %s (sort_key (fun %s : spoint => %s) %s)' % (f, sv, xn, kc, fc), rest, env, ind)
            if call.keywords:
                fail(s, 'unsupported keyword arguments')
            if ft == DEQUE and meth == 'append' and len(call.args) == 1:
                a, ta = self.expr(call.args[0], env, g)
                if ta != PAIR:
                    fail(s, 'append of a %s' % ta)
                return g.wrap(self.then_pure('set_%s %s (deque_append %s %s)' % (f, sv, fc, a), rest, env, ind), ind)
            if ft == DEQUE and meth == 'pop' and not call.args:
                v = self.fresh('d')
                g.add('deque_pop %s' % fc, 'IndexError', v)
                return g.wrap(self.then_pure('set_%s %s %s' % (f, sv, v), rest, env, ind), ind)
            if ft == PSET and meth in ('add', 'remove') and len(call.args) == 1:
                a, ta = self.expr(call.args[0], env, g)
                if ta != DEST:
                    fail(s, '%s of a %s (a possibly-None value must be tested with `is not None` first)' % (meth, ta))
                if meth == 'add':
                    return g.wrap(self.then_pure('set_%s %s (set_add %s %s)' % (f, sv, a, fc), rest, env, ind), ind)
                v = self.fresh('d')
                g.add('set_remove %s %s' % (a, fc), 'KeyError', v)
                return g.wrap(self.then_pure('set_%s %s %s' % (f, sv, v), rest, env, ind), ind)
            fail(s, 'unsupported method .%s on self.%s' % (meth, f))
        if not self.method and isinstance(recv, ast.Subscript) and isinstance(recv.value, ast.Subscript):
            if call.keywords or len(call.args) != 1:
                fail(s, 'unsupported call')
            v, k, comp = self.component(recv, env, g)
            if meth == 'add':
                a, ta = self.expr(call.args[0], env, g)
                if ta != (SRCPT if comp == 0 else DSTPT):
                    fail(s, 'adding a %s to component %d of a subnet' % (ta, comp))
                return g.wrap(self.then_pure('dict_put %s %s (ent_add%d %s %s)' % (sv, k, comp, v, a), rest, env, ind), ind)
            if meth == 'update':
                a, ta = self.expr(call.args[0], env, g)
                if ta != (LSRCPT if comp == 0 else LDSTPT):
                    fail(s, 'updating component %d of a subnet with a %s' % (comp, ta))
                return g.wrap(self.then_pure('dict_put %s %s (ent_update%d %s %s)' % (sv, k, comp, v, a), rest, env, ind), ind)
            fail(s, 'unsupported method .%s on a subnet component' % meth)
        fail(s, 'unsupported call statement')

    # ---- whole function
    def check_sig(self):
        a = self.f.args
        if a.vararg or a.kwarg or a.kwonlyargs or getattr(a, 'posonlyargs', []):
            fail(self.f, 'unsupported signature')
        names = [x.arg for x in a.args]
        want = SIGS[self.kind]
        if names != [n for n, _ in want]:
            fail(self.f, '%s: expected arguments (%s), found (%s)' % (self.f.name, ', '.join(n for n, _ in want), ', '.join(names)))
        for d in a.defaults:
            if not isinstance(d, ast.Constant):
                fail(d, 'unsupported default value')
        if self.f.decorator_list:
            fail(self.f, 'decorated function')
        return want

    def translate(self):
        want = self.check_sig()
        env = {}
        binders = []
        for n, t in want:
            if t is None:
                continue
            cn = n + '_' if self.kind == '__init__' else n
            if cn in RESERVED and t not in (IGN, DICT):
                fail(self.f, 'argument name %s' % n)
            env[n] = (cn, t)
            self.used.add(cn)
            if t in COQTY:
                binders.append('(%s : %s)' % (cn, COQTY[t]))
        for n in ast.walk(self.f):
            if isinstance(n, (ast.While, ast.Try, ast.With, ast.Yield, ast.YieldFrom, ast.FunctionDef, ast.AsyncFunctionDef, ast.Global,
                              ast.Nonlocal, ast.Assert, ast.Break, ast.NamedExpr, ast.Await, ast.ClassDef, ast.Import, ast.ImportFrom)) \
                    and n is not self.f:
                fail(n, 'unsupported construct %s' % type(n).__name__)
        body = self.block(list(self.f.body), env, '      ')
        hdr = '(* ===== %s (line %d) ===== *)\n' % (self.f.name, self.f.lineno)
        if self.kind == 'do_recur':
            return hdr + ('Fixpoint py_do_recur (fuel : nat) (self : linker) %s {struct fuel} : fresult linker :=\n'
                          '  match fuel with\n  | O => Fail OutOfFuel\n  | S fuel\' =>\n    fn_end (\n      %s)\n  end.\n'
                          % (' '.join(binders), body))
        if self.kind == '__init__':
            missing = [f for f in FIELDS if f not in self.assigned]
            if missing:
                fail(self.f, '__init__ does not assign %s' % ', '.join(missing))
            return hdr + ('Definition py_SubnetLinker_init %s : fresult linker :=\n  let self := blank_linker in\n'
                          '    fn_end (\n      %s).\n' % (' '.join(binders), body))
        return hdr + ('Definition py_assign_subnet (st : mst) %s : fresult mst :=\n    fn_end (\n      %s).\n'
                      % (' '.join(binders), body))


def find_method(tree, cls, name):
    for n in tree.body:
        if isinstance(n, ast.ClassDef) and n.name == cls:
            hits = [m for m in n.body if isinstance(m, ast.FunctionDef) and m.name == name]
            if len(hits) != 1:
                raise TranslationError('%s.%s: expected exactly one definition, found %d' % (cls, name, len(hits)))
            # nothing else in the class may touch the object between __init__ and do_recur
            others = [m.name for m in n.body if isinstance(m, ast.FunctionDef) and m.name not in ('__init__', 'do_recur')]
            if others:
                raise TranslationError('class %s has methods that are not translated: %s' % (cls, ', '.join(others)))
            if n.bases or n.decorator_list or n.keywords:
                raise TranslationError('class %s has bases / decorators' % cls)
            return hits[0]
    raise TranslationError('class %s not found' % cls)


def find_function(tree, name):
    hits = [n for n in tree.body if isinstance(n, ast.FunctionDef) and n.name == name]
    if len(hits) != 1:
        raise TranslationError('%s: expected exactly one top-level definition, found %d' % (name, len(hits)))
    return hits[0]


def translate(repo):
    p1 = os.path.join(repo, 'trackpy', 'linking', 'subnetlinker.py')
    p2 = os.path.join(repo, 'trackpy', 'linking', 'subnet.py')
    t1 = ast.parse(open(p1).read())
    t2 = ast.parse(open(p2).read())
    out = ['(* GENERATED by tools/py2coq_linker.py from trackpy/linking/subnetlinker.py (SubnetLinker.__init__,',
           '   SubnetLinker.do_recur) and trackpy/linking/subnet.py (assign_subnet) -- do not edit.',
           '   Statement by statement, state passing; the numbered comments are the Python statements.',
           '   Vocabulary and its meaning: Model/PyLinker.v; subset and conventions: the translator. *)',
           'From Coq Require Import ZArith List Bool Arith.',
           'From TP Require Import Model.Assign Model.Link Model.SubnetMerge Model.PyLinker.',
           'Import ListNotations.',
           '']
    out.append(Fn(find_method(t1, 'SubnetLinker', 'do_recur'), 'do_recur').translate())
    out.append(Fn(find_method(t1, 'SubnetLinker', '__init__'), '__init__').translate())
    out.append(Fn(find_function(t2, 'assign_subnet'), 'assign_subnet').translate())
    return '\n'.join(out)


def main():
    ap = argparse.ArgumentParser()
    ap.add_argument('--repo', default=os.environ.get('TRACKPY_REPO', '/repo'))
    ap.add_argument('--out', default=os.path.join(os.path.dirname(os.path.dirname(os.path.abspath(__file__))), 'coq', 'Gen', 'linker_core.v'))
    ap.add_argument('--stdout', action='store_true')
    a = ap.parse_args()
    try:
        text = translate(a.repo)
    except TranslationError as e:
        sys.stderr.write('py2coq_linker: TRANSLATION ERROR: %s\n' % e)
        sys.exit(2)
    except (OSError, SyntaxError) as e:
        sys.stderr.write('py2coq_linker: TRANSLATION ERROR: cannot read / parse the source: %s\n' % e)
        sys.exit(2)
    if a.stdout:
        sys.stdout.write(text)
        return
    old = open(a.out).read() if os.path.exists(a.out) else None
    if old != text:
        os.makedirs(os.path.dirname(a.out), exist_ok=True)
        tmp = a.out + '.tmp%d' % os.getpid()
        with open(tmp, 'w') as f:
            f.write(text)
        os.replace(tmp, a.out)
        print('py2coq_linker: wrote %s (changed)' % a.out)
    else:
        print('py2coq_linker: %s up to date' % a.out)


if __name__ == '__main__':
    main()
