#!/usr/bin/env python3
"""Fail-closed translator (route T) for C19 (edge-correction formulas).

Reads  $TRACKPY_REPO/trackpy/static.py  (default /repo) with the Python `ast`
module and regenerates  /verif/coq/Gen/static_geom.v :

    circle_cap_arclen, circle_corner_arclen, sphere_cap_area, sphere_edge_area,
    sphere_corner_area                      (formulas)
    arclen_2d_bounded, area_3d_bounded      (the masked inclusion-exclusion sums)

as Coq functions over R for ONE point (the scalar reading of the numpy vector
code), each under the name  py_<python name>.  `_protect_mask` is not emitted:
it is analysed (see below) and the translation aborts unless it means
"apply the masked update to exactly the elements where the mask is True".

Scalar reading / conventions (all visible in the generated text):

  * a per-point array (dist, arclen, area, a row of h) is one real number;
    `pos[:, k]` is the argument pos_k, `box[i, j]` the argument box_i_j; the Coq
    arguments are  dist pos_0 .. pos_{d-1} box_0_0 box_0_1 .. box_{d-1}_1;
  * `h = np.array([e0, e1, ...])` is the family h_0, h_1, ... (one let each);
  * `for v in h:` and `for a, b in [[0, 2], ...]:` (literal integer lists) are
    unrolled in order;
  * the loop body
        mask = _protect_mask(a < b)
        if mask is None:
            continue
        acc[mask] -= f(x[mask], h[k, mask], ...)
    is   let acc := acc - py_masked (Rlt_dec a b) (f x h_k ...) in   where
    py_masked c v := if c then v else 0 : the element is changed by v where the
    mask holds and by 0 (left as it is) elsewhere  (`+=` likewise; `<=` uses
    Rle_dec; `>`/`>=` swap the operands).  This reading of `acc[mask] -= v` as
    acc -= where(mask, v, 0) is a convention of the translator; it keeps every
    accumulator occurring once per update, so that two dozen nested updates
    stay linear for Coq.  Inside the
    masked statement every per-point array must carry the mask index, in the
    mask expression none may (anything else: error);
  * `acc[acc < e] = np.nan` must be the last statement before `return acc`; the
    function then returns  option R :  if Rlt_dec acc e then None else Some acc
    (None = NaN);
  * np.pi PI, np.arccos acos, np.arcsin asin, np.arctan atan, np.sqrt sqrt;
    `e ** k` (k a literal integer 0..16) is e ^ k; `c ** -k` on integer literals
    is / (c ^ k) (the real number, not the rounded float); other float literals
    are exact rationals;
  * numpy gives NaN where arccos / arcsin / sqrt leave their domain and inf/NaN
    on division by zero; acos, asin, sqrt, / are total in Coq.  The generated
    functions therefore speak for the code only where every such argument is in
    the domain; for a centre inside the closed box and dist > 0 the masks
    guarantee that (0 <= h/r < 1, r^2 - x^2 - y^2 > 0).

`_protect_mask(mask)` is evaluated abstractly for mask.size = 0, 1 and >= 2
(only comparisons of mask.size with the literals 0 and 1 are accepted, so the
last class is uniform).  Accepted outcomes: size 0 -> None or mask; size 1 ->
mask, or 0 when the element is True and None when it is False; size >= 2 ->
mask.  With `if mask is None: continue` this is the elementwise conditional.

Any statement or expression outside this subset, a missing function or a
changed argument list is an ERROR (exit status 2, nothing written): the check
treats that like a broken proof.  Usage:

    py2coq_static.py [--repo /repo] [--out /verif/coq/Gen/static_geom.v] [--stdout]
"""
import ast, sys, os, argparse
from fractions import Fraction

FORMULAS = ['circle_cap_arclen', 'circle_corner_arclen', 'sphere_cap_area', 'sphere_edge_area', 'sphere_corner_area']
BOUNDED = [('arclen_2d_bounded', 2), ('area_3d_bounded', 3)]
PROTECT = '_protect_mask'
NPFUN = {'arccos': 'acos', 'arcsin': 'asin', 'arctan': 'atan', 'sqrt': 'sqrt'}
RESERVED = set('''R PI sqrt acos asin atan cos sin exp ln None Some Rlt_dec Rle_dec at in as return if then else let fun
forall exists match with end fix cofix for where using Type Prop Set SProp option list nat Z Q true false'''.split())
PREFIX = 'py_'


class TranslationError(Exception):
    pass


def fail(node, msg):
    raise TranslationError('line %s: %s' % (getattr(node, 'lineno', '?'), msg))


def lit(v, node=None):
    if isinstance(v, bool) or not isinstance(v, (int, float)):
        fail(node, 'unsupported constant %r' % (v,))
    if isinstance(v, float) and (v != v or v in (float('inf'), float('-inf'))):
        fail(node, 'non-finite constant')
    f = Fraction(v)
    if f < 0:
        return '(- %s)' % lit(-v, node)
    if f.denominator == 1:
        return '%d' % f.numerator
    return '(%d / %d)' % (f.numerator, f.denominator)


def is_np(e, attr=None):
    return isinstance(e, ast.Attribute) and isinstance(e.value, ast.Name) and e.value.id == 'np' and (attr is None or e.attr == attr)


def int_const(e):
    return isinstance(e, ast.Constant) and isinstance(e.value, int) and not isinstance(e.value, bool)


def coq_name(node, name):
    if name in RESERVED or name.startswith(PREFIX) or not name.isidentifier() or not name.isascii():
        fail(node, 'name %r cannot be used as a Coq identifier here' % name)
    return name


def argnames(fn):
    a = fn.args
    if a.vararg or a.kwarg or a.kwonlyargs or a.defaults or getattr(a, 'posonlyargs', []):
        fail(fn, '%s: unsupported signature' % fn.name)
    if fn.decorator_list:
        fail(fn, '%s: decorators are not supported' % fn.name)
    return [x.arg for x in a.args]


def body_wo_doc(fn):
    b = list(fn.body)
    if b and isinstance(b[0], ast.Expr) and isinstance(b[0].value, ast.Constant) and isinstance(b[0].value.value, str):
        b = b[1:]
    return b


# ---------------------------------------------------------------------------
# expressions.  env: python name -> value
#   ('pt', coq)        per-point array, read as one real
#   ('rows', [coq..])  2-D array: a list of per-point rows (h)
#   ('int', k)         python integer (unrolled loop variable)
#   ('cols', prefix, d)  pos : pos[:, k]
#   ('mat', prefix, d)   box : box[i, j]
#   ('mask',)          the protected mask of the current loop body
# mode: 'plain' (outside a masked statement), 'masked' (inside one), 'scalar'
# (formula functions: every name is a real, no indexing at all)
# ---------------------------------------------------------------------------
class Expr:
    def __init__(self, env, formulas, mode):
        self.env, self.formulas, self.mode = env, formulas, mode

    def index(self, e):
        """integer value of an index expression"""
        if int_const(e):
            return e.value
        if isinstance(e, ast.Name) and self.env.get(e.id, (None,))[0] == 'int':
            return self.env[e.id][1]
        fail(e, 'index is not an integer literal or an unrolled loop variable')

    def is_mask(self, e):
        return isinstance(e, ast.Name) and self.env.get(e.id) == ('mask',)

    def point(self, e, v):
        """a per-point array used bare"""
        if self.mode == 'masked':
            fail(e, 'per-point array used without the mask index inside a masked statement')
        return v[1]

    def tr(self, e):
        if isinstance(e, ast.Constant):
            return lit(e.value, e)
        if isinstance(e, ast.Name):
            v = self.env.get(e.id)
            if v is None:
                fail(e, 'unknown name %s' % e.id)
            if v[0] == 'pt':
                return v[1] if self.mode == 'scalar' else self.point(e, v)
            fail(e, 'name %s is not a per-point value here' % e.id)
        if is_np(e, 'pi'):
            return 'PI'
        if isinstance(e, ast.UnaryOp):
            if isinstance(e.op, ast.USub):
                return '(- %s)' % self.tr(e.operand)
            if isinstance(e.op, ast.UAdd):
                return self.tr(e.operand)
            fail(e, 'unsupported unary operator')
        if isinstance(e, ast.BinOp):
            if isinstance(e.op, ast.Pow):
                r = e.right
                if int_const(r) and 0 <= r.value <= 16:
                    return '(%s ^ %d)' % (self.tr(e.left), r.value)
                if isinstance(r, ast.UnaryOp) and isinstance(r.op, ast.USub) and int_const(r.operand) and 1 <= r.operand.value <= 16 \
                        and int_const(e.left) and e.left.value >= 1:
                    return '(/ (%d ^ %d))' % (e.left.value, r.operand.value)
                fail(e, 'unsupported exponent')
            ops = {ast.Add: '+', ast.Sub: '-', ast.Mult: '*', ast.Div: '/'}
            for k, s in ops.items():
                if isinstance(e.op, k):
                    return '(%s %s %s)' % (self.tr(e.left), s, self.tr(e.right))
            fail(e, 'unsupported binary operator %s' % type(e.op).__name__)
        if isinstance(e, ast.Call):
            if e.keywords:
                fail(e, 'keyword arguments are not supported')
            if is_np(e.func) and e.func.attr in NPFUN and len(e.args) == 1:
                return '(%s %s)' % (NPFUN[e.func.attr], self.tr(e.args[0]))
            if isinstance(e.func, ast.Name) and e.func.id in self.formulas:
                if len(e.args) != self.formulas[e.func.id]:
                    fail(e, 'wrong number of arguments for %s' % e.func.id)
                return '(%s%s %s)' % (PREFIX, e.func.id, ' '.join(self.tr(a) for a in e.args))
            fail(e, 'unsupported call')
        if isinstance(e, ast.Subscript):
            if self.mode == 'scalar':
                fail(e, 'indexing inside a formula function')
            if not isinstance(e.value, ast.Name) or e.value.id not in self.env:
                fail(e, 'unsupported subscript')
            v = self.env[e.value.id]
            s = e.slice
            if v[0] == 'pt':
                # x[mask]
                if self.mode == 'masked' and self.is_mask(s):
                    return v[1]
                fail(e, 'a per-point array may only be indexed by the current mask, inside the masked statement')
            if v[0] == 'rows':
                if isinstance(s, ast.Tuple) and len(s.elts) == 2 and self.is_mask(s.elts[1]):
                    if self.mode != 'masked':
                        fail(e, 'mask index outside a masked statement')
                    k = self.index(s.elts[0])
                elif not isinstance(s, ast.Tuple):
                    if self.mode == 'masked':
                        fail(e, 'row used without the mask index inside a masked statement')
                    k = self.index(s)
                else:
                    fail(e, 'unsupported index into %s' % e.value.id)
                if not 0 <= k < len(v[1]):
                    fail(e, 'row index %d out of range' % k)
                return v[1][k]
            if v[0] == 'cols':
                # pos[:, k]
                if self.mode == 'plain' and isinstance(s, ast.Tuple) and len(s.elts) == 2 and isinstance(s.elts[0], ast.Slice) \
                        and s.elts[0].lower is None and s.elts[0].upper is None and s.elts[0].step is None and int_const(s.elts[1]) \
                        and 0 <= s.elts[1].value < v[2]:
                    return '%s_%d' % (v[1], s.elts[1].value)
                fail(e, 'unsupported index into %s (expected %s[:, k])' % (e.value.id, e.value.id))
            if v[0] == 'mat':
                if self.mode == 'plain' and isinstance(s, ast.Tuple) and len(s.elts) == 2 and all(int_const(z) for z in s.elts) \
                        and 0 <= s.elts[0].value < v[2] and 0 <= s.elts[1].value < 2:
                    return '%s_%d_%d' % (v[1], s.elts[0].value, s.elts[1].value)
                fail(e, 'unsupported index into %s (expected %s[i, j])' % (e.value.id, e.value.id))
            fail(e, 'unsupported subscript')
        fail(e, 'unsupported expression %s' % type(e).__name__)

    def cond(self, e):
        """comparison -> (decision procedure, lhs, rhs)"""
        if isinstance(e, ast.Compare) and len(e.ops) == 1:
            a, b = self.tr(e.left), self.tr(e.comparators[0])
            op = e.ops[0]
            if isinstance(op, ast.Lt):
                return 'Rlt_dec %s %s' % (a, b)
            if isinstance(op, ast.Gt):
                return 'Rlt_dec %s %s' % (b, a)
            if isinstance(op, ast.LtE):
                return 'Rle_dec %s %s' % (a, b)
            if isinstance(op, ast.GtE):
                return 'Rle_dec %s %s' % (b, a)
        fail(e, 'unsupported condition')


# ---------------------------------------------------------------------------
# formula functions
# ---------------------------------------------------------------------------
def tr_formula(fn, formulas):
    args = [coq_name(fn, a) for a in argnames(fn)]
    if not args or len(set(args)) != len(args):
        fail(fn, '%s: bad argument list' % fn.name)
    env = {a: ('pt', a) for a in args}
    X = Expr(env, formulas, 'scalar')
    lets = []
    body = body_wo_doc(fn)
    result = None
    for st in body:
        if isinstance(st, ast.Return):
            if st is not body[-1] or st.value is None:
                fail(st, 'unsupported return')
            result = X.tr(st.value)
        elif isinstance(st, ast.Assign) and len(st.targets) == 1 and isinstance(st.targets[0], ast.Name):
            nm = coq_name(st, st.targets[0].id)
            if nm in env:
                fail(st, 'name %s assigned twice / argument reassigned' % nm)
            lets.append((nm, X.tr(st.value)))
            env[nm] = ('pt', nm)
        else:
            fail(st, 'unsupported statement %s' % type(st).__name__)
    if result is None:
        fail(fn, '%s: no return' % fn.name)
    return dict(name=fn.name, args=args, lets=lets, result=result, option=False)


# ---------------------------------------------------------------------------
# _protect_mask : abstract evaluation per size class
# ---------------------------------------------------------------------------
def analyse_protect(fn):
    if argnames(fn) != ['mask']:
        fail(fn, '%s: expected the single argument mask' % fn.name)

    def is_size(e):
        return isinstance(e, ast.Attribute) and e.attr == 'size' and isinstance(e.value, ast.Name) and e.value.id == 'mask'

    def test(e, size):
        """True / False / 'elem' (truth of the only element; size 1 only)"""
        if isinstance(e, ast.Compare) and len(e.ops) == 1 and is_size(e.left) and int_const(e.comparators[0]) \
                and e.comparators[0].value in (0, 1):
            c = e.comparators[0].value
            n = size            # 0, 1 or 2; 2 stands for every size >= 2 (uniform because c is 0 or 1)
            table = {ast.Eq: n == c, ast.NotEq: n != c, ast.Lt: n < c, ast.LtE: n <= c, ast.Gt: n > c, ast.GtE: n >= c}
            for k, v in table.items():
                if isinstance(e.ops[0], k):
                    return v
            fail(e, 'unsupported comparison of mask.size')
        if isinstance(e, ast.Subscript) and int_const(e.slice) and e.slice.value == 0 and isinstance(e.value, ast.Call) \
                and not e.value.args and not e.value.keywords and isinstance(e.value.func, ast.Attribute) \
                and e.value.func.attr == 'ravel' and isinstance(e.value.func.value, ast.Name) and e.value.func.value.id == 'mask':
            if size != 1:
                fail(e, 'mask.ravel()[0] is reached for a mask of size %s' % ('0' if size == 0 else '>= 2'))
            return 'elem'
        fail(e, 'unsupported test in %s' % fn.name)

    def value(st):
        v = st.value
        if v is None or (isinstance(v, ast.Constant) and v.value is None):
            return 'none'
        if isinstance(v, ast.Name) and v.id == 'mask':
            return 'mask'
        if int_const(v) and v.value == 0:
            return 'idx0'
        fail(st, 'unsupported return value in %s' % fn.name)

    def run(stmts, size):
        """outcome or None (fell through)"""
        for st in stmts:
            if isinstance(st, ast.Return):
                return value(st)
            if isinstance(st, ast.If):
                t = test(st.test, size)
                if t == 'elem':
                    a, b = run(st.body, size), run(st.orelse, size)
                    if a is None or b is None:
                        fail(st, 'a branch on the mask element must return on both sides')
                    return ('ite', a, b)
                r = run(st.body if t else st.orelse, size)
                if r is not None:
                    return r
                continue
            fail(st, 'unsupported statement %s in %s' % (type(st).__name__, fn.name))
        return None

    body = body_wo_doc(fn)
    out = {}
    for size in (0, 1, 2):
        r = run(body, size)
        if r is None:
            r = 'none'           # falling off the end returns None
        out[size] = r
    if out[0] not in ('none', 'mask'):
        fail(fn, '%s: empty mask -> %r' % (fn.name, out[0]))
    if out[1] not in ('mask', ('ite', 'idx0', 'none'), ('ite', 'mask', 'none'), ('ite', 'idx0', 'mask'), ('ite', 'mask', 'mask')):
        fail(fn, '%s: mask of size 1 -> %r is not the elementwise conditional' % (fn.name, out[1]))
    if out[2] != 'mask':
        fail(fn, '%s: mask of size >= 2 -> %r is not the mask itself' % (fn.name, out[2]))
    may_none = 'none' in (out[0], out[2]) or (isinstance(out[1], tuple) and 'none' in out[1])
    return dict(outcomes=out, may_none=may_none)


# ---------------------------------------------------------------------------
# arclen_2d_bounded / area_3d_bounded
# ---------------------------------------------------------------------------
def tr_bounded(fn, ndim, formulas, protect):
    if argnames(fn) != ['dist', 'pos', 'box']:
        fail(fn, '%s: expected arguments (dist, pos, box)' % fn.name)
    args = ['dist'] + ['pos_%d' % k for k in range(ndim)] + ['box_%d_%d' % (k, j) for k in range(ndim) for j in range(2)]
    env = {'dist': ('pt', 'dist'), 'pos': ('cols', 'pos', ndim), 'box': ('mat', 'box', ndim)}
    lets = []
    used = set(args)
    body = body_wo_doc(fn)
    state = dict(nan=None, result=None)

    def bind(st, nm, term):
        nm = coq_name(st, nm)
        lets.append((nm, term))
        used.add(nm)

    def masked_body(stmts, loop_node):
        """mask = _protect_mask(c); if mask is None: continue; acc[mask] op= e"""
        if len(stmts) != 3:
            fail(loop_node, 'loop body is not the three-statement masked update')
        s0, s1, s2 = stmts
        if not (isinstance(s0, ast.Assign) and len(s0.targets) == 1 and isinstance(s0.targets[0], ast.Name)
                and isinstance(s0.value, ast.Call) and isinstance(s0.value.func, ast.Name) and s0.value.func.id == PROTECT
                and len(s0.value.args) == 1 and not s0.value.keywords):
            fail(s0, 'expected `mask = %s(<comparison>)`' % PROTECT)
        mname = s0.targets[0].id
        if mname in env:
            fail(s0, 'mask name %s shadows another variable' % mname)
        c = Expr(env, formulas, 'plain').cond(s0.value.args[0])
        ok1 = (isinstance(s1, ast.If) and not s1.orelse and len(s1.body) == 1 and isinstance(s1.body[0], ast.Continue)
               and isinstance(s1.test, ast.Compare) and len(s1.test.ops) == 1 and isinstance(s1.test.ops[0], ast.Is)
               and isinstance(s1.test.left, ast.Name) and s1.test.left.id == mname
               and isinstance(s1.test.comparators[0], ast.Constant) and s1.test.comparators[0].value is None)
        if not ok1:
            fail(s1, 'expected `if %s is None: continue`' % mname)
        if not (isinstance(s2, ast.AugAssign) and isinstance(s2.target, ast.Subscript) and isinstance(s2.target.value, ast.Name)
                and isinstance(s2.target.slice, ast.Name) and s2.target.slice.id == mname):
            fail(s2, 'expected `<acc>[%s] -= <expr>` or `+=`' % mname)
        acc = s2.target.value.id
        if env.get(acc, (None,))[0] != 'pt' or acc == 'dist':
            fail(s2, '%s is not an accumulator' % acc)
        if isinstance(s2.op, ast.Sub):
            op = '-'
        elif isinstance(s2.op, ast.Add):
            op = '+'
        else:
            fail(s2, 'unsupported augmented assignment')
        env2 = dict(env)
        env2[mname] = ('mask',)
        val = Expr(env2, formulas, 'masked').tr(s2.value)
        a = env[acc][1]
        bind(s2, acc, '(%s %s %smasked (%s) %s)' % (a, op, PREFIX, c, val))

    for st in body:
        if state['result'] is not None:
            fail(st, 'statements after return')
        if state['nan'] is not None and not isinstance(st, ast.Return):
            fail(st, 'statements between the NaN mask and return')
        X = Expr(env, formulas, 'plain')
        if isinstance(st, ast.Return):
            if not (isinstance(st.value, ast.Name) and env.get(st.value.id, (None,))[0] == 'pt' and st.value.id != 'dist'):
                fail(st, 'unsupported return')
            if state['nan'] is not None and state['nan'][0] != st.value.id:
                fail(st, 'the NaN mask is on another variable than the returned one')
            state['result'] = env[st.value.id][1]
        elif isinstance(st, ast.Assign) and len(st.targets) == 1 and isinstance(st.targets[0], ast.Name):
            nm = st.targets[0].id
            if nm in env:
                fail(st, 'name %s assigned twice / argument reassigned' % nm)
            v = st.value
            if isinstance(v, ast.Call) and is_np(v.func, 'array') and len(v.args) == 1 and not v.keywords and isinstance(v.args[0], ast.List):
                rows = []
                for k, z in enumerate(v.args[0].elts):
                    rn = '%s_%d' % (nm, k)
                    if rn in used:
                        fail(st, 'name clash on %s' % rn)
                    bind(st, rn, X.tr(z))
                    rows.append(rn)
                if not rows:
                    fail(st, 'empty array')
                env[nm] = ('rows', rows)
            else:
                if nm in used:
                    fail(st, 'name clash on %s' % nm)
                bind(st, nm, X.tr(v))
                env[nm] = ('pt', nm)
        elif isinstance(st, ast.Assign) and len(st.targets) == 1 and isinstance(st.targets[0], ast.Subscript):
            # acc[acc < e] = np.nan
            tg = st.targets[0]
            if not (is_np(st.value, 'nan') and isinstance(tg.value, ast.Name) and env.get(tg.value.id, (None,))[0] == 'pt'
                    and tg.value.id != 'dist' and isinstance(tg.slice, ast.Compare)):
                fail(st, 'unsupported masked assignment')
            cmp_ = tg.slice
            if not (isinstance(cmp_.left, ast.Name) and cmp_.left.id == tg.value.id):
                fail(st, 'the NaN mask must compare the assigned array itself')
            state['nan'] = (tg.value.id, X.cond(cmp_))
        elif isinstance(st, ast.For):
            if st.orelse:
                fail(st, 'for-else')
            it = st.iter
            if isinstance(it, ast.Name) and env.get(it.id, (None,))[0] == 'rows' and isinstance(st.target, ast.Name):
                v = st.target.id
                if v in env:
                    fail(st, 'loop variable %s shadows another variable' % v)
                for rn in env[it.id][1]:
                    env[v] = ('pt', rn)
                    masked_body(st.body, st)
                del env[v]
            elif isinstance(it, ast.List) and it.elts and isinstance(st.target, ast.Tuple) and all(isinstance(z, ast.Name) for z in st.target.elts):
                vs = [z.id for z in st.target.elts]
                if len(set(vs)) != len(vs) or any(v in env for v in vs):
                    fail(st, 'loop variables shadow another variable')
                for row in it.elts:
                    if not (isinstance(row, (ast.List, ast.Tuple)) and len(row.elts) == len(vs) and all(int_const(z) for z in row.elts)):
                        fail(row, 'loop list entry is not a list of %d integer literals' % len(vs))
                    for v, z in zip(vs, row.elts):
                        env[v] = ('int', z.value)
                    masked_body(st.body, st)
                for v in vs:
                    del env[v]
            else:
                fail(st, 'unsupported loop')
        else:
            fail(st, 'unsupported statement %s' % type(st).__name__)
    if state['result'] is None:
        fail(fn, '%s: no return' % fn.name)
    res = state['result']
    if state['nan'] is not None:
        return dict(name=fn.name, args=args, lets=lets, result='if %s then None else Some %s' % (state['nan'][1], res), option=True)
    return dict(name=fn.name, args=args, lets=lets, result=res, option=False)


# ---------------------------------------------------------------------------
def emit(funs, protect):
    out = []
    out.append('(* GENERATED by tools/py2coq_static.py from trackpy/static.py -- do not edit.')
    out.append('   One point (one row of dist / pos) of each numpy expression; see the translator for the conventions.')
    out.append('   option R: None stands for NaN (the mask for vanishing arcs / areas).')
    out.append('   acos, asin, sqrt and / are total here; numpy gives NaN / inf outside their domains. *)')
    out.append('From Coq Require Import Reals.')
    out.append('Open Scope R_scope.')
    out.append('')
    o = protect['outcomes']
    out.append('(* _protect_mask, by abstract evaluation: size 0 -> %s; size 1 -> %s; size >= 2 -> %s' % (
        o[0], o[1] if isinstance(o[1], str) else 'if mask[0] then %s else %s' % (o[1][1], o[1][2]), o[2]))
    out.append('   (mask = the boolean mask itself, idx0 = the index 0, none = None: skip): the elementwise conditional. *)')
    out.append('')
    out.append('(* one element of the operand of a boolean-mask update  acc[mask] -= v / += v :')
    out.append('   v where the mask holds, 0 (element left as it is) elsewhere *)')
    out.append('Definition %smasked {A B : Prop} (c : {A} + {B}) (v : R) : R := if c then v else 0.' % PREFIX)
    out.append('')
    for f in funs:
        out.append('Definition %s%s (%s : R) : %s :=' % (PREFIX, f['name'], ' '.join(f['args']), 'option R' if f['option'] else 'R'))
        for nm, term in f['lets']:
            out.append('  let %s := %s in' % (nm, term))
        out.append('  %s.' % f['result'])
        out.append('')
    return '\n'.join(out)


def translate(repo):
    path = os.path.join(repo, 'trackpy', 'static.py')
    src = open(path).read()
    tree = ast.parse(src)
    defs = {}
    for n in tree.body:
        if isinstance(n, ast.FunctionDef):
            if n.name in defs:
                raise TranslationError('function %s defined twice' % n.name)
            defs[n.name] = n
    for name in FORMULAS + [PROTECT] + [b for b, _ in BOUNDED]:
        if name not in defs:
            raise TranslationError('function %s not found' % name)
    # nothing at module level may rebind one of the translated names after its def
    for n in tree.body:
        if isinstance(n, (ast.Assign, ast.AugAssign, ast.AnnAssign)):
            for t in ast.walk(n):
                if isinstance(t, ast.Name) and isinstance(t.ctx, ast.Store) and t.id in defs and t.id in FORMULAS + [PROTECT] + [b for b, _ in BOUNDED]:
                    raise TranslationError('module-level assignment rebinds %s' % t.id)
    formulas = {}
    funs = []
    for name in FORMULAS:
        f = tr_formula(defs[name], formulas)
        funs.append(f)
        formulas[name] = len(f['args'])
    protect = analyse_protect(defs[PROTECT])
    for name, ndim in BOUNDED:
        funs.append(tr_bounded(defs[name], ndim, formulas, protect))
    return emit(funs, protect)


def main():
    ap = argparse.ArgumentParser()
    ap.add_argument('--repo', default=os.environ.get('TRACKPY_REPO', '/repo'))
    ap.add_argument('--out', default=os.path.join(os.path.dirname(os.path.dirname(os.path.abspath(__file__))), 'coq', 'Gen', 'static_geom.v'))
    ap.add_argument('--stdout', action='store_true')
    a = ap.parse_args()
    try:
        text = translate(a.repo)
    except TranslationError as e:
        sys.stderr.write('py2coq_static: TRANSLATION ERROR: %s\n' % e)
        sys.exit(2)
    except (OSError, SyntaxError) as e:
        sys.stderr.write('py2coq_static: TRANSLATION ERROR: cannot read / parse the source: %s\n' % e)
        sys.exit(2)
    if a.stdout:
        sys.stdout.write(text)
        return
    old = open(a.out).read() if os.path.exists(a.out) else None
    if old != text:
        os.makedirs(os.path.dirname(a.out), exist_ok=True)
        tmp = a.out + '.tmp%d' % os.getpid()
        with open(tmp, 'w') as f:
            f.write(text)
        os.replace(tmp, a.out)
        print('py2coq_static: wrote %s (changed)' % a.out)
    else:
        print('py2coq_static: %s up to date' % a.out)


if __name__ == '__main__':
    main()
