#!/usr/bin/env python3
"""Copy a confirmed seeded change from /tmp/mut/<id>.out into /verif/seeded/<id>/ with the confirmation record."""
import json, os, shutil, sys
base = '/tmp/mut'
suffix = ''
args = sys.argv[1:]
if args and args[0].startswith('--base='):
    base = args[0].split('=', 1)[1]; suffix = '-' + os.path.basename(base).replace('mut', '') ; args = args[1:]
for pid in args:
    src = '%s/%s.out' % (base, pid)
    conf = json.load(open('%s/%s.confirm.json' % (base, pid)))
    ok = conf['demo_pristine_exit'] == 0 and conf['demo_mutant_exit'] == 1 and 'missing 0' in conf['suite'] and conf['patch_applies']
    if not ok:
        print(pid, 'NOT confirmed', conf); continue
    dst = '/verif/seeded/%s%s' % (pid, suffix)
    os.makedirs(dst, exist_ok=True)
    shutil.copy(src + '/patch.diff', dst + '/patch.diff')
    shutil.copy(src + '/demo.py', dst + '/demo.py')
    meta = json.load(open(src + '/meta.json'))
    meta = dict(property=pid, breaks=pid, summary=meta.get('summary'), needs=meta.get('needs'), files_changed=meta.get('files_changed'),
                author='independent sub-agent given only the property text and a scratch worktree',
                confirmed_by_coordinator=dict(
                    how='tools/confirm_mutant.sh %s: fresh git worktree of /repo HEAD; demo.py on pristine tree, git apply patch.diff, demo.py again, full pytest suite compared with BASELINE stable_pass' % pid,
                    demo_on_pristine_exit=conf['demo_pristine_exit'], demo_with_change_exit=conf['demo_mutant_exit'], suite=conf['suite']),
                agent_ran=meta.get('ran'))
    json.dump(meta, open(dst + '/meta.json', 'w'), indent=1)
    print(pid, 'installed')
