#!/bin/bash
# tools/commit_partial.sh "<message>" <files...> : commit the given files plus a _CoqProject that lists only .v files
# that are tracked after this commit (other agents may have appended entries for files not committed yet).
msg=$1; shift
cd /verif
git add "$@"
cp coq/_CoqProject /tmp/_CoqProject.full
python3 - <<'PY'
import subprocess
tracked = set(subprocess.run(['git','-C','/verif','ls-files','coq'],capture_output=True,text=True).stdout.split())
out=[]
for l in open('/verif/coq/_CoqProject'):
    t=l.strip()
    if t.endswith('.v') and ('coq/'+t) not in tracked:
        continue
    out.append(l)
open('/verif/coq/_CoqProject','w').write(''.join(out))
PY
git add coq/_CoqProject
git commit -qm "$msg"
# restore the full list, keeping anything appended meanwhile
python3 - <<'PY'
full=open('/tmp/_CoqProject.full').read().splitlines()
open('/verif/coq/_CoqProject','w').write('\n'.join(full)+'\n')
PY
git -C /verif log --oneline | head -1
