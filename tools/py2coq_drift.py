#!/usr/bin/env python3
"""Fail-closed translator (route T) for C18.

Reads  $TRACKPY_REPO/trackpy/motion.py  and  $TRACKPY_REPO/trackpy/utils.py
(default /repo) with the Python `ast` module and regenerates
/verif/coq/Gen/drift.v :

    utils.py    guess_pos_columns                  -> py_guess_pos_columns
    motion.py   compute_drift, subtract_drift      -> py_compute_drift, py_subtract_drift

as shallow Gallina over the vocabulary of coq/Model/PyDrift.v.  Every generated
function takes the pandas interface `P : pandas` first: pandas operations are
NAMED PRIMITIVES (fields of that record), matched as exact syntactic patterns;
Model/PyDrift.v interprets the record with the meaning Model/Drift.v gives the
operations, for all position columns at once.  Proofs/DriftGen.v proves the
generated functions equal to the hand-written model (column by column) for all
inputs and carries the C18 theorems over.

Embedding
  * a Python variable is a let-bound Coq variable of the same name (`_` appended
    when the name is reserved in Coq or in the vocabulary);
  * objects and aliasing.  Every primitive that returns a table returns a NEW
    object; `a = b` between object variables is rejected, so two variables never
    name the same object -- with one exception, the DataFrame parameter of
    subtract_drift (`traj`), which names the CALLER's object until it is rebound.
    For that parameter the generated code carries two more variables:
        traj_is_caller : bool       the local still names the caller's object
        traj_caller    : DataFrame  the caller's object as it is now
    a statement that changes the local's object in place (set_index / sort_index
    with inplace=True, traj[col] = ..) rebinds traj and then
        traj_caller := if traj_is_caller then traj else traj_caller;
    an assignment `traj = <new object>` sets traj_is_caller := false.  The
    generated function returns the pair (traj_caller, <returned value>): what the
    caller's table is afterwards, and the result;
  * in-place changes of any other object are allowed only on a variable that holds
    a difference table (always a new object);  a function that is called
    (compute_drift from subtract_drift) never changes its parameter: checked, its
    parameter is not of the kind that may be changed;
  * index ownership.  df[<names>] shares the index object of df.  pandas_sort
    renames index levels of its ARGUMENT in place (utils.py), so its argument must
    own its index (come out of reset_index(drop=True) / copy()); passing the
    caller's table, or a selection of it, is a translation error;
  * pandas_sort itself is a named primitive: its definition in utils.py must be
    TEXTUALLY the pinned one (PANDAS_SORT_PINNED below; C20's translator
    py2coq_filtering.py translates that body), and motion.py must import it and
    guess_pos_columns from .utils and bind the names nowhere else;
  * `if X is None: X = e` for an optional parameter X rebinds X to
        match X with Some v => v | None => e end;
  * any other `if` yields the tuple of the Coq variables its branches assign
    (each must exist before the `if` or be assigned in both branches);
  * `for col in <list of names>: body` is fold_left over the list, the state being
    the tuple of the Coq variables the body assigns;
  * `return` only as the last statement of the function.

Primitives: the table in Model/PyDrift.v.  The literal arguments that are part of
a pattern (drop=True, inplace=True, drop=False, min_periods=0, fill_value=0,
level=<literal>, columns={<literal>: <literal>}) must be exactly those.

Anything outside this subset: exit status 2, nothing written (the check treats
that like a broken proof).

Usage:  py2coq_drift.py [--repo /repo] [--out /verif/coq/Gen/drift.v] [--stdout]
"""
import ast, sys, os, argparse


class TranslationError(Exception):
    pass


def fail(node, msg):
    raise TranslationError('line %s: %s' % (getattr(node, 'lineno', '?'), msg))


# value types.  DataFrames: 'df:caller' (a parameter: the caller's object), 'df:shared' (new object whose index
# object is the caller's), 'df:own' (new object, own index), 'dfm' (the parameter of subtract_drift, alias protocol)
COQTY = {'df:caller': 'DataFrame P', 'df:shared': 'DataFrame P', 'df:own': 'DataFrame P', 'dfm': 'DataFrame P',
         'dd': 'DiffFrame P', 'gb': 'DGroupBy P', 'cv': 'Curve P', 'ocv': 'option (Curve P)', 'iser': 'ISeries P',
         'mask': 'Mask P', 'pser': 'PSeries P', 'cser': 'CSeries P', 'Z': 'Z', 'bool': 'bool', 'str': 'name',
         'strlist': 'list name', 'ostrlist': 'option (list name)'}
DFS = ('df:caller', 'df:shared', 'df:own', 'dfm')
OBJECTS = DFS + ('dd', 'gb', 'cv', 'iser', 'mask', 'pser', 'cser')
INT_COLUMNS = ('particle', 'frame', 'frame_diff')

RESERVED = {'by', 'as', 'at', 'in', 'if', 'then', 'else', 'let', 'fun', 'match', 'with', 'end', 'fix', 'cofix', 'forall',
            'exists', 'return', 'where', 'using', 'for', 'Type', 'Prop', 'Set', 'SProp', 'P', 'name', 'pandas', 'map',
            'Some', 'None', 'true', 'false', 'option', 'list', 'bool', 'Z', 'Q', 'negb', 'String', 'unit', 'tt', 'app',
            'nil', 'cons', 'fst', 'snd', 'fold_left', 'filter', 'combine', 'length', 'nth', 'mem', 'row', 'table', 'drift',
            'frame', 'particle', 'pos', 'other', 'diff', 'mask', 'selected', 'lookup', 'cumsum', 'curve', 'proj', 'proj1',
            'DataFrame', 'DiffFrame', 'DGroupBy', 'Curve', 'ISeries', 'Mask', 'PSeries', 'CSeries', 'mrow', 'mtable',
            'ddrow', 'dtable', 'pseries', 'somes', 'isort', 'qsum', 'qmean', 'rolling', 'DriftI', 'is_key', 'key'}


def cq(n):
    if n in RESERVED or n.startswith('p_') or n.startswith('py_') or n.endswith('_caller') or n.endswith('_is_caller'):
        return n + '_'
    return n


def cstr(s):
    if not isinstance(s, str) or any(ord(c) < 32 or ord(c) > 126 for c in s):
        raise TranslationError('unsupported string literal %r' % (s,))
    return '"%s"' % s.replace('"', '""')


def cmt(text):
    return text.replace('"', "'").replace('(*', '( *').replace('*)', '* )')


def is_none(e):
    return isinstance(e, ast.Constant) and e.value is None


def is_strconst(e):
    return isinstance(e, ast.Constant) and isinstance(e.value, str)


def is_const(e, v):
    return isinstance(e, ast.Constant) and type(e.value) is type(v) and e.value == v


def kwdict(call):
    d = {}
    for k in call.keywords:
        if k.arg is None or k.arg in d:
            fail(call, 'unsupported keyword arguments in `%s`' % ast.unparse(call))
        d[k.arg] = k.value
    return d


def join_types(node, a, b):
    if a == b:
        return a
    if a in DFS and b in DFS and 'dfm' not in (a, b):
        order = ['df:caller', 'df:shared', 'df:own']
        return order[min(order.index(a), order.index(b))]
    fail(node, 'a variable has type %s in one branch and %s in the other' % (a, b))


class Fn:
    def __init__(self, fdef, params, result, callees, mutable=None):
        """params: [(python name, type)]; result: type of the returned value; callees: {python name: (coq name,
        [param types], [default coq terms], result type)}; mutable: name of the DataFrame parameter under the alias protocol"""
        self.f = fdef
        self.name = fdef.name
        self.params = params
        self.result = result
        self.callees = callees
        self.mutable = mutable
        self.env = {n: t for n, t in params}
        self.modified = []          # Coq variables assigned so far in the block being translated

    # ------------------------------------------------------------------ environment
    def var(self, node, n, want=None):
        if n not in self.env:
            fail(node, 'name %s is read where it is not bound (or is outside the translated subset)' % n)
        t = self.env[n]
        if want is not None and t not in (want if isinstance(want, tuple) else (want,)):
            fail(node, '%s has type %s, expected %s' % (n, t, want))
        return cq(n), t

    def mark(self, coqvar):
        if coqvar not in self.modified:
            self.modified.append(coqvar)

    def caller_var(self):
        return self.mutable + '_caller'

    def flag_var(self):
        return self.mutable + '_is_caller'

    # ------------------------------------------------------------------ expressions
    def exT(self, e, want):
        s, t = self.ex(e)
        if t not in (want if isinstance(want, tuple) else (want,)):
            fail(e, 'expression `%s` has type %s, expected %s' % (ast.unparse(e), t, want))
        return s

    def names(self, e):
        """a list of column names"""
        return self.exT(e, 'strlist')

    def ex(self, e):
        if isinstance(e, ast.Name):
            return self.var(e, e.id)
        if isinstance(e, ast.Constant):
            v = e.value
            if isinstance(v, str):
                return cstr(v), 'str'
            if isinstance(v, int) and not isinstance(v, bool):
                return ('%d' % v if v >= 0 else '(%d)' % v), 'Z'
            fail(e, 'unsupported constant %r' % (v,))
        if isinstance(e, ast.List):
            if not e.elts or not all(is_strconst(x) for x in e.elts):
                fail(e, 'only non-empty lists of string literals are supported')
            return '[' + '; '.join(cstr(x.value) for x in e.elts) + ']', 'strlist'
        if isinstance(e, ast.BinOp):
            a, ta = self.ex(e.left)
            b, tb = self.ex(e.right)
            if isinstance(e.op, ast.Add) and ta == 'strlist' and tb == 'strlist':
                return '(%s ++ %s)' % (a, b), 'strlist'
            if isinstance(e.op, ast.BitAnd) and ta == 'mask' and tb == 'mask':
                return '(p_mask_and P %s %s)' % (a, b), 'mask'
            fail(e, 'unsupported operator in `%s` (%s, %s)' % (ast.unparse(e), ta, tb))
        if isinstance(e, ast.UnaryOp) and isinstance(e.op, ast.Not):
            return '(negb %s)' % self.exT(e.operand, 'bool'), 'bool'
        if isinstance(e, ast.Subscript):
            return self.subscript(e)
        if isinstance(e, ast.Attribute):
            if e.attr == 'columns':
                v, t = self.ex(e.value)
                if t == 'cv':
                    return '(p_columns P %s)' % v, 'strlist'
            fail(e, 'unsupported attribute `%s`' % ast.unparse(e))
        if isinstance(e, ast.Call):
            return self.call(e)
        if isinstance(e, ast.Compare):
            return self.compare(e)
        fail(e, 'unsupported expression `%s`' % ast.unparse(e))

    def subscript(self, e):
        # d.loc[mask, names]
        if isinstance(e.value, ast.Attribute) and e.value.attr == 'loc':
            d = self.exT(e.value.value, 'dd')
            if not (isinstance(e.slice, ast.Tuple) and len(e.slice.elts) == 2):
                fail(e, 'only <table>.loc[<mask>, <names>] is supported')
            m = self.exT(e.slice.elts[0], 'mask')
            return '(p_loc P %s %s %s)' % (d, m, self.names(e.slice.elts[1])), 'dd'
        v, t = self.ex(e.value)
        s = e.slice
        if t in DFS:
            if is_strconst(s):
                if s.value not in ('particle', 'frame'):
                    fail(e, 'reading column %r of a table by a literal label is outside the subset' % s.value)
                return '(p_getitem_int P %s %s)' % (v, cstr(s.value)), 'iser'
            k, tk = self.ex(s)
            if tk == 'strlist':
                own = 'df:own' if t == 'df:own' else 'df:shared'
                return '(p_select P %s %s)' % (v, k), own
            if tk == 'str' and isinstance(s, ast.Name):
                return '(p_getitem P %s %s)' % (v, k), 'pser'
            fail(e, 'unsupported subscript `%s`' % ast.unparse(e))
        if t == 'dd':
            if is_strconst(s) and s.value in INT_COLUMNS:
                return '(p_diff_getitem P %s %s)' % (v, cstr(s.value)), 'iser'
            fail(e, 'unsupported subscript `%s` of a difference table' % ast.unparse(e))
        if t == 'cv':
            if isinstance(s, ast.Name):
                k = self.exT(s, 'str')
                return '(p_curve_getitem P %s %s)' % (v, k), 'cser'
            fail(e, 'unsupported subscript `%s` of a drift table' % ast.unparse(e))
        fail(e, 'unsupported subscript `%s` (of a %s)' % (ast.unparse(e), t))

    def call(self, e):
        if any(isinstance(a, ast.Starred) for a in e.args):
            fail(e, 'unsupported call `%s`' % ast.unparse(e))
        kw = kwdict(e)
        f = e.func
        if isinstance(f, ast.Name):
            if f.id == 'list' and len(e.args) == 1 and not kw:
                return self.names(e.args[0]), 'strlist'      # a copy of an (immutable here) list of names
            if f.id == 'pandas_sort':
                if len(e.args) != 2 or kw:
                    fail(e, 'only pandas_sort(<table>, <names>) is supported')
                d, t = self.ex(e.args[0])
                if t != 'df:own':
                    fail(e, 'pandas_sort renames index levels of its argument in place: the argument must be a new table with '
                            'its own index (reset_index(drop=True) / copy()), here it is %s' %
                         {'df:caller': "the caller's table", 'df:shared': "a selection sharing the caller's index",
                          'dfm': "the caller's table"}.get(t, t))
                return '(p_pandas_sort P %s %s)' % (d, self.names(e.args[1])), 'df:own'
            if f.id in self.callees:
                cname, ptys, defaults, rty = self.callees[f.id]
                if kw or len(e.args) > len(ptys) or len(e.args) < len(ptys) - len(defaults):
                    fail(e, 'unsupported call `%s`' % ast.unparse(e))
                args = []
                for a, pt in zip(e.args, ptys):
                    s, t = self.ex(a)
                    if not (t == pt or (pt == 'df' and t in DFS)):
                        fail(e, 'argument `%s` has type %s, expected %s' % (ast.unparse(a), t, pt))
                    args.append(s)
                nd = len(ptys) - len(e.args)
                args += defaults[len(defaults) - nd:] if nd else []
                return '(%s P %s)' % (cname, ' '.join(args)), rty
            fail(e, 'unsupported call `%s`' % ast.unparse(e))
        if not isinstance(f, ast.Attribute):
            fail(e, 'unsupported call `%s`' % ast.unparse(e))
        m = f.attr
        # x.rolling(n, min_periods=0).mean()
        if m == 'mean' and not e.args and not kw and isinstance(f.value, ast.Call) and isinstance(f.value.func, ast.Attribute) \
                and f.value.func.attr == 'rolling':
            r = f.value
            rkw = kwdict(r)
            x = self.exT(r.func.value, 'cv')
            if len(r.args) != 1 or set(rkw) != {'min_periods'} or not is_const(rkw['min_periods'], 0):
                fail(e, 'only <drift table>.rolling(<n>, min_periods=0).mean() is supported')
            return '(p_rolling_mean P %s %s)' % (x, self.exT(r.args[0], 'Z')), 'cv'
        v, t = self.ex(f.value)
        if m == 'reset_index' and t in DFS and not e.args and set(kw) == {'drop'} and is_const(kw['drop'], True):
            return '(p_reset_index_drop P %s)' % v, 'df:own'
        if m == 'copy' and t in DFS and not e.args and not kw:
            return '(p_copy P %s)' % v, 'df:own'
        if m == 'diff' and t in DFS and not e.args and not kw:
            return '(p_diff P %s)' % v, 'dd'
        if m == 'groupby' and t == 'dd' and len(e.args) == 1 and is_strconst(e.args[0]) and not kw:
            return '(p_groupby P %s %s)' % (v, cstr(e.args[0].value)), 'gb'
        if m == 'mean' and t == 'gb' and not e.args and not kw:
            return '(p_gb_mean P %s)' % v, 'cv'
        if m == 'cumsum' and t == 'cv' and not e.args and not kw:
            return '(p_cumsum P %s)' % v, 'cv'
        if m == 'sub' and t == 'pser' and len(e.args) == 1 and set(kw) == {'fill_value', 'level'} \
                and is_const(kw['fill_value'], 0) and is_strconst(kw['level']):
            o = self.exT(e.args[0], 'cser')
            return '(p_sub_fill0_level P %s %s %s)' % (v, o, cstr(kw['level'].value)), 'pser'
        fail(e, 'unsupported call `%s` (receiver of type %s)' % (ast.unparse(e), t))

    def compare(self, e):
        if len(e.ops) != 1:
            fail(e, 'chained comparison')
        op, l, r = e.ops[0], e.left, e.comparators[0]
        if isinstance(op, ast.In):
            if not is_strconst(l):
                fail(e, 'only <string literal> in <table> is supported')
            if isinstance(r, ast.Attribute) and r.attr == 'columns':
                r = r.value
            c = self.exT(r, DFS)
            return '(p_has_column P %s %s)' % (c, cstr(l.value)), 'bool'
        a, ta = self.ex(l)
        b, tb = self.ex(r)
        if ta == 'iser' and tb == 'Z' and isinstance(op, ast.Eq) and isinstance(r, ast.Constant):
            return '(p_eq_int P %s %s)' % (a, b), 'mask'
        if ta == 'Z' and tb == 'Z':
            for kk, s in ((ast.Lt, '<?'), (ast.Gt, '>?'), (ast.LtE, '<=?'), (ast.GtE, '>=?'), (ast.Eq, '=?')):
                if isinstance(op, kk):
                    return '(%s %s %s)%%Z' % (a, s, b), 'bool'
        fail(e, 'unsupported comparison `%s`' % ast.unparse(e))

    # ------------------------------------------------------------------ statements
    def src(self, s, ind):
        line = ast.unparse(s).split('\n')[0]
        return '%s(* line %d: %s *)\n' % (ind, s.lineno, cmt(line))

    def let(self, ind, v, term):
        self.mark(v)
        return '%slet %s := %s in\n' % (ind, v, term)

    def after_mutation(self, ind):
        """the local's object was changed in place: the caller's object is the same one iff the flag says so"""
        return self.let(ind, self.caller_var(), 'if %s then %s else %s' % (self.flag_var(), cq(self.mutable), self.caller_var()))

    def tup(self, W):
        return W[0] if len(W) == 1 else '(' + ', '.join(W) + ')'

    def pat(self, W):
        return W[0] if len(W) == 1 else "'(" + ', '.join(W) + ')'

    def block(self, stmts, ind):
        """statements that are not return; returns the text of the lets"""
        out = ''
        for i, s in enumerate(stmts):
            out += self.stmt(s, ind)
        return out

    def stmt(self, s, ind):
        if isinstance(s, ast.Pass):
            return ''
        if isinstance(s, ast.Expr) and isinstance(s.value, ast.Constant) and isinstance(s.value.value, str):
            return ''
        if isinstance(s, ast.Expr):
            return self.src(s, ind) + self.mutation(s, ind)
        if isinstance(s, ast.Assign):
            return self.src(s, ind) + self.assign(s, ind)
        if isinstance(s, ast.If):
            return self.ifstmt(s, ind)
        if isinstance(s, ast.For):
            return self.forstmt(s, ind)
        fail(s, 'unsupported statement %s' % type(s).__name__)

    def mutation(self, s, ind):
        c = s.value
        if not (isinstance(c, ast.Call) and isinstance(c.func, ast.Attribute) and isinstance(c.func.value, ast.Name)):
            fail(s, 'unsupported expression statement `%s`' % ast.unparse(s))
        if any(isinstance(a, ast.Starred) for a in c.args):
            fail(s, 'unsupported call')
        x = c.func.value.id
        v, t = self.var(s, x)
        kw = kwdict(c)
        m = c.func.attr
        if m == 'rename' and t == 'dd' and not c.args and set(kw) == {'columns', 'inplace'} and is_const(kw['inplace'], True):
            d = kw['columns']
            if not (isinstance(d, ast.Dict) and len(d.keys) == 1 and is_strconst(d.keys[0]) and is_strconst(d.values[0])):
                fail(s, 'only rename(columns={<literal>: <literal>}, inplace=True) is supported')
            return self.let(ind, v, 'p_rename_column P %s %s %s' % (v, cstr(d.keys[0].value), cstr(d.values[0].value)))
        if m == 'set_index' and t == 'dfm' and len(c.args) == 1 and set(kw) == {'inplace', 'drop'} \
                and is_const(kw['inplace'], True) and is_const(kw['drop'], False):
            out = self.let(ind, v, 'p_set_index_keep P %s %s' % (v, self.names(c.args[0])))
            return out + self.after_mutation(ind)
        if m == 'sort_index' and t == 'dfm' and not c.args and set(kw) == {'level', 'inplace'} \
                and is_const(kw['inplace'], True) and is_strconst(kw['level']):
            out = self.let(ind, v, 'p_sort_index_level P %s %s' % (v, cstr(kw['level'].value)))
            return out + self.after_mutation(ind)
        fail(s, 'unsupported statement `%s` (receiver %s of type %s): a call whose value is dropped must be one of the '
                'in-place operations of the subset, on an object the function owns' % (ast.unparse(s), x, t))

    def assign(self, s, ind):
        if len(s.targets) != 1:
            fail(s, 'chained assignment')
        tg = s.targets[0]
        if isinstance(tg, ast.Subscript):
            if not isinstance(tg.value, ast.Name):
                fail(s, 'unsupported assignment target `%s`' % ast.unparse(tg))
            v, t = self.var(s, tg.value.id)
            if t == 'dd' and is_strconst(tg.slice):
                rhs = self.exT(s.value, 'iser')
                return self.let(ind, v, 'p_setitem_int P %s %s %s' % (v, cstr(tg.slice.value), rhs))
            if t == 'dfm' and isinstance(tg.slice, ast.Name):
                k = self.exT(tg.slice, 'str')
                rhs = self.exT(s.value, 'pser')
                return self.let(ind, v, 'p_setitem P %s %s %s' % (v, k, rhs)) + self.after_mutation(ind)
            fail(s, 'unsupported assignment target `%s` (a %s): only an object the function owns may be changed' % (ast.unparse(tg), t))
        if not isinstance(tg, ast.Name):
            fail(s, 'unsupported assignment target `%s`' % ast.unparse(tg))
        if isinstance(s.value, ast.Name) and self.env.get(s.value.id) in OBJECTS:
            fail(s, '`%s`: two variables would name the same object' % ast.unparse(s))
        v, tv = self.ex(s.value)
        if tv not in COQTY:
            fail(s, 'cannot bind a value of type %s' % tv)
        x = tg.id
        if x == self.mutable:
            if tv != 'df:own':
                fail(s, '%s may only be rebound to a new table' % x)
            out = self.let(ind, cq(x), v)
            return out + self.let(ind, self.flag_var(), 'false')
        if x in self.env:
            old = self.env[x]
            if x in [n for n, _ in self.params] and old in ('df:caller', 'ocv', 'ostrlist'):
                fail(s, 'parameter %s is rebound outside the supported patterns' % x)
            if not (old == tv or (old in DFS and tv in DFS)):
                fail(s, 'variable %s changes type from %s to %s' % (x, old, tv))
        self.env[x] = tv
        return self.let(ind, cq(x), v)

    def is_none_default(self, s):
        """if X is None: X = e     with X an optional parameter"""
        t = s.test
        if isinstance(t, ast.Compare) and len(t.ops) == 1 and isinstance(t.ops[0], ast.Is) and is_none(t.comparators[0]) \
                and isinstance(t.left, ast.Name) and self.env.get(t.left.id) in ('ostrlist', 'ocv'):
            return t.left.id
        return None

    def ifstmt(self, s, ind):
        for n in ast.walk(s):
            if isinstance(n, (ast.Return, ast.Continue, ast.Break, ast.Raise)):
                fail(n, 'unsupported control flow inside an if')
        x = self.is_none_default(s)
        if x is not None:
            if s.orelse or len(s.body) != 1 or not isinstance(s.body[0], ast.Assign) or len(s.body[0].targets) != 1 \
                    or not isinstance(s.body[0].targets[0], ast.Name) or s.body[0].targets[0].id != x:
                fail(s, 'only `if %s is None: %s = <value>` is supported for an optional parameter' % (x, x))
            inner = {'ostrlist': 'strlist', 'ocv': 'cv'}[self.env[x]]
            told = self.env.pop(x)          # reading X inside e would read None
            v = self.exT(s.body[0].value, inner)
            self.env[x] = inner
            return (self.src(s, ind) + self.src(s.body[0], ind + '  ') +
                    self.let(ind, cq(x), 'match %s with Some v => v | None => %s end' % (cq(x), v)))
        c = self.exT(s.test, 'bool')
        env0, mod0 = dict(self.env), self.modified
        # first pass: which Coq variables do the branches assign
        sets, envs = [], []
        for body in (s.body, s.orelse):
            self.env, self.modified = dict(env0), []
            self.block(list(body), '')
            sets.append(self.modified)
            envs.append(self.env)
        W = list(dict.fromkeys(sets[0] + sets[1]))
        if not W:
            fail(s, 'an if that changes nothing')
        shadow = {self.caller_var(): 'df', self.flag_var(): 'bool'} if self.mutable else {}
        back = {cq(k): k for k in list(env0) + list(envs[0]) + list(envs[1])}
        for w in W:
            if w in shadow:
                continue
            py = back[w]
            if py not in env0 and not (w in sets[0] and w in sets[1]):
                fail(s, 'variable %s is assigned in one branch only and does not exist before the if' % py)
        # second pass: text
        texts = []
        for body in (s.body, s.orelse):
            self.env, self.modified = dict(env0), []
            txt = self.block(list(body), ind + '    ')
            texts.append(txt + ind + '    ' + self.tup(W))
        self.env = dict(env0)
        for w in W:
            if w in shadow:
                continue
            py = back[w]
            ta, tb = envs[0].get(py, env0.get(py)), envs[1].get(py, env0.get(py))
            self.env[py] = join_types(s, ta, tb)
        self.modified = mod0
        for w in W:
            self.mark(w)
        return ('%s(* line %d: if %s *)\n%slet %s :=\n%s  if %s then\n%s\n%s  else\n%s in\n'
                % (ind, s.lineno, cmt(ast.unparse(s.test)), ind, self.pat(W), ind, c, texts[0], ind, texts[1]))

    def forstmt(self, s, ind):
        if s.orelse or not isinstance(s.target, ast.Name):
            fail(s, 'unsupported for statement')
        for n in ast.walk(s):
            if isinstance(n, (ast.Return, ast.Continue, ast.Break, ast.Raise, ast.While)) or (isinstance(n, ast.For) and n is not s):
                fail(n, 'unsupported control flow inside a for')
        x = s.target.id
        if x in self.env:
            fail(s, 'loop variable %s shadows a variable' % x)
        it = self.names(s.iter)
        env0, mod0 = dict(self.env), self.modified
        self.env[x] = 'str'
        self.modified = []
        self.block(list(s.body), '')
        W = list(self.modified)
        if any(self.env.get(k) != env0.get(k) for k in set(self.env) | set(env0) if k != x):
            fail(s, 'the loop body changes the type of a variable or binds a new one')
        if not W:
            fail(s, 'a loop that changes nothing')
        self.env, self.modified = dict(env0), []
        self.env[x] = 'str'
        body = self.block(list(s.body), ind + '    ')
        self.env = dict(env0)
        self.modified = mod0
        for w in W:
            self.mark(w)
        fpat = "'(" + ', '.join(W) + ')' if len(W) > 1 else W[0]
        return ('%s(* line %d: for %s in %s *)\n%slet %s :=\n%s  fold_left (fun %s %s =>\n%s%s    %s)\n%s    %s %s in\n'
                % (ind, s.lineno, x, cmt(ast.unparse(s.iter)), ind, self.pat(W), ind, fpat, cq(x), body, ind, self.tup(W), ind, it, self.tup(W)))

    # ------------------------------------------------------------------ function
    def translate(self):
        body = list(self.f.body)
        for s in body:
            for n in ast.walk(s):
                if isinstance(n, (ast.While, ast.With, ast.DictComp, ast.SetComp, ast.ListComp, ast.GeneratorExp, ast.Yield,
                                  ast.YieldFrom, ast.FunctionDef, ast.ClassDef, ast.Global, ast.Nonlocal, ast.Delete, ast.Lambda,
                                  ast.Await, ast.NamedExpr, ast.Assert, ast.Import, ast.ImportFrom, ast.Try, ast.AugAssign,
                                  ast.AsyncFunctionDef, ast.Starred, ast.IfExp)):
                    fail(n, 'unsupported construct %s' % type(n).__name__)
        if not body or not isinstance(body[-1], ast.Return) or body[-1].value is None:
            fail(self.f, 'the function does not end with `return <value>`')
        for s in body[:-1]:
            for n in ast.walk(s):
                if isinstance(n, ast.Return):
                    fail(n, 'return before the end of the function')
        ind = '  '
        head = ''
        if self.mutable:
            head += '%slet %s := %s in\n%slet %s := true in\n' % (ind, self.caller_var(), cq(self.mutable), ind, self.flag_var())
        main = self.block(body[:-1], ind)
        ret = body[-1]
        v = self.exT(ret.value, self.result if self.result != 'df' else DFS)
        main += self.src(ret, ind)
        if self.mutable:
            main += '%s(%s, %s)' % (ind, self.caller_var(), v)
        else:
            main += ind + v
        binders = '(P : pandas) ' + ''.join('(%s : %s) ' % (cq(n), COQTY[t]) for n, t in self.params)
        rty = COQTY['df:own' if self.result == 'df' else self.result]
        if self.mutable:
            rty = 'DataFrame P * ' + rty
        return '(* ===== %s (line %d) ===== *)\nDefinition py_%s %s: %s :=\n%s%s.\n' % (
            self.name, self.f.lineno, self.name, binders, rty, head, main)


def check_sig(fdef, names, defaults):
    a = fdef.args
    got = [x.arg for x in a.args]
    if got != names or a.vararg or a.kwonlyargs or getattr(a, 'posonlyargs', []) or a.kwarg:
        fail(fdef, 'signature of %s changed: %s' % (fdef.name, ast.unparse(a)))
    if [ast.unparse(d) for d in a.defaults] != defaults:
        fail(fdef, 'defaults of %s changed: %s' % (fdef.name, [ast.unparse(d) for d in a.defaults]))
    if fdef.decorator_list:
        fail(fdef, 'decorated function')


def module_defs(tree, wanted, what, imported=()):
    """the unique module-level definitions of the wanted functions; nothing else in the module may bind those names
    (nor the imported ones, which must be bound by exactly one module-level `from .utils import`)"""
    defs = {}
    for n in tree.body:
        if isinstance(n, ast.FunctionDef) and n.name in wanted:
            if n.name in defs:
                raise TranslationError('%s: function %s defined twice' % (what, n.name))
            defs[n.name] = n
    imports = {}
    for n in tree.body:
        if isinstance(n, ast.ImportFrom) and n.module == 'utils' and n.level == 1:
            for al in n.names:
                if al.name in imported and al.asname is None:
                    if al.name in imports:
                        raise TranslationError('%s: %s imported twice' % (what, al.name))
                    imports[al.name] = al
    allnames = set(wanted) | set(imported)
    for n in ast.walk(tree):
        bound = []
        if isinstance(n, (ast.FunctionDef, ast.ClassDef, ast.AsyncFunctionDef)) and n.name in allnames and defs.get(n.name) is not n:
            bound.append(n.name)
        if isinstance(n, ast.Name) and isinstance(n.ctx, (ast.Store, ast.Del)) and n.id in allnames:
            bound.append(n.id)
        if isinstance(n, ast.alias) and (n.asname or n.name).split('.')[0] in allnames and imports.get(n.name) is not n:
            bound.append(n.asname or n.name)
        if isinstance(n, ast.alias) and n.name == '*':
            bound.append('* (star import)')
        if isinstance(n, ast.arg) and n.arg in allnames:
            bound.append(n.arg)
        if bound:
            raise TranslationError('%s: %s is bound a second time (line %s)' % (what, bound[0], getattr(n, 'lineno', '?')))
    for w in wanted:
        if w not in defs:
            raise TranslationError('%s: function %s not found' % (what, w))
    for w in imported:
        if w not in imports:
            raise TranslationError('%s: %s is not imported from .utils' % (what, w))
    return defs


def strip_doc(fdef):
    f = ast.parse(ast.unparse(fdef)).body[0]
    if f.body and isinstance(f.body[0], ast.Expr) and isinstance(f.body[0].value, ast.Constant) and isinstance(f.body[0].value.value, str):
        f.body = f.body[1:]
    return ast.unparse(f)


# trackpy.utils.pandas_sort, docstring removed, as ast.unparse prints it.  Its meaning for the calls made here
# (argument: a new table with a RangeIndex; by = ['particle', 'frame']) is the primitive p_pandas_sort.
PANDAS_SORT_PINNED = """def pandas_sort(df, by, *args, **kwargs):
    if df.index.name is not None and df.index.name in by:
        df.index.name += '_index'
    elif df.index.nlevels > 1:
        df.index.names = [name + '_index' if name is not None and name in by else name for name in df.index.names]
    return df.sort_values(*args, by=by, **kwargs)"""


HEADER = """(* GENERATED by tools/py2coq_drift.py from trackpy/motion.py and trackpy/utils.py -- do not edit.
   compute_drift, subtract_drift (motion.py) and guess_pos_columns (utils.py), statement by
   statement, as Gallina over Model/PyDrift.v: every pandas operation is a field of the
   interface record [P : pandas] (conventions and the list of primitives: that file and the
   translator's docstring).  Proofs/DriftGen.v instantiates P with DriftI (Model/Drift.v for
   all position columns at once) and proves the functions below equal to the hand-written
   model, column by column.
   py_subtract_drift returns (the caller's table afterwards, the returned table).
   pandas_sort (utils.py) is the primitive p_pandas_sort: its text is the pinned one.
   Pinned defaults: compute_drift(smoothing=0, pos_columns=None), subtract_drift(drift=None, inplace=False). *)
From Coq Require Import ZArith QArith String List Bool.
From TP Require Import Model.PyDrift.
Import ListNotations.
Local Open Scope string_scope.
"""


def translate(repo):
    upath = os.path.join(repo, 'trackpy', 'utils.py')
    utree = ast.parse(open(upath).read())
    udefs = module_defs(utree, ['pandas_sort', 'guess_pos_columns'], 'utils.py')
    got = strip_doc(udefs['pandas_sort'])
    if got != PANDAS_SORT_PINNED:
        raise TranslationError('utils.py line %d: pandas_sort is not the pinned definition the primitive p_pandas_sort stands for:\n%s'
                               % (udefs['pandas_sort'].lineno, got))
    if udefs['pandas_sort'].decorator_list:
        raise TranslationError('utils.py: pandas_sort is decorated')
    out = []
    check_sig(udefs['guess_pos_columns'], ['f'], [])
    out.append(Fn(udefs['guess_pos_columns'], [('f', 'df:caller')], 'strlist', {}).translate())

    mpath = os.path.join(repo, 'trackpy', 'motion.py')
    mtree = ast.parse(open(mpath).read())
    mdefs = module_defs(mtree, ['compute_drift', 'subtract_drift'], 'motion.py', imported=['pandas_sort', 'guess_pos_columns'])
    callees = {'guess_pos_columns': ('py_guess_pos_columns', ['df'], [], 'strlist')}
    check_sig(mdefs['compute_drift'], ['traj', 'smoothing', 'pos_columns'], ['0', 'None'])
    out.append(Fn(mdefs['compute_drift'], [('traj', 'df:caller'), ('smoothing', 'Z'), ('pos_columns', 'ostrlist')], 'cv',
                  callees).translate())
    callees = dict(callees)
    callees['compute_drift'] = ('py_compute_drift', ['df', 'Z', 'ostrlist'], ['0%Z', 'None'], 'cv')
    check_sig(mdefs['subtract_drift'], ['traj', 'drift', 'inplace'], ['None', 'False'])
    out.append(Fn(mdefs['subtract_drift'], [('traj', 'dfm'), ('drift', 'ocv'), ('inplace', 'bool')], 'df', callees,
                  mutable='traj').translate())
    return HEADER + '\n' + '\n'.join(out)


def main():
    ap = argparse.ArgumentParser()
    ap.add_argument('--repo', default=os.environ.get('TRACKPY_REPO', '/repo'))
    ap.add_argument('--out', default=os.path.join(os.path.dirname(os.path.dirname(os.path.abspath(__file__))), 'coq', 'Gen', 'drift.v'))
    ap.add_argument('--stdout', action='store_true')
    a = ap.parse_args()
    try:
        text = translate(a.repo)
    except TranslationError as e:
        sys.stderr.write('py2coq_drift: TRANSLATION ERROR: %s\n' % e)
        sys.exit(2)
    except (OSError, SyntaxError) as e:
        sys.stderr.write('py2coq_drift: TRANSLATION ERROR: cannot read / parse the source: %s\n' % e)
        sys.exit(2)
    except Exception as e:      # fail closed on anything unforeseen
        sys.stderr.write('py2coq_drift: TRANSLATION ERROR: internal error %r\n' % (e,))
        sys.exit(2)
    if a.stdout:
        sys.stdout.write(text)
        return
    old = open(a.out).read() if os.path.exists(a.out) else None
    if old != text:
        os.makedirs(os.path.dirname(a.out), exist_ok=True)
        tmp = a.out + '.tmp%d' % os.getpid()
        with open(tmp, 'w') as f:
            f.write(text)
        os.replace(tmp, a.out)
        print('py2coq_drift: wrote %s (changed)' % a.out)
    else:
        print('py2coq_drift: %s up to date' % a.out)


if __name__ == '__main__':
    main()
