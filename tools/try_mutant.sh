#!/bin/bash
# tools/try_mutant.sh <patch.diff> <Cxx> [tier]   -- run a check against a scratch copy of /repo with a patch applied
set -e
P=$1; C=$2; T=${3:-quick}
D=/tmp/mrepo-$$
rsync -a --exclude .git /repo/ $D/
(cd $D && patch -p1 -s < $P)
cd /verif
VERIF_EVIDENCE_DIR=/tmp/mevidence-$$ TRACKPY_REPO=$D ./check $C --tier $T 2>&1 | grep -E "VIOLATION|KNOWN|violated|tier=" | head -14
rm -rf $D /tmp/mevidence-$$
cd /verif && python3 tools/regen_all.py >/dev/null 2>&1 || true   # translators ran against the scratch tree: regenerate from /repo
