NOTES = "Fix commits in /repo repair defects F1-F12 found in the design round (see known_findings.json, DESIGN.md §4)."
NOT_APPLICABLE = {
 'C05': "analytic sub-pixel error bound over a continuum of blob parameters through exp sampling, float filtering and an iterated centroid: no exact executable model exists, so neither a theorem nor a correspondence is available with this technique (DESIGN.md §5); its discrete stages are C06-C10",
}
CHECKS = {}
