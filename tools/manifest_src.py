NOTES = "Fix commits in /repo repair defects F1-F12 found in the design round (see known_findings.json, DESIGN.md §4)."
NOT_APPLICABLE = {
 'C05': "analytic sub-pixel error bound over a continuum of blob parameters through exp sampling, float filtering and an iterated centroid: no exact executable model exists, so neither a theorem nor a correspondence is available with this technique (DESIGN.md §5); its discrete stages are C06-C10",
}
LINK_NOTE = ("Trusted: Coq kernel + vm_compute; harness (generators, float->exact scaling, pandas-level row comparison). Modelled, not verified: "
             "cKDTree.query = all sources within range (cases with > 10 in range skipped and counted), float distance arithmetic = exact arithmetic on "
             "lattice inputs, the 1e-7 admission slack, Python set iteration order (only breaks ties). All property theorems: Closed under the global context.")
CHECKS = {
 'C01': dict(
   text="Proof: Properties/C01.v proves for the executable step-machine model of Linker (any number of frames/particles, any memory, any predictor) that every "
        "feature gets exactly one label, labels are distinct per frame, a label is fresh or continues a live source within range last seen <= memory+1 steps ago, "
        "and that link's table adapter passes every row exactly once (missing frame numbers = empty steps). Correspondence: link / link_df_iter / link_iter on "
        "generated tables (odd indices, shuffled rows, float frames, gaps) - labels replayed by the Coq monitor (proved sound, C02_monitor_sound) on frames rebuilt from the "
        "returned table; returned rows and the caller's table compared at pandas level.",
   note=LINK_NOTE + " Caller-table immutability and index/column preservation are established by correspondence only (values are immutable in the model)."),
 'C02': dict(
   text="Proof: Properties/C02.v proves (all subnet sizes, cost patterns, histories) that the pruned recursive search returns a minimum-cost one-to-one assignment, "
        "that candidate lists are exactly the in-range destinations plus the null link at search_range^2, that subnets partition sources and share no destination, that "
        "solving subnets separately is globally optimal over previous-frame + remembered sources, Oversize iff a subnet exceeds the limit, and that the executable monitor "
        "is sound. Correspondence: every link_strategy of trackpy.link_iter and the three subnet linkers on constructed candidate graphs are checked step by step "
        "by the monitor (cost of the implementation's assignment = verified optimum; raise iff).",
   note=LINK_NOTE + " The nonrecursive and numba solvers are tied to the verified optimum by the monitor on every generated case, not by their own refinement proof."),
}
