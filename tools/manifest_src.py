NOTES = "Fix commits in /repo repair defects F1-F12 found in the design round (see known_findings.json, DESIGN.md §4)."
NOT_APPLICABLE = {
 'C05': "analytic sub-pixel error bound over a continuum of blob parameters through exp sampling, float filtering and an iterated centroid: no exact executable model exists, so neither a theorem nor a correspondence is available with this technique (DESIGN.md §5); its discrete stages are C06-C10",
}
LINK_NOTE = ("Trusted: Coq kernel + vm_compute; harness (generators, float->exact scaling, pandas-level row comparison). Modelled, not verified: "
             "cKDTree.query = all sources within range (cases with > 10 in range skipped and counted), float distance arithmetic = exact arithmetic on "
             "lattice inputs, the 1e-7 admission slack, Python set iteration order (only breaks ties). All property theorems: Closed under the global context.")
CHECKS = {
 'C01': dict(
   text="Proof: Properties/C01.v proves for the executable step-machine model of Linker (any number of frames/particles, any memory, any predictor) that every "
        "feature gets exactly one label, labels are distinct per frame, a label is fresh or continues a live source within range last seen <= memory+1 steps ago, "
        "and that link's table adapter (coords_from_df as the code computes it) passes every row exactly once (missing frame numbers = empty steps); a labelling accepted by the monitor satisfies the "
        "trajectory-level statement (consecutive observations <= memory+1 frames and <= search_range apart). Correspondence: link / link_df_iter / link_iter on "
        "generated tables (odd indices, shuffled rows, float frames, gaps) - labels replayed by the Coq monitor (proved sound, C02_monitor_sound) on frames rebuilt from the "
        "returned table; returned rows and the caller's table compared at pandas level. Route T: coords_from_df, coords_from_df_iter, link_iter, link and link_df_iter are REGENERATED from /repo's source on every run (tools/py2coq_coords.py -> coq/Gen/coords.v) and proved equal to the table models with the Linker as interface parameter.",
   note=LINK_NOTE + " Caller-table immutability and index/column preservation are established by correspondence only (values are immutable in the model).",
   technique="machine-checked proofs over an executable Gallina model + translator from Python source to Coq (regenerated per run, proved equal to the model) + correspondence run"),
 'C02': dict(
   text="Proof: Properties/C02.v proves (all subnet sizes, cost patterns, histories) that the pruned recursive search returns a minimum-cost one-to-one assignment, "
        "that candidate lists are exactly the in-range destinations plus the null link at search_range^2, that subnets partition sources and share no destination, that "
        "solving subnets separately is globally optimal over previous-frame + remembered sources, Oversize iff a subnet exceeds the limit, and that the executable monitor "
        "is sound. Correspondence: every link_strategy of trackpy.link_iter and the three subnet linkers on constructed candidate graphs are checked step by step "
        "by the monitor (cost of the implementation's assignment = verified optimum; raise iff). Route T: SubnetLinker.do_recur/__init__ and assign_subnet are REGENERATED from /repo's source on every run (tools/py2coq_linker.py -> coq/Gen/linker_core.v) and proved equal to the model's search/solve and subnet-dictionary model for all inputs; the subnet dictionary (Subnets.compute/assign_subnet) is modelled line by line and proved to build exactly the connected components = Link.components; dictionaries observed inside real Linker runs are compared with it. Also regenerated (tools/py2coq_linkstep.py -> coq/Gen/linkstep.v): Subnets.__init__/compute, subnet_linker_recursive, Linker.assign_links / apply_links / next_level, with per-subnet optimality and the memory-queue theorem stated about the generated code. C02_generated_step_optimal: the whole generated step is optimal (the hybrid shortcut exactly under its cost bound; the 1e-7 admission slack is pinned down by a refuting example; the KD-tree query hypothesis is explicit).",
   note=LINK_NOTE + " The nonrecursive and numba solvers are tied to the verified optimum by the monitor on every generated case, not by their own refinement proof."),
}

STAT_NOTE = ("Trusted: Coq kernel + vm_compute; harness (generators, float->exact rationals via as_integer_ratio, a-priori rounding tolerance). Modelled, not verified: the numpy/scipy/pandas "
             "primitives named in DESIGN.md §2.5 (by their mathematical meaning) and float rounding. ")
CHECKS.update({
 'C03': dict(
   text="Proof: Properties/C03.v - any two labellings of a step accepted by the sound monitor have identical total cost; optimality is invariant under the order of sources; 'drop' links "
        "only uncontested one-source/one-destination subnets; a per-axis range is exactly a rescaling (in-range test and costs coincide). Correspondence (differential): each movie through 5 "
        "strategies x link_iter/link/link_df_iter, permuted rows, legacy.link_iter (KDTree and hash table), pre-divided coordinates, and 'drop' (new and legacy); every labelling is replayed by "
        "the monitor; partitions may differ only where the monitor certifies an equal-cost tie. Route T: nonrecursive_link is REGENERATED from /repo's source on every run (tools/py2coq_iterative.py -> coq/Gen/iterative.v) and proved to run the stack machine, hence to return exactly the recursive solver's answer; the generated function is executed next to the real one. Also regenerated (tools/py2coq_numbakernel.py -> coq/Gen/numbakernel.v): _numba_subnet_norecur, proved to run the (true,true) stack machine and to return an optimum; started on the arrays the real numba_link builds.",
   note=LINK_NOTE + " sklearn absent: the new linker's BTree neighbour strategy is not exercised. Solver-specific refinement proofs (nonrecursive, numba) are not done: agreement rests on the monitor.",
   technique="machine-checked proofs over an executable Gallina model + translator from Python source to Coq (regenerated per run, proved equal to the model) + correspondence run"),
 'C04': dict(
   text="Proof: Properties/C04.v - in the model with per-linker id counters, for EVERY schedule of Start/Step operations of any number of jobs the outputs of a job equal those of its solo run "
        "(non-interference by induction over the schedule; reproducibility corollary); the shared-counter model of the code before the fix is refuted by a witness schedule. Correspondence: "
        "real generators (link_iter, link_df_iter, find_link_iter) and complete tp.link calls interleaved by generated schedules (witness schedule first), each job compared with its solo and "
        "repeated run and replayed by the Coq monitor. The theorems' hypothesis (jobs share no state) is tied to the source by tools/audit_shared_state.py: an ast inventory of process-wide mutable state in the linking modules, compared on every run with the reviewed inventory vp/shared_state_expected.json; a new entry is a broken obligation and the schedule search continues.",
   note=LINK_NOTE + " Interleaving happens at generator yield points only (single-threaded Python); threads are not modelled.",
   technique="machine-checked proofs over an executable Gallina model + source audit of the theorem's hypothesis (regenerated per run) + correspondence run over schedules"),
 'C11': dict(
   text="Proof: Properties/C11.v - for the step-machine model, linking the movie with drift v*t added using the predictor pos + v*(t1 - t_seen) (applied to every live source, remembered ones "
        "included) equals label for label linking the undrifted movie without predictor, for any movie, velocity, frame numbering and memory; NullPredict is plain linking; labels are valid for "
        "any predictor. Correspondence: link_iter(predictor=...) on drifted lattice movies (|v| up to 1000 px/frame, numbering gaps, blank frames) replayed by the monitor both with the model's "
        "pred_drift and against the undrifted movie; NullPredict().link_df_iter; random predictors for label uniqueness. Route T: predict.py and the predictor-consuming code of the hash and of Linker.update_hash are REGENERATED from /repo's source on every run (tools/py2coq_predict.py -> coq/Gen/predict.v); that a predictor only moves the search origin is proved about the generated code.",
   note=LINK_NOTE + " The predictor is a user function wrapped by trackpy.predict.predictor; DriftPredict's own velocity estimation is not exercised.",
   technique="machine-checked proofs over an executable Gallina model + translator from Python source to Coq (regenerated per run, proved equal to the model) + correspondence run"),
 'C12': dict(
   text="Proof: Properties/C12.v - adaptive step = plain step whenever every subnet fits the adaptive limit; a subnet that fits is never split; every finally solved sub-group only contains "
        "candidate pairs within its reduced range (no longer link can be made) and is solved optimally with that range as the cost of not linking; a raise exhibits a still-oversize "
        "group at a range <= adaptive_stop and a normal return means there was none. Correspondence: link_iter(adaptive_stop, adaptive_step) with lowered MAX_SUB_NET_SIZE_ADAPTIVE on dense "
        "clusters; the Coq model re-splits oversize groups itself and the monitor decides leaf by leaf admissibility and optimal cost for the leaf's range as null cost, and raise iff the model raises. Route T: adaptive_link_wrap, split_subnet and subnet_linker_drop are REGENERATED from /repo's source on every run (tools/py2coq_adaptive.py -> coq/Gen/adaptive.v); the generated wrapper over the generated splitter is proved to be the generic adaptive recursion, the split dictionary to be the connected components, and the raise-iff / no-long-link / leaf-optimality theorems are proved for the composition; the ladder of reduced ranges actually used is observed in real runs. C12_split_recursions_equivalent / C12_generated_is_model: the generated adaptive recursion is equivalent to the model asplit for all inputs (same raise, permuted leaves, equal leaf optima). C12_generated_adaptive_recursive: the generated wrapper over the generated splitter over the generated recursive linker, with scale invariance of the search.",
   note=LINK_NOTE + " 'Raise exactly when' is proved relative to sufficient fuel (a return containing OutOfFuel is reported by the monitor as code 10, never observed). "
        "Correspondence restricted to isotropic ranges and binary-fraction steps (exact floats).",
   technique="machine-checked proofs over an executable Gallina model + translator from Python source to Coq (regenerated per run, proved equal to the model) + correspondence run"),
 'C10': dict(
   text="Proof: Properties/C10.v (2-D and 3-D, all sizes) - bandpass's result is pixel for pixel clip(thr, separable Gaussian correlation with zero border - box mean with replicated border), "
        "input shape, exact sign condition (never negative for thr >= 0), homogeneity, commutation with transposition, the llong<=lshort guard, and the kernel is the truncated normalised "
        "Gaussian with half-width floor(truncate*sigma+1/2). Correspondence: exact rational model vs trackpy.preprocessing.bandpass/lowpass/boxcar and masks.gaussian_kernel on generated float "
        "images within a stated rounding tolerance; input purity by byte comparison. Route T: bandpass, lowpass, boxcar and gaussian_kernel are REGENERATED from /repo's source on every run (tools/py2coq_preproc.py -> coq/Gen/preproc.v) and proved equal to the 2-D and 3-D models for every input; the theorems are restated for the generated bandpass.",
   note=STAT_NOTE + "exp is a table from math.exp; scipy correlate1d / uniform_filter1d semantics are modelled.",
   technique="machine-checked proofs over an executable Gallina model + translator from Python source to Coq (regenerated per run, proved equal to the model) + correspondence run"),
 'C13': dict(
   text="Proof: Properties/C13.v - for every table, range, valid old labelling and valid in-range relinking, the model of link_partial / reconnect_traj_patch returns labels unique per frame, "
        "two rows share a label exactly when joined (equivalence closure of the three join rules, same-side reading), rows outside keep their grouping, rows and places are preserved, a range "
        "with an empty frame is an ordinary instance; the monitor is sound; the pre-fix function is refuted on the F4/F5 witnesses. Correspondence: corpus (F4, F5, docstring example, empty-frame "
        "cases), random movies and a sample of the exhaustive small universe through trackpy.link_partial, model + verified monitor + independent union-find transcription. Route T: reconnect_traj_patch and link_partial are REGENERATED from /repo's source on every run (tools/py2coq_partial.py -> coq/Gen/partial.v) and proved equal to the model (set iteration order an explicit parameter); the headline theorems are restated for the generated functions.",
   note=STAT_NOTE + "The in-range linker is taken as an arbitrary per-frame-unique labelling (its own properties are C01/C02).",
   technique="machine-checked proofs over an executable Gallina model + translator from Python source to Coq (regenerated per run) + correspondence run"),
 'C15': dict(
   text="Proof: Properties/C15.v - packing: unpack(pack p) = p for parameters consistent with their modes and pack(unpack v) = v for every vector, all modes and groupings (polymorphic, unbounded); "
        "gradient: the scalar model functions are REGENERATED from /repo's source on every run (tools/py2coq_fitfun.py -> coq/Gen/fitfun.v) and each d-function is proved to be the derivative of "
        "its function (Coquelicot), plus the per-pixel chain rule, per-cluster sum rule, pack-sum adjoint, and their composition C15_gradient_exact: the assembled jacobian is the derivative of the assembled residual in every component of the packed vector, for all modes and groupings. Correspondence: vect_from_params/vect_to_params exactly on "
        "integer-valued arrays; jacobian vs central differences of the residual through FitFunctions. Also regenerated (tools/py2coq_fitpack.py -> coq/Gen/fitpack.v): vect_from_params, vect_to_params, the mode normalisation of FitFunctions.__init__ and the residual / jacobian closures, proved equal to the models; C15_gen_gradient_exact and both packing round trips restate the property for the generated functions.",
   note=STAT_NOTE + "Axioms (Print Assumptions, calculus theorems only): ClassicalDedekindReals.sig_forall_dec, sig_not_dec, Classical_Prop.classic, FunctionalExtensionality.functional_extensionality_dep "
        "(Coq standard library real numbers). The R-valued assembly model is tied to the code by the jacobian-vs-central-differences monitor; safe_exp's underflow cut is not modelled.",
   technique="translator from Python source to Coq (regenerated per run) + machine-checked derivative proofs (Coquelicot) + correspondence run"),
 'C16': dict(
   text="Proof (partial): Properties/C16.v - the bounds box is exactly the intersection of requested and default intervals; default bounds keep positions within the mask radius and "
        "signal/size/background positive; for an arbitrary optimiser a failed unit keeps its input values with cost NaN and units do not affect each other; a fit reported successful lies "
        "within all bounds under the stated SLSQP contract; the monitor is sound. Correspondence/monitor on real refine_leastsq runs (out-of-image starts, NaN parameters, absurd feasible bounds, "
        "non-convergent starts, clusters); accuracy on exact-model images is monitored only. Route T: validate_bounds / compute_bounds and their wiring in refine_leastsq are REGENERATED from /repo's source on every run (tools/py2coq_bounds.py -> coq/Gen/bounds.v) and proved equal to the bounds model; the recentring loop (max_iter, accept-and-break, exhaustion, rms test after the loop) has an exact control-flow model with the full-strength driver theorem C16_driver_full; recorded optimiser outcomes are replayed through the model. The driver loop of refine_leastsq itself (frame loop, cluster loop, try / except RefineException, the three write-back branches, compute_error) is REGENERATED (tools/py2coq_refinedriver.py -> coq/Gen/refinedriver.v) and proved equal to the control-flow model for all optimiser oracles (C16_gen_driver_full).",
   note=STAT_NOTE + "SLSQP enters as a Section variable assumed only to return a point of the box when it reports success. No theorem is possible for 'no other exception type escapes' and for the "
        "0.1 px accuracy sentence: both are monitored. Infeasible (empty) boxes and non-finite positions are argument errors outside the property.",
   technique="machine-checked proofs over an executable Gallina model + translator from Python source to Coq for the bounds assembly (regenerated per run) + correspondence run"),
 'C17': dict(
   text="Proof: Properties/C17.v - for every trajectory with distinct frames both msd paths (FFT identity with the S1 recurrence; gap path) return exactly the mean over all pairs n frames "
        "apart, indexed by lag and lag/fps, NaN iff no pair, equal under any row permutation and gap pattern; imsd per particle; emsd = sum N_i m_i / sum N_i over contributing particles; the "
        "pre-fix code is refuted on the F6/F7/F11 witnesses. Correspondence: exact rational model and monitor vs trackpy.motion.msd/imsd/emsd within a stated tolerance, NaN pattern and index exactly. Route T: msd, _msd_N, _msd_gaps, _msd_fft, imsd and emsd are REGENERATED from /repo's source on every run (tools/py2coq_msd.py -> coq/Gen/msd.v) and proved equal to the model for every table; the generated functions are executed next to the model.",
   note=STAT_NOTE + "np.fft is modelled as the exact autocorrelation.",
   technique="machine-checked proofs over an executable Gallina model + translator from Python source to Coq (regenerated per run, proved equal to the model) + correspondence run"),
 'C18': dict(
   text="Proof: Properties/C18.v - compute_drift is the running sum of the mean displacement over all same-particle pairs one frame apart, independent of row order; subtract_drift subtracts "
        "exactly that curve per frame and touches nothing else; re-measured drift is zero and a rigid common motion is removed under the property's premise; monitor sound. Correspondence: "
        "exact rational model vs trackpy on gapped/shuffled tables (2-D/3-D); caller-table immutability (data, index values and names) by comparison. Route T: compute_drift and subtract_drift are REGENERATED from /repo's source on every run (tools/py2coq_drift.py -> coq/Gen/drift.v) over named pandas primitives and proved equal to the model per position column.",
   note=STAT_NOTE + "One position column at a time (pandas applies the same column-independent pipeline to each).",
   technique="machine-checked proofs over an executable Gallina model + translator from Python source to Coq (regenerated per run, proved equal to the model) + correspondence run"),
 'C19': dict(
   text="Proof (partial): Properties/C19.v - cluster: same id iff connected by a chain of features within separation, sizes = component sizes, ids never reused across frames, monitor sound; "
        "proximity = distance to the nearest other feature; g(r) = corrected pair histogram / (density*N*dr), invariant under permutation and (given boundary) translation; 2-D edge correction: "
        "arclen_2d_bounded = r x measure of the directions inside the box, for every r > 0 and centre in the box; 3-D: consistency identities only. Correspondence: exact models vs trackpy.static on lattice point sets; arclen_2d_bounded / area_3d_bounded against "
        "independent geometric references. Route T: the seven edge-correction functions are REGENERATED from /repo's source on every run (tools/py2coq_static.py -> coq/Gen/static_geom.v) and proved equal to the models; the 2-D measure theorem is restated for the generated arclen_2d_bounded; 3-D: area_3d_bounded is the true area when only the faces of one axis are within reach (C19_area_3d_single_cap_partial). 3-D: the edge correction is also proved for adjacent faces with disjoint or overlapping caps and parallel-edge configurations (edge term = lune area), and the slice-integral identity holds in every regime; the corner term stays with the numerical reference. Since wave 6 the corner term is proved too (C19_area_3d_bounded_is_area: every regime, axis independence). Reference particles (p_indices; fraction < 1 with numpy's draw reproduced by seeding) are modelled in Model/StaticPairCorrSel.v: C19_gr_sel_is_normalised_corrected_histogram (pairs (reference particle, any particle), edge measure AT the reference particle, normalised by the number of reference particles), C19_gr_sel_all, C19_gr_sel_permutation, C19_gr_sel_translation; the correspondence run draws p_indices (with repeats) and fractions and lets the reference list follow its particles under permutation.",
   note=STAT_NOTE + "The 3-D closed forms as areas are covered numerically only. Geometry theorems depend on the Coq standard library real-number axioms "
        "(sig_forall_dec, sig_not_dec, classic, functional_extensionality_dep).",
   technique="machine-checked proofs (Coq reals / Coquelicot) + translator from Python source to Coq (regenerated per run) + correspondence run"),
 'C20': dict(
   text="Proof: Properties/C20.v - filter_stubs / filter_clusters (modelled as pandas' groupby-filter algorithm) keep exactly the rows of qualifying trajectories with order and values "
        "preserved; for ANY pipeline length of producer stages every consumer accepts the result (finite index-layout algebra; exactly five layouts reachable), and producers give the same rows "
        "as on the default-indexed table; the pinned code is refuted on exactly the eight F9 pairs. Correspondence: EXHAUSTIVE producer pipelines up to depth 3 x every consumer on real pandas "
        "tables (accept/raise, layout, numbers vs default-indexed), random tables for the filters. Route T: filter_stubs, filter_clusters, filter, pandas_sort and guess_pos_columns are REGENERATED from /repo's source on every run (tools/py2coq_filtering.py -> coq/Gen/filtering.v) over named pandas primitives and proved equal to the schema, row and data-flow models; the headline theorems are restated for the generated functions.",
   note=STAT_NOTE + "pandas' label-ambiguity rule and groupby-filter algorithm are modelled; that consumers never read the index is established by the exhaustive correspondence."),
})
CHECKS.update({
 'C06': dict(
   text="Proof: Properties/C06.v (any dimension and shape) - with precise=False the returned pixels are EXACTLY those above the percentile threshold, not exceeded within the reflected box "
        "(zeros outside) and outside the margin, no repeats; the box size is the largest k with k^2*ndim <= 4*sep^2; the 8-bit rescale of float images; with precise=True the result is a "
        "subset, pairwise separated, and every discard is justified by an at-least-as-bright candidate within separation; where_close / drop_close exact; monitors sound. Correspondence: "
        "model and monitors vs trackpy.find.grey_dilation / where_close / drop_close on integer and float images (plateaus, ties, negative pixels), 2-D/3-D, per-axis separations, margins, "
        "percentiles; exhaustive 3x3 and 2x2x2 universes in the thorough tier. Route T: percentile_threshold, grey_dilation, drop_close and where_close are REGENERATED from /repo's source on every run (tools/py2coq_find.py -> coq/Gen/find.v) and proved equal to the model; the theorems are restated for the generated functions.",
   note=STAT_NOTE + "np.percentile enters as a parameter (the harness recomputes the threshold independently with numpy); scipy's grey_dilation window/padding and cKDTree.query_pairs are modelled."),
})
CHECKS.update({
 'C07': dict(
   text="Proof: Properties/C07.v (any image size, >= 2 axes, radii, start, iteration limit, characterize on/off) - the numba-kernel model returns exactly the reference (_refine) row "
        "(position, mass, size(s), signal, raw_mass) whenever every evaluated window has non-zero mass; the reported position is the centroid of the very neighbourhood on which mass, size, "
        "signal and raw_mass were measured, also when the iteration limit stops right after a shift; that neighbourhood is the full ellipse and lies wholly inside the image (shift-and-clip "
        "invariant); zero mass separates the engines. Correspondence: exact rational models vs refine_com_arr with engine='python' and engine='numba' (interpreted) on integer images, 2-D/3-D, "
        "iso/anisotropic, iteration limits 1-20, starts far from the blob and at the clipping bounds; masses exact, positions/sizes within 2^-40 relative. Route T also for the pure-python engine and the dispatch: _refine, refine_com_arr and refine_com are REGENERATED (tools/py2coq_refine.py -> coq/Gen/refine.v) and proved equal to the reference model and to the kernel runs. C07_generated_engines_agree: the generated python and numba paths of refine_com_arr / refine_com return literally the same rows.",
   note=STAT_NOTE + "The four numba kernels are REGENERATED from /repo's source on every run (tools/py2coq_com.py -> coq/Gen/com_kernels.v, fail-closed translator, trusted) and proved equal, "
        "cell for cell, to the hand-written kernel model (C07_generated_*); the python engine (_refine) and masks.py are hand-modelled and tied by correspondence. ecc is sliced out of the translation "
        "and compared engine-vs-engine only. numba is absent: 'compiled' execution is not exercised.",
   technique="machine-checked proofs over an executable Gallina model + translator from Python source to Coq (regenerated per run, proved equal to the model) + correspondence run"),
})
CHECKS.update({
 'C08': dict(
   text="Proof: Properties/C08.v - for the model of locate's tail (de-duplication by where_close, rescale, minmass/maxsize filters, topn, ep with negative->NaN, ep attachment): every returned "
        "row has mass > minmass, size < maxsize, no two rows closer than separation, ep never negative (positive, +inf or NaN for positive noise); topn returns at most n rows, the most massive; "
        "raising minmass / lowering maxsize / setting topn only removes rows and changes no kept value, and filtering the laxer result equals the direct result (which justifies the hook-free "
        "tie); monitors sound; the pre-fix code is refuted on the F2/F3 witnesses. Correspondence: locate run unrestricted and restricted on noise textures and blob images (2-D/3-D, "
        "iso/anisotropic, preprocess on/off), rows matched bit for bit, verified monitors on every output, exact rational ep vs float ep. The composed model of locate (C06 maxima, C07 refinement, tail) is proved to return only features inside the image (C08_inside_image), and every ep column of both branches of _static_error is proved never negative. Route T: the tail of locate, _static_error / static_error / measure_noise and batch are REGENERATED from /repo's source on every run (tools/py2coq_tail.py -> coq/Gen/tail.v) and proved equal to the models.",
   note=STAT_NOTE + "'Inside the image' is monitored on outputs; its proof is C07's window invariant. Everything before the tail (bandpass, maxima, refinement) is C06/C07/C10. topn=0 (returns everything) "
        "and ep=0.0 at exactly zero measured noise are outside / at the edge of the property and only counted."),
})
CHECKS.update({
 'C09': dict(
   text="Proof (partial): Properties/C09.v - for the integer, preprocess=False pipeline (C06 maxima model + C07 refinement model, any number of axes) moving the content by whole pixels inside "
        "a blank canvas moves every row's position by exactly that offset and changes no other column (maxima, refinement and their composition; the harness' embedding satisfies the relational "
        "premises); maxima, refinement and the composed pipeline commute with any axis permutation (positions and per-axis sizes permuted, everything else identical); batch is the concatenation of locate per frame tagged with frame_no (or the position) and is independent of the completion "
        "order of Pool.imap workers; monitors sound; ecc's numerator provably differs under transposition (F13 witness). Correspondence: images x offsets x axis orders x locate parameters "
        "(incl. canvases > 1 Mpx with a ladder of dim blobs at the percentile threshold), every reported column compared; batch with 1, 2 and more processes and shuffled frame orders. The whole integer pipeline INCLUDING the tail is proved equivariant under translation and any axis permutation under a boolean no-tie hypothesis (refuted without it: the open findings are exactly ties); batch's chunked pool is proved independent of workers/chunking with the frame's own frame_no as tag. Route T for the whole locate: the head is regenerated (tools/py2coq_locatehead.py -> coq/Gen/locatehead.v) and head + Gen/find + Gen/refine + Gen/tail is proved to agree with the composed model (integer images, preprocess=False, python engine); the generated whole locate is executed next to the real one. C09_gen_locate_is_model holds for every engine; axis-order theorems are stated for the generated head; convert_to_int / invert_image / the default threshold are executed as generated functions next to the real ones.",
   note=STAT_NOTE + "Bandpass under shift, the where_close dedupe, minmass/maxsize/topn, ep, float images, refinement under transposition and real Pool workers are covered by correspondence only. "
        "Open known findings (printed as KNOWN-FINDING, exit 0): F13 ecc under transposition; F15/F17 exact mass-and-coordinate-sum ties in where_close under transposition / translation."),
})
CHECKS.update({
 'C14': dict(
   text="Proof: Properties/C14.v (safety half for the code as it is; completeness half for the model under explicit boolean hypotheses) - for the model of FindLinker as the code is now (get_relocate_candidates step by step, relocate, merge_lost_subnets, assign_links): one "
        "step keeps the linker state valid, labels unique, and every added feature lies within search_range of a live source, for ANY relocation oracle; no relocation candidate is closer "
        "than separation to a point the frame already holds (masking argument; the fixed bg_radius provably covers it); candidates are within range of a searched position, pairwise "
        "separated, outside the margin with finite mass >= minmass; the image search is an admissible oracle; by induction over frames (with memory) every output frame satisfies the safety "
        "clauses; monitor sound; the pre-fix bg_radius (F12) and edge test (F16) are refuted on witnesses. Correspondence: get_relocate_candidates driven directly and compared as a set with "
        "masses and ordering; find_link on blob movies and noise textures checked by the monitor. Completeness half proved for the model (C14_movie_complete, C14_equals_detect_then_link) under boolean hypotheses evaluated in Coq on every generated movie. Route T: FindLinker.percentile_threshold / get_relocate_candidates / relocate are REGENERATED from /repo's source on every run (tools/py2coq_findlink.py -> coq/Gen/findlink.v) and proved to be the model's relocation oracle; the safety theorems are restated for it. Also regenerated (tools/py2coq_findstep.py -> coq/Gen/findstep.v): FindLinker.__init__ / next_level / assign_links, the lost-feature methods of Subnets and find_link_iter; the code's step is modelled as it is (claimed-only, its own grouping) and the safety theorems are restated end to end for the generated driver. The completeness half is proved for the generated driver as well (C14 completeness for Gen/findstep).",
   note=STAT_NOTE + "The completeness half is proved for the MODEL under an oracle hypothesis (the image search returns exactly the unknown blobs in range) that is tested, not proved, for the real "
        "image search on blob images. Isotropic parameters, integer pixel coordinates, no predictor; assign_links / next_level and the lost-feature methods of Subnets are tied only through the "
        "monitor and the correspondence runs.",
   technique="machine-checked proofs over an executable Gallina model + translator from Python source to Coq (regenerated per run, proved equal to the model) + correspondence run"),
})