#!/usr/bin/env python3
"""Fail-closed translator (route T) for the adaptive search and the remaining linking glue (C12 / C03).

Reads, with the Python `ast` module, the CURRENT source text of

    adaptive_link_wrap     $TRACKPY_REPO/trackpy/linking/linking.py
    split_subnet           $TRACKPY_REPO/trackpy/linking/subnet.py
    subnet_linker_drop     $TRACKPY_REPO/trackpy/linking/subnetlinker.py

(default repo /repo) and regenerates  /verif/coq/Gen/adaptive.v :

    py_subnet_linker_drop    link_strategy='drop'
    py_split_subnet          fresh dictionary, pruning of forward_cands, assign_subnet calls; the callee
                             assign_subnet is a section variable (instantiated in the proofs with the model
                             Model/SubnetMerge.assign_subnet, which Gen/linker_core.py_assign_subnet equals)
    py_adaptive_link_wrap    try / except SubnetOversizeException, give-up test, new_range, recursion over the
                             parts; the callees subnet_linker and split_subnet are section variables

The embedding is shallow and state passing; vocabulary and its meaning: coq/Model/PyAdaptive.v.  A statement is a
term of type `outcome frame R` (Normal / Break / Continue / Return / Raise); `s1; s2` is `bind s1 (fun st => s2)`
(a Coq `let st := ... in` when s1 cannot fail or jump; the continuation is put inside the `Done` branch after a
call); loops are `for_each`; `try: b except E: h` is `try_except b E (fun st exc => h)`.  The numbered comments of
the generated text are the Python statements.

Translated subset (ANYTHING else: exit status 2, nothing written).
  statements   x = e (a new immutable local: a Coq let; re-assignment is refused) ; m = e / m.append(e) /
               m.extend(e) for the mutable locals of table FUNCS (fields of the frame; reading one before it
               is definitely assigned is refused) ; a, b = f(...) for the callees of table FUNCS ;
               subnets = dict() ; subnets[i] = set(), {dp} ; p.subnet = i ; p.subnet = None ;
               sp.forward_cands = m ; assign_subnet(sp, dp, subnets=subnets) ; if / elif / else ;
               `if X is None: <block ending in raise>` (X is known not to be None afterwards) ;
               for over: enumerate(<set>), a set, sp.forward_cands, a mutable candidate list, the value of a
               call ; break ; return e1, e2 ; return (subnets[key] for key in subnets) ;
               raise E(...) ; bare raise inside an except block ; try / except <one class> ; docstrings, pass.
  expressions  names, non-negative int literals compared / typed as nat, None (as a point), len(), ==, >, <, >=,
               <= on nat, <= and * on ranges (n_le, n_mul), dist <= range (n_dist_le), and / or / not,
               [None], [s.pop()], [x for x in s], [None] * len(s), + on lists, (dp, dist), s.pop().
  types        arguments: table FUNCS (a changed argument list is an error); **kwargs is opaque.

Usage:  py2coq_adaptive.py [--repo /repo] [--out /verif/coq/Gen/adaptive.v] [--stdout]
"""
import ast, sys, os, argparse

sys.path.insert(0, os.path.dirname(os.path.abspath(__file__)))
try:                                   # shared helpers (comment rendering, lookup of definitions)
    from py2coq_linker import TranslationError, comment, is_none_const, find_function
except Exception:                      # the other translator is being edited concurrently: stay self-contained
    class TranslationError(Exception):
        pass

    def comment(s):
        try:
            t = ast.unparse(s).split('\n')[0]
        except Exception:
            t = type(s).__name__
        t = t.replace('(*', '( *').replace('*)', '* )').replace('"', "'")
        if len(t) > 110:
            t = t[:107] + '...'
        return '(* %d: %s *)' % (getattr(s, 'lineno', 0), t)

    def is_none_const(e):
        return isinstance(e, ast.Constant) and e.value is None

    def find_function(tree, name):
        hits = [n for n in tree.body if isinstance(n, ast.FunctionDef) and n.name == name]
        if len(hits) != 1:
            raise TranslationError('%s: expected exactly one top-level definition, found %d' % (name, len(hits)))
        return hits[0]


def fail(node, msg):
    raise TranslationError('line %s: %s' % (getattr(node, 'lineno', '?'), msg))


# ---- types -----------------------------------------------------------------
NUM, OPTNUM, NAT, BOOL = 'num', 'option num', 'nat', 'bool'
PSET, LOPT, LCAND, CAND = 'set of points', 'list of points or None', 'list cand', 'cand'
SPT, DPT, OPTPT, DIST = 'source point', 'dest point', 'point or None', 'dist'
SETS, LSETS, PAIRS, KW, FN, DICT, IGN = 'subnet', 'list of subnets', 'pairs', 'kwargs', 'callee', 'dict', 'ignored'
COQTY = {NUM: 'num', OPTNUM: 'option num', NAT: 'nat', PSET: 'list nat', KW: 'kw'}
EXNS = ['KeyError', 'ValueError', 'AttributeError', 'TypeError', 'SubnetOversizeException']

FUNCS = {
    'subnet_linker_drop': dict(
        frame='drop', heap='d_heap', mut={}, ret=PAIRS, kwargs=None,
        args=[('source_set', PSET), ('dest_set', PSET), ('search_range', NUM), ('max_size', NAT)], defaults=1),
    'split_subnet': dict(
        frame='split', heap='s_heap', mut={'new_fcs': LCAND}, ret=LSETS, kwargs=False,
        args=[('source', PSET), ('dest', PSET), ('new_range', NUM)], defaults=0),
    'adaptive_link_wrap': dict(
        frame='wrap', heap='w_heap', mut={'sn_spl': LOPT, 'sn_dpl': LOPT}, ret=PAIRS, kwargs='kwargs',
        args=[('source_set', PSET), ('dest_set', PSET), ('search_range', NUM), ('subnet_linker', FN),
              ('adaptive_stop', OPTNUM), ('adaptive_step', NUM)], defaults=2),
}
RESERVED = set('''st it fuel fuel' bind for_each fn_end try_except Normal Break Continue Return Raise Done Fail MDone MFail fst snd
 Some None true false if then else match with end let in fun fix forall exists nat Z list option length negb andb orb num ops kw
 heap exc h r e m obs pairs sets cand opts nones enumerate set_pop list_append list_extend forward_cands set_forward_cands
 dict_new dict_set dict_values set_subnet_dst clear_subnet_src singleton_dst n_mul n_le n_dist_le assign_subnet split_subnet
 subnet_linker py_subnet_linker_drop py_split_subnet py_adaptive_link_wrap'''.split())


class Fn:
    def __init__(self, node, name):
        self.f, self.name, self.cfg = node, name, FUNCS[name]
        self.heap = self.cfg['heap']
        self.n = 0
        self.used = set()
        self.in_handler = 0
        self.loops = 0

    def fresh(self, base):
        self.n += 1
        return '%s%d' % (base, self.n)

    def H(self):
        return '(%s st)' % self.heap

    def seth(self, h):
        return 'set_%s st %s' % (self.heap, h)

    def newlocal(self, node, name, env):
        if name in env or name in self.cfg['mut']:
            fail(node, 'local %s is assigned twice (re-assignment of an immutable local is outside the subset)' % name)
        if name in RESERVED or not name.isidentifier() or name.startswith('_'):
            fail(node, 'local name %s cannot be used' % name)
        return name

    # ---- expressions: (coq term, type); partial operations are added to guards g = [(option term, exn, var)]
    def expr(self, e, env, asg, g, expect=None):
        if isinstance(e, ast.Constant):
            v = e.value
            if v is None:
                return 'None', OPTPT
            if isinstance(v, bool) or not isinstance(v, int) or v < 0:
                fail(e, 'unsupported constant %r' % (v,))
            if expect == NAT:
                return '%d%%nat' % v, NAT
            fail(e, 'integer literal whose type cannot be determined')
        if isinstance(e, ast.Name):
            if e.id in self.cfg['mut']:
                if e.id not in asg:
                    fail(e, 'local %s may be read before it is assigned' % e.id)
                return '(%s st)' % e.id, self.cfg['mut'][e.id]
            if e.id not in env:
                fail(e, 'unknown name %s' % e.id)
            c, t = env[e.id]
            if t in (IGN, FN, DICT, DIST):
                fail(e, '%s (%s) may not be used as a value here' % (e.id, t))
            return c, t
        if isinstance(e, ast.Attribute):
            c, t = self.expr(e.value, env, asg, g)
            if t == SPT and e.attr == 'forward_cands':
                return '(forward_cands %s %s)' % (self.H(), c), LCAND
            fail(e, 'unsupported attribute .%s of a %s' % (e.attr, t))
        if isinstance(e, ast.Call):
            if isinstance(e.func, ast.Name) and e.func.id == 'len' and len(e.args) == 1 and not e.keywords:
                c, t = self.expr(e.args[0], env, asg, g)
                if t not in (PSET, LOPT, LCAND):
                    fail(e, 'len of a %s' % t)
                return '(length %s)' % c, NAT
            if isinstance(e.func, ast.Attribute) and e.func.attr == 'pop' and not e.args and not e.keywords:
                c, t = self.expr(e.func.value, env, asg, g)
                if t != PSET or g is None:
                    fail(e, 'unsupported pop()')
                v = self.fresh('x')
                g.append(('set_pop %s' % c, 'KeyError', v))
                return v, 'point'
            fail(e, 'unsupported call in an expression')
        if isinstance(e, ast.List):
            if len(e.elts) != 1:
                fail(e, 'unsupported list display')
            c, t = self.expr(e.elts[0], env, asg, g)
            if t == OPTPT and c == 'None':
                return '[None]', LOPT
            if t == 'point':
                return '[Some %s]' % c, LOPT
            fail(e, 'unsupported list display of a %s' % t)
        if isinstance(e, ast.ListComp):
            if len(e.generators) == 1:
                ge = e.generators[0]
                if not ge.ifs and not ge.is_async and isinstance(ge.target, ast.Name) and isinstance(e.elt, ast.Name) \
                        and e.elt.id == ge.target.id:
                    c, t = self.expr(ge.iter, env, asg, g)
                    if t == PSET:
                        return '(opts %s)' % c, LOPT
            fail(e, 'unsupported list comprehension (only [x for x in <set>])')
        if isinstance(e, ast.BinOp):
            if isinstance(e.op, ast.Mult):
                if isinstance(e.left, ast.List):
                    l, tl = self.expr(e.left, env, asg, g)
                    r, tr = self.expr(e.right, env, asg, g, NAT)
                    if l == '[None]' and tr == NAT:
                        return '(nones %s)' % r, LOPT
                    fail(e, 'unsupported list repetition')
                l, tl = self.expr(e.left, env, asg, g)
                r, tr = self.expr(e.right, env, asg, g)
                if (tl, tr) == (NUM, NUM):
                    return '(n_mul ops %s %s)' % (l, r), NUM
                fail(e, 'unsupported product of %s and %s' % (tl, tr))
            if isinstance(e.op, ast.Add):
                l, tl = self.expr(e.left, env, asg, g)
                r, tr = self.expr(e.right, env, asg, g)
                if (tl, tr) == (LOPT, LOPT):
                    return '(%s ++ %s)' % (l, r), LOPT
                fail(e, 'unsupported + between %s and %s' % (tl, tr))
            fail(e, 'unsupported binary operator %s' % type(e.op).__name__)
        if isinstance(e, ast.UnaryOp) and isinstance(e.op, ast.Not):
            c, t = self.expr(e.operand, env, asg, None)
            if t != BOOL:
                fail(e, 'not on a %s' % t)
            return '(negb %s)' % c, BOOL
        if isinstance(e, ast.BoolOp):
            cs = []
            for v in e.values:
                c, t = self.expr(v, env, asg, None)
                if t != BOOL:
                    fail(e, 'boolean operator on a %s' % t)
                cs.append(c)
            op = 'andb' if isinstance(e.op, ast.And) else 'orb'
            out = cs[-1]
            for c in reversed(cs[:-1]):
                out = '(%s %s %s)' % (op, c, out)
            return out, BOOL
        if isinstance(e, ast.Compare):
            if len(e.ops) != 1:
                fail(e, 'chained comparison')
            op, lhs, rhs = e.ops[0], e.left, e.comparators[0]
            if isinstance(lhs, ast.Name) and lhs.id in env and env[lhs.id][1] == DIST:
                r, tr = self.expr(rhs, env, asg, None)
                if tr == NUM and isinstance(op, ast.LtE):
                    return '(n_dist_le ops %s %s)' % (env[lhs.id][0], r), BOOL
                fail(e, 'a candidate distance may only be used as dist <= <range>')
            if isinstance(lhs, ast.Constant):
                r, tr = self.expr(rhs, env, asg, None)
                l, tl = self.expr(lhs, env, asg, None, tr)
            else:
                l, tl = self.expr(lhs, env, asg, None)
                r, tr = self.expr(rhs, env, asg, None, tl)
            if (tl, tr) == (NAT, NAT):
                tab = {ast.Lt: '(Nat.ltb %s %s)' % (l, r), ast.Gt: '(Nat.ltb %s %s)' % (r, l), ast.LtE: '(Nat.leb %s %s)' % (l, r),
                       ast.GtE: '(Nat.leb %s %s)' % (r, l), ast.Eq: '(Nat.eqb %s %s)' % (l, r), ast.NotEq: '(negb (Nat.eqb %s %s))' % (l, r)}
                for k, s in tab.items():
                    if isinstance(op, k):
                        return s, BOOL
                fail(e, 'unsupported comparison')
            if (tl, tr) == (NUM, NUM) and isinstance(op, ast.LtE):
                return '(n_le ops %s %s)' % (l, r), BOOL
            fail(e, 'unsupported comparison between %s and %s' % (tl, tr))
        if isinstance(e, ast.Tuple) and len(e.elts) == 2 and all(isinstance(x, ast.Name) for x in e.elts) \
                and all(x.id in env for x in e.elts) and env[e.elts[0].id][1] == OPTPT and env[e.elts[1].id][1] == DIST:
            return '(%s, %s)' % (env[e.elts[0].id][0], env[e.elts[1].id][0]), CAND
        fail(e, 'unsupported expression %s' % type(e).__name__)

    @staticmethod
    def wrap(g, inner, ind, st='st'):
        for opt, exn, var in reversed(g):
            inner = 'match %s with None => Raise %s %s | Some %s =>\n%s%s\n%send' % (opt, st, exn, var, ind, inner, ind)
        return inner

    # ---- blocks: returns (code, asg_out) ; asg_out None = the block cannot complete normally
    def block(self, stmts, env, asg, ind):
        if not stmts:
            return 'Normal st', asg
        s, rest = stmts[0], stmts[1:]
        env = dict(env)
        code, out = self.stmt(s, rest, env, asg, ind)
        return comment(s) + '\n' + ind + code, out

    def cont(self, rest, env, asg, ind):
        """the rest of the block after a statement that completed normally in state st"""
        return self.block(rest, env, asg, ind)

    def pure(self, newst, rest, env, asg, ind):
        if not rest:
            return 'Normal (%s)' % newst, asg
        c, out = self.block(rest, env, asg, ind)
        return 'let st := %s in\n%s%s' % (newst, ind, c), out

    def gen(self, oc, oc_out, rest, env, ind):
        """statement with outcome oc (may jump); oc_out = assigned set when it completes normally (None: never)"""
        if oc_out is None:
            if rest:
                fail(rest[0], 'unreachable statement')
            return oc, None
        if not rest:
            return oc, oc_out
        c, out = self.block(rest, env, oc_out, ind)
        return 'bind (%s) (fun st =>\n%s%s)' % (oc, ind, c), out

    def sub(self, stmts, env, asg, ind, loop=False):
        self.loops += 1 if loop else 0
        r = self.block(stmts, dict(env), asg, ind)
        self.loops -= 1 if loop else 0
        return r

    @staticmethod
    def meet(a, b):
        if a is None:
            return b
        if b is None:
            return a
        return a & b

    def call_args(self, call, sig, env, asg, g):
        """positional arguments of a call to one of the callees, checked against sig = list of types"""
        if len(call.args) != len(sig):
            fail(call, 'expected %d positional arguments' % len(sig))
        out = []
        for a, t in zip(call.args, sig):
            if t == FN:
                if not (isinstance(a, ast.Name) and a.id in env and env[a.id][1] == FN):
                    fail(a, 'the callee must be passed on unchanged')
                continue
            c, ta = self.expr(a, env, asg, g)
            if ta == NUM and t == OPTNUM:
                c = '(Some %s)' % c
            elif ta != t:
                fail(a, 'argument of type %s where %s is expected' % (ta, t))
            out.append(c)
        return out

    def value_call(self, call, env, asg, g):
        """a call whose value is used: returns (coq application without the heap, result type)"""
        if not isinstance(call.func, ast.Name):
            fail(call, 'unsupported call')
        fn = call.func.id
        kws = call.keywords
        starkw = [k for k in kws if k.arg is None]
        if [k for k in kws if k.arg is not None]:
            fail(call, 'unsupported keyword arguments')
        if fn in env and env[fn][1] == FN and fn == 'subnet_linker' and self.name == 'adaptive_link_wrap':
            a = self.call_args(call, [PSET, PSET, NUM], env, asg, g)
            self.need_kwargs(call, starkw, env)
            return 'subnet_linker', a + ['kwargs'], PAIRS
        if fn == 'split_subnet' and self.name == 'adaptive_link_wrap':
            if starkw:
                fail(call, 'unexpected **kwargs')
            return 'split_subnet', self.call_args(call, [PSET, PSET, NUM], env, asg, g), LSETS
        if fn == 'adaptive_link_wrap' and self.name == 'adaptive_link_wrap':
            a = self.call_args(call, [PSET, PSET, NUM, FN, OPTNUM, NUM], env, asg, g)
            self.need_kwargs(call, starkw, env)
            return "py_adaptive_link_wrap fuel'", a + ['kwargs'], PAIRS
        fail(call, 'call of %s is outside the subset' % fn)

    def need_kwargs(self, call, starkw, env):
        if not (len(starkw) == 1 and isinstance(starkw[0].value, ast.Name) and starkw[0].value.id in env
                and env[starkw[0].value.id][1] == KW):
            fail(call, 'the keyword arguments must be passed on as **kwargs')

    def do_call(self, node, fn, args, bindres, rest, env, asg, ind, loopbody=None):
        """match f heap args with Fail -> Raise | Done -> bind results, continue"""
        h, e, r = self.fresh('h'), self.fresh('e'), self.fresh('r')
        i2 = ind + '  '
        lets, asg2 = bindres(r, asg)
        if loopbody is not None:
            inner, out = loopbody(r, asg2, i2)
        else:
            inner, out = (('Normal st', asg2) if not rest else self.block(rest, env, asg2, i2))
        code = ('match %s %s %s with\n%s| Fail %s %s => Raise (set_%s st %s) %s\n%s| Done %s %s =>\n%slet st := set_%s st %s in\n%s%s%s\n%send'
                % (fn, self.H(), ' '.join(args), ind, h, e, self.heap, h, e, ind, h, r, i2, self.heap, h, i2, lets, inner, ind))
        return code, out

    def stmt(self, s, rest, env, asg, ind):
        i2 = ind + '  '
        g = []
        if isinstance(s, ast.Expr) and isinstance(s.value, ast.Constant) and isinstance(s.value.value, str):
            return self.block(rest, env, asg, ind)
        if isinstance(s, ast.Pass):
            return self.block(rest, env, asg, ind)
        if isinstance(s, ast.Break):
            if not self.loops or rest:
                fail(s, 'break outside a loop / statement after break')
            return 'Break st', None
        if isinstance(s, ast.Return):
            if rest:
                fail(rest[0], 'statement after return')
            v = s.value
            if isinstance(v, ast.Tuple) and len(v.elts) == 2 and self.cfg['ret'] == PAIRS:
                a, ta = self.expr(v.elts[0], env, asg, g)
                b, tb = self.expr(v.elts[1], env, asg, g)
                if (ta, tb) != (LOPT, LOPT):
                    fail(s, 'return of (%s, %s)' % (ta, tb))
                return self.wrap(g, 'Return st (%s, %s)' % (a, b), ind), None
            if isinstance(v, ast.GeneratorExp) and self.cfg['ret'] == LSETS and len(v.generators) == 1:
                ge = v.generators[0]
                if not ge.ifs and not ge.is_async and isinstance(ge.target, ast.Name) and isinstance(ge.iter, ast.Name) \
                        and ge.iter.id in env and env[ge.iter.id][1] == DICT and isinstance(v.elt, ast.Subscript) \
                        and isinstance(v.elt.value, ast.Name) and v.elt.value.id == ge.iter.id \
                        and isinstance(v.elt.slice, ast.Name) and v.elt.slice.id == ge.target.id:
                    return 'Return st (dict_values %s)' % self.H(), None
            fail(s, 'unsupported return value')
        if isinstance(s, ast.Raise):
            if rest:
                fail(rest[0], 'statement after raise')
            if s.exc is None and s.cause is None:
                if not self.in_handler:
                    fail(s, 'bare raise outside an except block')
                return 'Raise st exc', None
            if s.cause is not None or not (isinstance(s.exc, ast.Call) and isinstance(s.exc.func, ast.Name) and s.exc.func.id in EXNS
                                           and not s.exc.keywords):
                fail(s, 'unsupported raise')
            for a in s.exc.args:
                if isinstance(a, ast.Constant) and isinstance(a.value, str):
                    continue
                if isinstance(a, ast.BinOp) and isinstance(a.op, ast.Mod) and isinstance(a.left, ast.Constant) and isinstance(a.left.value, str):
                    self.expr(a.right, env, asg, None)
                    continue
                fail(a, 'unsupported exception argument')
            return 'Raise st %s' % s.exc.func.id, None
        if isinstance(s, ast.Assign):
            if len(s.targets) != 1:
                fail(s, 'multiple assignment targets')
            t, v = s.targets[0], s.value
            # a, b = f(...)
            if isinstance(t, ast.Tuple) and len(t.elts) == 2 and all(isinstance(x, ast.Name) for x in t.elts) and isinstance(v, ast.Call):
                fn, args, rt = self.value_call(v, env, asg, g)
                if rt != PAIRS or g:
                    fail(s, 'unsupported unpacking')
                n1, n2 = t.elts[0].id, t.elts[1].id
                mut = self.cfg['mut']
                if n1 in mut and n2 in mut and n1 != n2:
                    def bindres(r, a):
                        return 'let st := set_%s st (fst %s) in\n%slet st := set_%s st (snd %s) in\n%s' % (n1, r, i2, n2, r, i2), a | {n1, n2}
                elif n1 not in mut and n2 not in mut and n1 != n2:
                    c1, c2 = self.newlocal(t.elts[0], n1, env), self.newlocal(t.elts[1], n2, env)
                    env[n1], env[n2] = (c1, LOPT), (c2, LOPT)

                    def bindres(r, a):
                        return 'let %s := fst %s in\n%slet %s := snd %s in\n%s' % (c1, r, i2, c2, r, i2), a
                else:
                    fail(s, 'unsupported unpacking targets')
                return self.do_call(s, fn, args, bindres, rest, env, asg, ind)
            # subnets[i] = set(), {dp}
            if isinstance(t, ast.Subscript) and isinstance(t.value, ast.Name) and t.value.id in env and env[t.value.id][1] == DICT:
                k, tk = self.expr(t.slice, env, asg, None)
                ok = (tk == NAT and isinstance(v, ast.Tuple) and len(v.elts) == 2 and isinstance(v.elts[0], ast.Call)
                      and isinstance(v.elts[0].func, ast.Name) and v.elts[0].func.id == 'set' and not v.elts[0].args and not v.elts[0].keywords
                      and isinstance(v.elts[1], ast.Set) and len(v.elts[1].elts) == 1)
                if not ok:
                    fail(s, 'unsupported dictionary store (only subnets[i] = set(), {dp})')
                d, td = self.expr(v.elts[1].elts[0], env, asg, None)
                if td != DPT:
                    fail(s, 'the new subnet must hold a destination point')
                return self.pure(self.seth('(dict_set %s %s (singleton_dst %s))' % (self.H(), k, d)), rest, env, asg, ind)
            if isinstance(t, ast.Attribute) and isinstance(t.value, ast.Name) and t.value.id in env:
                p, tp = env[t.value.id]
                if t.attr == 'subnet' and tp == DPT:
                    c, tc = self.expr(v, env, asg, None)
                    if tc != NAT:
                        fail(s, 'storing a %s into dest.subnet' % tc)
                    return self.pure(self.seth('(set_subnet_dst %s %s %s)' % (self.H(), p, c)), rest, env, asg, ind)
                if t.attr == 'subnet' and tp == SPT and is_none_const(v):
                    return self.pure(self.seth('(clear_subnet_src %s %s)' % (self.H(), p)), rest, env, asg, ind)
                if t.attr == 'forward_cands' and tp == SPT:
                    c, tc = self.expr(v, env, asg, None)
                    if tc != LCAND:
                        fail(s, 'storing a %s into forward_cands' % tc)
                    return self.pure(self.seth('(set_forward_cands %s %s %s)' % (self.H(), p, c)), rest, env, asg, ind)
                fail(s, 'unsupported attribute store')
            if isinstance(t, ast.Name):
                if t.id in self.cfg['mut']:
                    if not (isinstance(v, ast.List) and not v.elts):
                        fail(s, 'a mutable local may only be (re)initialised with []')
                    return self.pure('set_%s st []' % t.id, rest, env, asg | {t.id}, ind)
                if isinstance(v, ast.Call) and isinstance(v.func, ast.Name) and v.func.id == 'dict' and not v.args and not v.keywords \
                        and t.id == 'subnets' and self.name == 'split_subnet' and t.id not in env:
                    env[t.id] = ('subnets', DICT)
                    return self.pure(self.seth('(dict_new %s)' % self.H()), rest, env, asg, ind)
                c, ty = self.expr(v, env, asg, g)
                if ty not in (NUM, NAT, BOOL) or g:
                    fail(s, 'a local may not hold a %s' % ty)
                nm = self.newlocal(t, t.id, env)
                env[t.id] = (nm, ty)
                c2, out = self.block(rest, env, asg, ind)
                return 'let %s := %s in\n%s%s' % (nm, c, ind, c2), out
            fail(s, 'unsupported assignment target')
        if isinstance(s, ast.If):
            # if X is None: <terminating block>   -> X refined for the rest of the block
            tst = s.test
            if isinstance(tst, ast.Compare) and len(tst.ops) == 1 and isinstance(tst.ops[0], ast.Is) and is_none_const(tst.comparators[0]) \
                    and isinstance(tst.left, ast.Name) and tst.left.id in env and env[tst.left.id][1] == OPTNUM:
                if s.orelse:
                    fail(s, '`if X is None` with an else branch')
                x = tst.left.id
                a, aout = self.sub(s.body, env, asg, i2)
                if aout is not None:
                    fail(s, '`if X is None:` must end in raise / return')
                v = x + '_v'
                if v in env or v in RESERVED:
                    fail(s, 'name clash')
                env2 = dict(env)
                env2[x] = (v, NUM)
                b, bout = self.block(rest, env2, asg, i2) if rest else ('Normal st', asg)
                return 'match %s with\n%s| None =>\n%s%s\n%s| Some %s =>\n%s%s\n%send' % (env[x][0], ind, i2, a, ind, v, i2, b, ind), bout
            c, ty = self.expr(tst, env, asg, None)
            if ty != BOOL:
                fail(s, 'condition of type %s' % ty)
            a, aout = self.sub(s.body, env, asg, i2)
            b, bout = self.sub(s.orelse, env, asg, i2)
            oc = 'if %s\n%sthen\n%s%s\n%selse\n%s%s' % (c, ind, i2, a, ind, i2, b)
            return self.gen(oc, self.meet(aout, bout), rest, env, ind)
        if isinstance(s, ast.Try):
            if s.orelse or s.finalbody or len(s.handlers) != 1:
                fail(s, 'unsupported try statement')
            hd = s.handlers[0]
            if hd.name is not None or not (isinstance(hd.type, ast.Name) and hd.type.id in EXNS):
                fail(s, 'unsupported except clause')
            a, aout = self.sub(s.body, env, asg, i2)
            self.in_handler += 1
            b, bout = self.sub(hd.body, env, asg, i2)        # state of the frame at the raise: locals assigned so far only
            self.in_handler -= 1
            oc = 'try_except (\n%s%s)\n%s%s (fun st exc =>\n%s%s)' % (i2, a, ind, hd.type.id, i2, b)
            return self.gen(oc, self.meet(aout, bout), rest, env, ind)
        if isinstance(s, ast.For):
            if s.orelse:
                fail(s, 'for ... else')
            it, tg = s.iter, s.target

            def names(k):
                if not (isinstance(tg, ast.Tuple) and len(tg.elts) == k and all(isinstance(x, ast.Name) for x in tg.elts)
                        and len({x.id for x in tg.elts}) == k):
                    fail(s, 'unsupported loop target')
                return [self.newlocal(x, x.id, env) for x in tg.elts]

            def loop(binds, body_env, lst, asg_in, ind_, tail=True):
                i3 = ind_ + '  '
                body, _ = self.sub(s.body, body_env, asg_in, i3, loop=True)
                return 'for_each (fun it st =>\n%s%s\n%s%s)\n%s%s st' % (i3, binds, i3, body, ind_, lst)

            # for a, b in <call>
            if isinstance(it, ast.Call) and isinstance(it.func, ast.Name) and it.func.id not in ('enumerate',):
                fn, args, rt = self.value_call(it, env, asg, g)
                if rt != LSETS or g:
                    fail(s, 'unsupported loop over a call')
                n1, n2 = names(2)
                benv = dict(env)
                benv[n1], benv[n2] = (n1, PSET), (n2, PSET)

                def loopbody(r, a, ind_):
                    oc = loop('let %s := fst it in let %s := snd it in' % (n1, n2), benv, r, a, ind_)
                    if not rest:
                        return oc, a
                    c2, out = self.block(rest, env, a, ind_)
                    return 'bind (%s) (fun st =>\n%s%s)' % (oc, ind_, c2), out
                return self.do_call(s, fn, args, lambda r, a: ('', a), rest, env, asg, ind, loopbody=loopbody)
            # for i, dp in enumerate(dest)
            if isinstance(it, ast.Call) and isinstance(it.func, ast.Name) and it.func.id == 'enumerate' and len(it.args) == 1 and not it.keywords:
                c, ty = self.expr(it.args[0], env, asg, None)
                if ty != PSET or not (isinstance(it.args[0], ast.Name) and it.args[0].id == 'dest'):
                    fail(s, 'enumerate over something else than the destination set')
                n1, n2 = names(2)
                benv = dict(env)
                benv[n1], benv[n2] = (n1, NAT), (n2, DPT)
                oc = loop('let %s := fst it in let %s := snd it in' % (n1, n2), benv, '(enumerate %s)' % c, asg, ind)
                return self.gen(oc, asg, rest, env, ind)
            c, ty = self.expr(it, env, asg, None)
            if ty == PSET and isinstance(it, ast.Name) and it.id == 'source':
                if not isinstance(tg, ast.Name):
                    fail(s, 'unsupported loop target')
                n1 = self.newlocal(tg, tg.id, env)
                benv = dict(env)
                benv[n1] = (n1, SPT)
                oc = loop('let %s := it in' % n1, benv, c, asg, ind)
                return self.gen(oc, asg, rest, env, ind)
            if ty == LCAND:
                n1, n2 = names(2)
                benv = dict(env)
                benv[n1], benv[n2] = (n1, OPTPT), (n2 + '_sq', DIST)
                oc = loop('let %s := fst it in let %s_sq := snd it in' % (n1, n2), benv, c, asg, ind)
                return self.gen(oc, asg, rest, env, ind)
            fail(s, 'unsupported loop over a %s' % ty)
        if isinstance(s, ast.Expr) and isinstance(s.value, ast.Call):
            call = s.value
            f = call.func
            # m.append(e) / m.extend(e)
            if isinstance(f, ast.Attribute) and isinstance(f.value, ast.Name) and f.value.id in self.cfg['mut'] and len(call.args) == 1 and not call.keywords:
                m, tm = f.value.id, self.cfg['mut'][f.value.id]
                if m not in asg:
                    fail(s, 'local %s may be used before it is assigned' % m)
                c, tc = self.expr(call.args[0], env, asg, None)
                if f.attr == 'append' and (tm, tc) == (LCAND, CAND):
                    return self.pure('set_%s st (list_append (%s st) %s)' % (m, m, c), rest, env, asg, ind)
                if f.attr == 'extend' and tm == tc == LOPT:
                    return self.pure('set_%s st (list_extend (%s st) %s)' % (m, m, c), rest, env, asg, ind)
                fail(s, 'unsupported method .%s' % f.attr)
            # assign_subnet(sp, dp, subnets=subnets)
            if isinstance(f, ast.Name) and f.id == 'assign_subnet' and self.name == 'split_subnet' and len(call.args) == 2 \
                    and len(call.keywords) == 1 and call.keywords[0].arg == 'subnets' and isinstance(call.keywords[0].value, ast.Name) \
                    and call.keywords[0].value.id in env and env[call.keywords[0].value.id][1] == DICT:
                a, ta = self.expr(call.args[0], env, asg, None)
                b, tb = self.expr(call.args[1], env, asg, None)
                if ta != SPT or tb not in (OPTPT, DPT):
                    fail(s, 'assign_subnet(%s, %s)' % (ta, tb))
                e, m = self.fresh('e'), self.fresh('m')
                if tb == OPTPT:
                    v = b + '_v'
                    g.append((b, 'AttributeError', v))           # None has no attribute .subnet
                    b = v
                newst = self.seth('(set_h_sn %s %s)' % (self.H(), m))
                inner, out = self.pure(newst, rest, env, asg, i2)
                code = 'match assign_subnet (h_sn %s) %s %s with\n%s| MFail %s => Raise st %s\n%s| MDone %s =>\n%s%s\n%send' % (
                    self.H(), a, b, ind, e, e, ind, m, i2, inner, ind)
                return self.wrap(g, code, ind), out
            fail(s, 'unsupported call statement')
        fail(s, 'unsupported statement %s' % type(s).__name__)

    # ---- whole function
    def translate(self):
        a = self.f.args
        cfg = self.cfg
        if a.vararg or a.kwonlyargs or getattr(a, 'posonlyargs', []) or self.f.decorator_list:
            fail(self.f, 'unsupported signature')
        names = [x.arg for x in a.args]
        if names != [n for n, _ in cfg['args']]:
            fail(self.f, '%s: expected arguments (%s), found (%s)' % (self.name, ', '.join(n for n, _ in cfg['args']), ', '.join(names)))
        if len(a.defaults) != cfg['defaults']:
            fail(self.f, '%s: number of default values changed' % self.name)
        if cfg['kwargs'] is False and a.kwarg is not None:
            fail(self.f, 'unexpected **kwargs')
        if cfg['kwargs'] is not False and (a.kwarg is None or a.kwarg.arg != 'kwargs'):
            fail(self.f, 'expected **kwargs')
        for n in ast.walk(self.f):
            if isinstance(n, (ast.While, ast.With, ast.Yield, ast.YieldFrom, ast.FunctionDef, ast.AsyncFunctionDef, ast.Global, ast.Lambda,
                              ast.Nonlocal, ast.Assert, ast.Continue, ast.NamedExpr, ast.Await, ast.ClassDef, ast.Import, ast.ImportFrom,
                              ast.AugAssign, ast.Delete, ast.Starred, ast.IfExp)) and n is not self.f:
                fail(n, 'unsupported construct %s' % type(n).__name__)
        env, binders = {}, []
        for n, t in cfg['args']:
            if n in RESERVED and t != FN:
                fail(self.f, 'argument name %s' % n)
            env[n] = (n, t)
            if t in COQTY:
                binders.append('(%s : %s)' % (n, COQTY[t]))
        if cfg['kwargs'] == 'kwargs':
            env['kwargs'] = ('kwargs', KW)
            binders.append('(kwargs : kw)')
        elif cfg['kwargs'] is None:
            env['kwargs'] = ('kwargs', IGN)
        body, out = self.block(list(self.f.body), env, frozenset(), '      ')
        if out is not None:
            fail(self.f, '%s can fall off its end (returns None)' % self.name)
        rty = 'pairs' if cfg['ret'] == PAIRS else '(list sets)'
        hdr = '(* ===== %s (line %d) ===== *)\n' % (self.name, self.f.lineno)
        core = '    let st := %s_frame0 h in\n    fn_end %s (\n      %s)' % (cfg['frame'], cfg['heap'], body)
        if self.name == 'adaptive_link_wrap':
            return hdr + ('Fixpoint py_adaptive_link_wrap (fuel : nat) (h : heap) %s {struct fuel} : fresult %s :=\n'
                          '  match fuel with\n  | O => Fail h NoFuel\n  | S fuel\' =>\n%s\n  end.\n' % (' '.join(binders), rty, core))
        return hdr + 'Definition py_%s (h : heap) %s : fresult %s :=\n%s.\n' % (self.name, ' '.join(binders), rty, core)


def translate(repo):
    srcs = {}
    for name, fn in (('subnet_linker_drop', 'subnetlinker.py'), ('split_subnet', 'subnet.py'), ('adaptive_link_wrap', 'linking.py')):
        p = os.path.join(repo, 'trackpy', 'linking', fn)
        srcs[name] = find_function(ast.parse(open(p).read()), name)
    out = ['(* GENERATED by tools/py2coq_adaptive.py from trackpy/linking/linking.py (adaptive_link_wrap),',
           '   trackpy/linking/subnet.py (split_subnet) and trackpy/linking/subnetlinker.py (subnet_linker_drop)',
           '   -- do not edit.  Statement by statement, state passing; the numbered comments are the Python',
           '   statements.  Vocabulary and its meaning: Model/PyAdaptive.v; subset and conventions: the translator. *)',
           'From Coq Require Import ZArith List Bool Arith.',
           'From TP Require Import Model.Assign Model.Link Model.SubnetMerge Model.SplitSubnet Model.PyAdaptive.',
           'Import ListNotations.',
           '',
           'Section Generated.',
           'Variable num : Type.                      (* search ranges: Python floats *)',
           'Variable ops : num_ops num.',
           '']
    out.append(Fn(srcs['subnet_linker_drop'], 'subnet_linker_drop').translate())
    out.append('Section SplitSubnet.')
    out.append('Variable assign_subnet : mst -> nat -> nat -> mresult.     (* the callee trackpy.linking.subnet.assign_subnet *)')
    out.append('')
    out.append(Fn(srcs['split_subnet'], 'split_subnet').translate())
    out.append('End SplitSubnet.')
    out.append('')
    out.append('Section AdaptiveLinkWrap.')
    out.append('Variable kw : Type.                       (* **kwargs, passed through *)')
    out.append('Variable subnet_linker : heap -> list nat -> list nat -> num -> kw -> fresult pairs.')
    out.append('Variable split_subnet : heap -> list nat -> list nat -> num -> fresult (list sets).')
    out.append('')
    out.append(Fn(srcs['adaptive_link_wrap'], 'adaptive_link_wrap').translate())
    out.append('End AdaptiveLinkWrap.')
    out.append('End Generated.')
    return '\n'.join(out) + '\n'


def main():
    ap = argparse.ArgumentParser()
    ap.add_argument('--repo', default=os.environ.get('TRACKPY_REPO', '/repo'))
    ap.add_argument('--out', default=os.path.join(os.path.dirname(os.path.dirname(os.path.abspath(__file__))), 'coq', 'Gen', 'adaptive.v'))
    ap.add_argument('--stdout', action='store_true')
    a = ap.parse_args()
    try:
        text = translate(a.repo)
    except TranslationError as e:
        sys.stderr.write('py2coq_adaptive: TRANSLATION ERROR: %s\n' % e)
        sys.exit(2)
    except (OSError, SyntaxError, RecursionError) as e:
        sys.stderr.write('py2coq_adaptive: TRANSLATION ERROR: cannot read / parse the source: %s\n' % e)
        sys.exit(2)
    if a.stdout:
        sys.stdout.write(text)
        return
    old = open(a.out).read() if os.path.exists(a.out) else None
    if old != text:
        os.makedirs(os.path.dirname(a.out), exist_ok=True)
        tmp = a.out + '.tmp%d' % os.getpid()
        with open(tmp, 'w') as f:
            f.write(text)
        os.replace(tmp, a.out)
        print('py2coq_adaptive: wrote %s (changed)' % a.out)
    else:
        print('py2coq_adaptive: %s up to date' % a.out)


if __name__ == '__main__':
    main()
