#!/usr/bin/env python3
"""Fail-closed translator (route T) for C08.

Reads  $TRACKPY_REPO/trackpy/uncertainty.py  and  $TRACKPY_REPO/trackpy/feature.py
(default /repo) with the Python `ast` module and regenerates /verif/coq/Gen/tail.v :

    uncertainty.py   measure_noise, _root_sum_x_squared, _static_error, static_error
    feature.py       locate: every statement AFTER `refined_coords = refine_com(...)` up to the
                     final return (empty-result return, where_close / drop / reset_index,
                     mass and signal rescaling, minmass / maxsize filter, topn, the static
                     error block with its column names and the negative -> NaN mapping, the
                     frame tag)                                        -> py_locate_tail
                     batch (kwargs, get_pool, the loop over enumerate(map_func(...)), the
                     frame tagging, the concatenation)                 -> py_batch

statement by statement, as shallow Gallina over the vocabulary of coq/Model/PyTail.v.
Proofs/TailGen.v proves the generated functions equal to the hand-written models
(Model/LocateTail.v, Model/StaticError.v, Model/LocatePipe.v, Model/Equivariance.v,
Model/LocateWhole.v) for all inputs; Properties/C08.v restates the headline theorems for them.

Embedding
  * a Python variable is a let-bound Coq variable of the same name; `x = e`, `x[m] = e`,
    `x['c'] = e`, `x.append(e)`, `x.drop(.., inplace=True)` rebind the variable they change;
  * every expression is typed; an operator / call is translated by a table of exact syntactic
    patterns and the types of its operands; anything not in the table is an error;
  * an operation that can raise (a column read, concat, frames[i], enumerate over worker results,
    reading a variable that only a loop binds) is bound in the exception monad:
    rbind (op) (fun tmp<k> => ..), sub-expressions left to right (Python's evaluation order);
  * `if c: .. return e` is `if c then .. e else <rest>`; any other `if` yields the tuple of the
    variables it assigns that exist before it or are assigned in both branches;
    `if x is not None and ..` / `if x is None` on an Optional parameter is a `match`;
    `if np.isscalar(noise)` is a match on noise_in; `if ep.ndim == 1: A else: B` and
    `if ep.ndim == 1: A elif ep.ndim == 2: B` are `match ep with Ep1 ep => A | Ep2 ep => B end`;
    `if hasattr(x, 'frame_no') and x.frame_no is not None` is a match on the option the attribute is;
  * a variable bound to a 1-D array in one branch and to a 2-D array in the other comes out as
    ep_arr (Ep1 / Ep2);
  * `for i, features in enumerate(map_func(f, frames))` is foldM over its lambda-lifted body; the
    loop targets stay readable after the loop as Optional values (unbound when the loop never ran);
  * `warnings.warn(..)`, `logger.info(..)`, docstrings are dropped (a comment is left);
  * batch: meta=None, output=None, after_locate=None are PINNED (their defaults): `if meta:` is
    dropped, `output is None` is true, after_locate is the identity the function itself defines;
    `try: .. finally: if pool: pool.terminate()` is its body;
  * the head of locate is not translated; the statements that define the variables the tail reads
    are pinned textually (HEAD_PINS).

Extra (Coq-only) parameters
    sqrtf : Q -> Q                    np.sqrt
    diameter_is_iterable : bool       hasattr(diameter, '__iter__') in static_error
    raw_image__frame_no : option nat  the frame_no attribute of raw_image in locate
    F R KW D, locate_rows, kw_mem, kw_set     batch: frame payload, row type, kwargs and its operations,
                                      locate without the frame tag

Anything outside this subset: exit status 2, nothing written (the check treats that like a
broken proof).

Usage:  py2coq_tail.py [--repo /repo] [--out /verif/coq/Gen/tail.v] [--stdout]
"""
import ast, sys, os, argparse


class TranslationError(Exception):
    pass


def fail(node, msg):
    raise TranslationError('line %s: %s' % (getattr(node, 'lineno', '?'), msg))


COQTY = {'df': 'dframe', 'img': 'Dilation.image', 'zvec': 'list Z', 'qvec': 'list Q', 'strs': 'list string', 'Q': 'Q',
         'optQ': 'option Q', 'optnat': 'option nat', 'nat': 'nat', 'Z': 'Z', 'B': 'bool', 'F': 'fval',
         'fvec': 'list fval', 'fmat': 'list (list fval)', 'qser': 'list Q', 'bser': 'list bool',
         'posrows': 'list (list Q)', 'idx': 'list nat', 'eparr': 'ep_arr', 'epframe': 'ep_frame', 'noise': 'noise_arg',
         'noisein': 'noise_in', 'noisetab': 'list (nat * fval)', 'bmask': 'bmask', 'struct': 'list Z',
         'zmasks': 'list (list Z)', 'zvals': 'list Z', 'cols': 'list (string * list fval)', 'sefeat': 'se_features',
         'FF': 'fval * fval', 'frames': 'list (pframe F)', 'pframe': 'pframe F', 'bt': 'btable R',
         'bts': 'list (btable R)', 'kw': 'KW', 'dia': 'D', 'poolcfg': 'pool_cfg', 'pool': 'bool', 'mapf': 'map_func_t F R',
         'locf': 'pframe F -> btable R', 'rows': 'list (R * nat)', 'items': 'list (nat * btable R)', 'str': 'string',
         'optbt': 'option (btable R)', 'pinned_none': None}

RESERVED = set("""
sqrtf diameter_is_iterable raw_image__frame_no locate_rows kw_mem kw_set F R KW D rbind foldM ROk RRaise res exn py_var
np_nan fZ py_len hd0 validate_tuple np_array py_str_nat tuple_all_equal_Z tuple_all_equal_Q np_greater_all bmask np_ndim
binary_mask_structure ndimage_binary_dilation mask_not mask_count np_mask_index arr_mean arr_std x_squared_masks
np_sum_axes_from_1 np_sqrt np_div_noise vec_mul_scalar np_outer_mul arr_sub_scalar N_binary_mask se_features se_mass
se_frame se_noise noise_in NIScalar NITable se_join_on_frame series_set_name pd_DataFrame_cols dframe df_len df_index
df_getpos df_getitem df_contains series_values find_where_close df_drop df_reset_index df_idiv_col series_gt series_lt
mask_and mask_all df_loc_mask np_argmax np_argsort df_iloc df_setitem_col pd_DataFrame pandas_concat_axis1 df_set_frame
py_int_nat pframe pf_img pf_no btable trackpy_locate pool_cfg get_pool py_enumerate frames_getitem bt_has_frame
bt_set_frame bt_len pandas_concat_rows pd_empty_table bt_columns lastn nan_negative Ep1 Ep2 NScalar NSeries fmul fdiv fsub
fval FNaN FVal map fst snd Some None true false negb rev firstn seq zipmul app fun let in if then else match with end as
return forall exists fix cofix Type Prop Set Definition Fixpoint at using list nat bool option string Z Q tt it st
""".split())


def cstr(s):
    if not isinstance(s, str) or any(ord(c) < 32 or ord(c) > 126 for c in s):
        raise TranslationError('unsupported string literal %r' % (s,))
    return '"%s"%%string' % s.replace('"', '""')


def cmt(text):
    return text.replace('"', "'").replace('(*', '( *').replace('*)', '* )')


def P(src):
    return ast.parse(src, mode='eval').body


def match(p, n, b):
    """structural match of pattern p against node n; E_x binds an expression (the same binder
    twice: the same expression), F_x a Name, K_x an int constant, S_x a str constant"""
    if isinstance(p, ast.Name):
        if p.id.startswith('E_'):
            if p.id in b:
                return ast.dump(b[p.id]) == ast.dump(n)
            b[p.id] = n
            return True
        if p.id.startswith('F_'):
            if not isinstance(n, ast.Name):
                return False
            if p.id in b:
                return b[p.id] == n.id
            b[p.id] = n.id
            return True
        if p.id.startswith('K_'):
            if not (isinstance(n, ast.Constant) and isinstance(n.value, int) and not isinstance(n.value, bool)):
                return False
            b[p.id] = n.value
            return True
        if p.id.startswith('S_'):
            if not (isinstance(n, ast.Constant) and isinstance(n.value, str)):
                return False
            b[p.id] = n.value
            return True
        return isinstance(n, ast.Name) and n.id == p.id
    if type(p) is not type(n):
        return False
    if isinstance(p, ast.arg) and p.arg.startswith('F_'):
        if p.arg in b:
            return b[p.arg] == n.arg
        b[p.arg] = n.arg
        return n.annotation is None
    for fld in p._fields:
        if fld in ('ctx', 'type_comment', 'kind'):
            continue
        pv, nv = getattr(p, fld, None), getattr(n, fld, None)
        if isinstance(pv, list):
            if not isinstance(nv, list) or len(pv) != len(nv):
                return False
            for x, y in zip(pv, nv):
                if isinstance(x, ast.AST):
                    if not match(x, y, b):
                        return False
                elif x != y:
                    return False
        elif isinstance(pv, ast.AST):
            if not isinstance(nv, ast.AST) or not match(pv, nv, b):
                return False
        elif pv != nv:
            return False
    return True


def T(*a):
    return tuple(a)


# (pattern, {binder: allowed types}, result type, template, monadic)
RULES = [
    ("np.nan", {}, 'F', "np_nan", False),
    ("len(E_x) == 0", {'E_x': T('df')}, 'B', "(df_len {x} =? 0)%nat", False),
    ("len(E_x) > 0", {'E_x': T('bt')}, 'B', "(0 <? bt_len {x})%nat", False),
    ("len(E_x) > 0", {'E_x': T('bts')}, 'B', "(0 <? py_len {x})%nat", False),
    ("len(E_x) > E_n", {'E_x': T('df'), 'E_n': T('nat')}, 'B', "({n} <? df_len {x})%nat", False),
    ("len(E_x)", {'E_x': T('zvec', 'qvec')}, 'nat', "(py_len {x})", False),
    ("E_i.ndim", {'E_i': T('img')}, 'nat', "(np_ndim {i})", False),
    ("binary_mask(E_r, E_n)", {'E_r': T('zvec'), 'E_n': T('nat')}, 'struct', "(binary_mask_structure {r} {n})", False),
    ("binary_dilation(E_i, structure=E_s)", {'E_i': T('img'), 'E_s': T('struct')}, 'bmask', "(ndimage_binary_dilation {i} {s})", False),
    ("~E_m", {'E_m': T('bmask')}, 'bmask', "(mask_not {m})", False),
    ("E_m.sum()", {'E_m': T('bmask')}, 'nat', "(mask_count {m})", False),
    ("E_i[E_m]", {'E_i': T('img'), 'E_m': T('bmask')}, 'zvals', "(np_mask_index {i} {m})", False),
    ("E_v.mean()", {'E_v': T('zvals')}, 'F', "(arr_mean {v})", False),
    ("E_v.std()", {'E_v': T('zvals')}, 'F', "(arr_std sqrtf {v})", False),
    ("E_a == K_k", {'E_a': T('nat')}, 'B', "({a} =? {k})%nat", False),
    ("E_a < K_k", {'E_a': T('nat')}, 'B', "({a} <? {k})%nat", False),
    ("x_squared_masks(E_r, E_n)", {'E_r': T('zvec'), 'E_n': T('nat')}, 'zmasks', "(x_squared_masks {r} {n})", False),
    ("np.sum(E_m, axis=tuple(range(1, E_n + 1)))", {'E_m': T('zmasks'), 'E_n': T('nat')}, 'zvec', "(np_sum_axes_from_1 {m} {n})", False),
    ("np.sqrt(E_v)", {'E_v': T('zvec')}, 'qvec', "(np_sqrt sqrtf {v})", False),
    ("np.all(E_t[1:] == E_t[:-1])", {'E_t': T('zvec')}, 'B', "(tuple_all_equal_Z {t})", False),
    ("np.all(E_t[1:] == E_t[:-1])", {'E_t': T('qvec')}, 'B', "(tuple_all_equal_Q {t})", False),
    ("E_v[0]", {'E_v': T('qvec')}, 'Q', "(hd0 {v})", False),
    ("E_v[:, np.newaxis] * E_k[np.newaxis, :]", {'E_v': T('fvec'), 'E_k': T('qvec')}, 'fmat', "(np_outer_mul {v} {k})", False),
    ("np.array(E_v)", {'E_v': T('qvec')}, 'qvec', "(np_array {v})", False),
    ("_root_sum_x_squared(E_r, E_n)", {'E_r': T('zvec'), 'E_n': T('nat')}, 'qvec', "(py__root_sum_x_squared sqrtf {r} {n})", False),
    ("_static_error(E_m, E_o, E_r, E_s)", {'E_m': T('fvec'), 'E_o': T('noise'), 'E_r': T('zvec'), 'E_s': T('qvec')}, 'eparr',
     "(py__static_error sqrtf {m} {o} {r} {s})", False),
    ("measure_noise(E_a, E_b, E_r)", {'E_a': T('img'), 'E_b': T('img'), 'E_r': T('zvec')}, 'FF', "(py_measure_noise sqrtf {a} {b} {r})", False),
    ("N_binary_mask(E_r, E_n)", {'E_r': T('zvec'), 'E_n': T('nat')}, 'Z', "(N_binary_mask {r} {n})", False),
    ("validate_tuple(E_v, E_n)", {'E_v': T('zvec'), 'E_n': T('nat')}, 'zvec', "(validate_tuple {v} {n})", False),
    ("validate_tuple(E_v, E_n)", {'E_v': T('qvec'), 'E_n': T('nat')}, 'qvec', "(validate_tuple {v} {n})", False),
    ("E_v[::-1]", {'E_v': T('zvec')}, 'zvec', "(rev {v})", False),
    ("E_v[::-1]", {'E_v': T('qvec')}, 'qvec', "(rev {v})", False),
    ("tuple(E_v)", {'E_v': T('zvec')}, 'zvec', "{v}", False),
    ("E_f['mass']", {'E_f': T('sefeat')}, 'fvec', "(se_mass {f})", False),
    ("E_f['noise']", {'E_f': T('sefeat')}, 'fvec', "(se_noise {f})", False),
    ("E_f.join(E_n, on='frame')", {'E_f': T('sefeat'), 'E_n': T('noisetab')}, 'sefeat', "(se_join_on_frame {f} {n})", False),
    ("DataFrame(E_e, columns=E_c, index=E_f.index)", {'E_e': T('fmat'), 'E_c': T('strs'), 'E_f': T('sefeat')}, 'cols',
     "(pd_DataFrame_cols {e} {c})", False),
    ("E_l[:E_n]", {'E_l': T('strs'), 'E_n': T('nat')}, 'strs', "(firstn {n} {l})", False),
    ("map(lambda F_i: S_s + str(F_i), range(E_n))", {'E_n': T('nat')}, 'strs',
     "(map (fun {F_i} => String.append {S_s} (py_str_nat {F_i})) (seq 0 {n}))", False),
    ("where_close(E_p, E_s, E_m)", {'E_p': T('posrows'), 'E_s': T('qvec'), 'E_m': T('qser')}, 'idx', "(find_where_close {p} {s} {m})", False),
    ("E_d[E_c]", {'E_d': T('df'), 'E_c': T('strs')}, 'posrows', "df_getpos {d} {c}", True),
    ("E_d[S_c]", {'E_d': T('df')}, 'qser', "df_getitem {d} {S_c}", True),
    ("S_c in E_d", {'E_d': T('df')}, 'B', "(df_contains {S_c} {d})", False),
    ("E_s.values", {'E_s': T('qser')}, 'qser', "(series_values {s})", False),
    ("E_s > E_x", {'E_s': T('qser'), 'E_x': T('Q')}, 'bser', "(series_gt {s} {x})", False),
    ("E_s < E_x", {'E_s': T('qser'), 'E_x': T('Q')}, 'bser', "(series_lt {s} {x})", False),
    ("E_c.all()", {'E_c': T('bser')}, 'B', "(mask_all {c})", False),
    ("E_d.loc[E_c].copy()", {'E_d': T('df'), 'E_c': T('bser')}, 'df', "(df_loc_mask {d} {c})", False),
    ("np.all(np.greater(E_s, K_k))", {'E_s': T('qvec')}, 'B', "(np_greater_all {s} ({k} # 1))", False),
    ("E_d.iloc[E_l]", {'E_d': T('df'), 'E_l': T('idx')}, 'df', "(df_iloc {d} {l})", False),
    ("[np.argmax(E_m)]", {'E_m': T('qser')}, 'idx', "[np_argmax {m}]", False),
    ("np.argsort(E_m)", {'E_m': T('qser')}, 'idx', "(np_argsort {m})", False),
    ("E_a[-E_n:]", {'E_a': T('idx'), 'E_n': T('nat')}, 'idx', "(lastn {n} {a})", False),
    ("E_s - E_f", {'E_s': T('qser'), 'E_f': T('F')}, 'fvec', "(arr_sub_scalar {s} {f})", False),
    ("E_z * E_f", {'E_z': T('Z'), 'E_f': T('F')}, 'F', "(fmul (fZ {z}) {f})", False),
    ("E_v * E_x", {'E_v': T('fvec'), 'E_x': T('Q')}, 'fvec', "(vec_mul_scalar {v} {x})", False),
    ("E_a * E_b", {'E_a': T('qvec'), 'E_b': T('qvec')}, 'qvec', "(zipmul {a} {b})", False),
    ("E_o / E_m", {'E_o': T('noise'), 'E_m': T('fvec')}, 'fvec', "(np_div_noise {o} {m})", False),
    ("pd.DataFrame(E_e, columns=E_c, index=E_d.index)", {'E_e': T('fmat'), 'E_c': T('strs'), 'E_d': T('df')}, 'epframe',
     "(pd_DataFrame {e} {c} (df_index {d}))", False),
    ("pandas_concat([E_d, E_e], axis=1)", {'E_d': T('df'), 'E_e': T('epframe')}, 'df', "pandas_concat_axis1 {d} {e}", True),
    # batch
    ("S_c in E_k", {'E_k': T('kw')}, 'B', "(kw_mem {S_c} {k})", False),
    ("partial(locate, **E_k)", {'E_k': T('kw')}, 'locf', "(trackpy_locate locate_rows {k})", False),
    ("get_pool(E_p)", {'E_p': T('poolcfg')}, 'poolpair', "(get_pool {p})", False),
    ("enumerate(E_m(E_f, E_x))", {'E_m': T('mapf'), 'E_f': T('locf'), 'E_x': T('frames')}, 'items', "py_enumerate ({m} {f} {x})", True),
    ("E_x[E_i]", {'E_x': T('frames'), 'E_i': T('nat')}, 'pframe', "frames_getitem {x} {i}", True),
    ("'frame' not in E_t.columns", {'E_t': T('bt')}, 'B', "(negb (bt_has_frame {t}))", False),
    ("pandas_concat(E_l).reset_index(drop=True)", {'E_l': T('bts')}, 'rows', "(pandas_concat_rows {l})", False),
    ("pd.DataFrame(columns=list(E_t.columns) + ['frame'])", {'E_t': T('bt')}, 'rows', "(pd_empty_table (bt_columns {t} ++ [\"frame\"%string]))", False),
]
RULES = [(P(p), a, r, t, m) for (p, a, r, t, m) in RULES]

PAT = {k: P(v) for k, v in {
    'is_none': "F_x is None", 'is_not_none': "F_x is not None",
    'opt_and': "F_x is not None and E_r",
    'isscalar': "np.isscalar(F_x)",
    'ndim1': "F_x.ndim == 1", 'ndim2': "F_x.ndim == 2",
    'has_frame_no': "hasattr(F_x, 'frame_no') and F_x.frame_no is not None",
    'hasattr_iter': "hasattr(diameter, '__iter__')",
    'warn': "warnings.warn(E_s)", 'loginfo': "logger.info(E_a, E_b, E_c)",
    'drop': "F_d.drop(E_l, axis=0, inplace=True)", 'reset': "F_d.reset_index(drop=True, inplace=True)",
    'append': "F_l.append(E_x)",
    'int_frame_no': "int(F_x.frame_no)", 'frame_no': "F_x.frame_no",
    'after_locate': "after_locate(E_n, E_f)",
    'raise_keyerror': "KeyError(S_m)",
}.items()}


def assigned(stmts):
    out = []

    def add(x):
        if x not in out:
            out.append(x)

    def target(t):
        if isinstance(t, ast.Name):
            add(t.id)
        elif isinstance(t, ast.Tuple):
            for x in t.elts:
                target(x)
        elif isinstance(t, ast.Subscript) and isinstance(t.value, ast.Name):
            add(t.value.id)
        elif isinstance(t, ast.Attribute) and isinstance(t.value, ast.Name):
            add(t.value.id)
        else:
            fail(t, 'unsupported assignment target')

    def walk(ss):
        for s in ss:
            if isinstance(s, ast.Assign):
                for t in s.targets:
                    target(t)
            elif isinstance(s, ast.AugAssign):
                target(s.target)
            elif isinstance(s, ast.If):
                walk(s.body); walk(s.orelse)
            elif isinstance(s, ast.Expr):
                b = {}
                if match(PAT['drop'], s.value, b) or match(PAT['reset'], s.value, b):
                    add(b['F_d'])
                b = {}
                if match(PAT['append'], s.value, b):
                    add(b['F_l'])
    walk(stmts)
    return out


class Fn:
    def __init__(self, name, lineno, body, params, ret, monadic, binders, parent=None):
        self.name, self.lineno, self.body = name, lineno, body
        self.params, self.ret, self.monadic, self.binders = params, ret, monadic, binders
        self.env, self.opaque, self.maybe = {}, {}, {}
        self.narrow = {}
        self.pre, self.ntmp, self.nmon = [], 0, 0
        self.aux = parent.aux if parent else []
        self.nloops = parent.nloops if parent else [0]
        self.identity_fns = set(parent.identity_fns) if parent else set()
        for n, t in params:
            self.bind(None, n, t)

    # -------------------------------------------------------------- environment
    def bind(self, node, name, ty):
        if node is not None and (name in RESERVED or name.startswith('tmp') or name.startswith('py_') or not name.isidentifier() or not name.isascii() \
                or '__' in name.strip('_')):
            fail(node, 'variable name %s collides with the generated vocabulary' % name)
        self.env[name] = ty
        self.opaque.pop(name, None)
        self.maybe.pop(name, None)
        self.narrow = {k: v for k, v in self.narrow.items() if name not in v[2]}

    def var(self, node, name):
        if name in self.opaque:
            fail(node, 'name %s is read where it has no value in the model (%s)' % (name, self.opaque[name]))
        if name not in self.env:
            fail(node, 'name %s is read where it is not bound (or is outside the translated subset)' % name)
        if self.env[name] == 'pinned_none':
            fail(node, 'name %s is pinned to None and read as a value' % name)
        if name in self.maybe:
            return self.mon(node, 'py_var %s %s' % (cstr(name), name), self.maybe[name])
        return name, self.env[name]

    def snapshot(self):
        return dict(self.env), dict(self.opaque), dict(self.maybe), dict(self.narrow), set(self.identity_fns)

    def restore(self, s):
        self.env, self.opaque, self.maybe, self.narrow, self.identity_fns = dict(s[0]), dict(s[1]), dict(s[2]), dict(s[3]), set(s[4])

    def tmp(self):
        self.ntmp += 1
        return 'tmp%d' % self.ntmp

    def mon(self, node, term, ty):
        if not self.monadic:
            fail(node, 'an operation that can raise occurs in a function translated as pure')
        t = self.tmp()
        self.nmon += 1
        self.pre.append([t, term])
        return t, ty

    # -------------------------------------------------------------- expressions
    @staticmethod
    def is_int(e):
        return isinstance(e, ast.Constant) and isinstance(e.value, int) and not isinstance(e.value, bool)

    def exAs(self, e, allowed):
        if self.is_int(e):
            for t, f in (('Q', '(%d # 1)'), ('nat', '%d%%nat'), ('Z', '%d%%Z')):
                if t in allowed:
                    if e.value < 0:
                        fail(e, 'negative constant')
                    return f % e.value
            fail(e, 'integer constant where %s is expected' % ' or '.join(allowed))
        s, t = self.ex(e)
        if t in allowed:
            return s
        if 'noise' in allowed and t == 'F':
            return '(NScalar %s)' % s
        if 'noise' in allowed and t == 'fvec':
            return '(NSeries %s)' % s
        fail(e, 'expression `%s` has type %s, expected %s' % (ast.unparse(e), t, ' or '.join(allowed)))

    def ex(self, e):
        k = ast.dump(e)
        if k in self.narrow:
            return self.narrow[k][0], self.narrow[k][1]
        if isinstance(e, ast.Name):
            if e.id in ('True', 'False', 'None'):
                fail(e, 'unsupported constant')
            return self.var(e, e.id)
        if isinstance(e, ast.Constant):
            if isinstance(e.value, str):
                return cstr(e.value), 'str'
            fail(e, 'constant %r in a position where its type is not determined' % (e.value,))
        if match(PAT['hasattr_iter'], e, {}):
            if self.name != 'static_error':
                fail(e, 'hasattr(diameter, ..) outside static_error')
            return 'diameter_is_iterable', 'B'
        b = {}
        if match(PAT['after_locate'], e, b):
            if 'after_locate' not in self.identity_fns:
                fail(e, 'after_locate is not known to be the identity here')
            self.exAs(b['E_n'], ('nat',))
            return self.ex(b['E_f'])
        b = {}
        if match(PAT['int_frame_no'], e, b):
            kk = ast.dump(e.args[0])
            if kk in self.narrow and self.narrow[kk][1] == 'nat':
                return '(py_int_nat %s)' % self.narrow[kk][0], 'nat'
            fail(e, 'frame_no is read where it is not known to be a number')
        if isinstance(e, ast.List) and e.elts and all(isinstance(x, ast.Constant) and isinstance(x.value, str) for x in e.elts):
            return '[' + '; '.join(cstr(x.value) for x in e.elts) + ']', 'strs'
        if isinstance(e, ast.List) and not e.elts:
            fail(e, 'empty list in a position where its type is not determined')
        if isinstance(e, ast.Tuple) and len(e.elts) == 2:
            a = self.exAs(e.elts[0], ('F',))
            c = self.exAs(e.elts[1], ('F',))
            return '(%s, %s)' % (a, c), 'FF'
        if isinstance(e, ast.ListComp):
            g = e.generators
            if len(g) != 1 or g[0].ifs or g[0].is_async or not isinstance(g[0].target, ast.Name):
                fail(e, 'unsupported list comprehension')
            src, ts = self.ex(g[0].iter)
            et = {'strs': 'str', 'zvec': 'Z'}.get(ts)
            if et is None:
                fail(e, 'list comprehension over a %s' % ts)
            x = g[0].target.id
            if x in self.env or x in self.opaque:
                fail(e, 'comprehension variable %s shadows a variable' % x)
            npre = len(self.pre)
            self.bind(e, x, et)
            body, tb = self.ex(e.elt)
            del self.env[x]
            if len(self.pre) != npre:
                fail(e, 'an operation that can raise inside a comprehension')
            out = {'str': 'strs', 'Z': 'zvec'}.get(tb)
            if out is None:
                fail(e, 'list comprehension producing %s' % tb)
            return '(map (fun %s => %s) %s)' % (x, body, src), out
        if isinstance(e, ast.BoolOp) and isinstance(e.op, ast.And):
            npre = len(self.pre)
            parts = [self.exAs(v, ('B',)) for v in e.values]
            if len(self.pre) != npre:
                fail(e, 'an operation that can raise under a short-circuit operator')
            return '(' + ' && '.join(parts) + ')', 'B'
        if isinstance(e, ast.UnaryOp) and isinstance(e.op, ast.Not):
            return '(negb %s)' % self.exAs(e.operand, ('B',)), 'B'
        # table of patterns
        last = None
        for pat, args, res, tmpl, monadic in RULES:
            b = {}
            if not match(pat, e, b):
                continue
            save = (len(self.pre), self.ntmp, self.nmon)
            try:
                vals = {}
                for bk, bv in b.items():
                    if bk.startswith('E_'):
                        vals[bk[2:]] = self.exAs(bv, args[bk])
                    elif bk.startswith('K_'):
                        vals[bk[2:]] = '%d' % bv
                    elif bk.startswith('S_'):
                        vals[bk] = cstr(bv)
                    elif bk.startswith('F_'):
                        if bv in self.env or bv in RESERVED:
                            raise TranslationError('line %s: lambda parameter %s shadows a name' % (e.lineno, bv))
                        vals[bk] = bv
            except TranslationError as err:
                del self.pre[save[0]:]
                self.ntmp, self.nmon = save[1], save[2]
                last = err
                continue
            term = tmpl.format(**vals)
            if monadic:
                return self.mon(e, term, res)
            return term, res
        if isinstance(e, ast.BinOp):
            if isinstance(e.op, ast.Add):
                try:
                    a = self.exAs(e.left, ('str',))
                    c = self.exAs(e.right, ('str',))
                    return '(String.append %s %s)' % (a, c), 'str'
                except TranslationError as err:
                    last = last or err
            if isinstance(e.op, ast.FloorDiv) and self.is_int(e.right) and e.right.value > 0:
                a = self.exAs(e.left, ('Z',))
                return '(%s / %d)%%Z' % (a, e.right.value), 'Z'
        if last is not None:
            raise TranslationError('%s  [in `%s`]' % (last, ast.unparse(e)[:80]))
        fail(e, 'unsupported expression `%s`' % ast.unparse(e)[:120])

    # -------------------------------------------------------------- statements
    def flush(self, ind):
        pre, self.pre = self.pre, []
        head = ''.join('%srbind (%s) (fun %s =>\n' % (ind, m, p) for p, m in pre)
        return head, ')' * len(pre)

    def tup(self, names):
        return '(' + ', '.join(names) + ')' if len(names) != 1 else names[0]

    def pat(self, names):
        return "'(" + ', '.join(names) + ')' if len(names) != 1 else names[0]

    def no_tail(self, node):
        def t():
            fail(node, 'control reaches the end of a block that has to return')
        return t

    def wrap(self, v):
        return 'ROk %s' % v if self.monadic else v

    def coerce(self, v, t, want):
        if t == want:
            return v
        if want == 'eparr' and t == 'fvec':
            return '(Ep1 %s)' % v
        if want == 'eparr' and t == 'fmat':
            return '(Ep2 %s)' % v
        return None

    @staticmethod
    def exits(stmts):
        if not stmts:
            return False
        l = stmts[-1]
        if isinstance(l, (ast.Return, ast.Raise)):
            return True
        return isinstance(l, ast.If) and Fn.exits(l.body) and Fn.exits(l.orelse)

    def seq(self, stmts, tail, ind):
        if not stmts:
            return ind + tail()
        s, rest = stmts[0], stmts[1:]

        def go():
            return self.seq(rest, tail, ind)

        if isinstance(s, ast.Pass):
            return go()
        if isinstance(s, ast.Expr) and isinstance(s.value, ast.Constant) and isinstance(s.value.value, str):
            return go()
        if isinstance(s, ast.Expr):
            return self.exprstmt(s, go, ind)
        if isinstance(s, ast.Return):
            if rest:
                fail(s, 'statements after return')
            if s.value is None:
                fail(s, 'return without a value')
            v, t = self.ex(s.value)
            c = self.coerce(v, t, self.ret)
            if c is None:
                fail(s, 'return of a %s from a function returning %s' % (t, self.ret))
            head, close = self.flush(ind)
            return head + ind + self.wrap(c) + close
        if isinstance(s, ast.Raise):
            b = {}
            if rest or s.cause is not None or s.exc is None or not match(PAT['raise_keyerror'], s.exc, b):
                fail(s, 'only `raise KeyError(<literal>)` is supported')
            if not self.monadic or self.pre:
                fail(s, 'raise in a pure context')
            return ind + 'RRaise (EKeyError %s)' % cstr(b['S_m'])
        if isinstance(s, ast.Assert):
            if ast.unparse(s) == "assert 'noise' in noise" and self.env.get('noise') == 'noisetab':
                return "%s(* assert 'noise' in noise: the model's per-frame table has the column *)\n" % ind + go()
            fail(s, 'unsupported assert')
        if isinstance(s, ast.Assign):
            return self.assign(s, go, ind)
        if isinstance(s, ast.AugAssign):
            return self.augassign(s, go, ind)
        if isinstance(s, ast.If):
            return self.ifstmt(s, rest, tail, ind)
        if isinstance(s, ast.For):
            return self.forstmt(s, rest, tail, ind)
        if isinstance(s, ast.Try):
            if s.handlers or s.orelse or len(s.finalbody) != 1 or ast.unparse(s.finalbody[0]) != 'if pool:\n    pool.terminate()' \
                    or self.env.get('pool') != 'pool':
                fail(s, 'only `try: .. finally: if pool: pool.terminate()` is supported')
            return '%s(* try .. finally: pool.terminate(): the pool has no effect on the result *)\n' % ind + \
                self.seq(list(s.body) + rest, tail, ind)
        if isinstance(s, ast.FunctionDef):
            if ast.unparse(s) != 'def after_locate(frame_no, features):\n    return features':
                fail(s, 'only the identity `def after_locate(frame_no, features): return features` is supported')
            self.identity_fns.add('after_locate')
            self.env.pop('after_locate', None)
            return '%s(* def after_locate(frame_no, features): return features *)\n' % ind + go()
        fail(s, 'unsupported statement %s' % type(s).__name__)

    def exprstmt(self, s, go, ind):
        b = {}
        if match(PAT['warn'], s.value, b) and isinstance(b['E_s'], ast.Constant) and isinstance(b['E_s'].value, str):
            return '%s(* warnings.warn: %s *)\n' % (ind, cmt(b['E_s'].value[:60])) + go()
        b = {}
        if match(PAT['loginfo'], s.value, b) and isinstance(b['E_a'], ast.Constant):
            return '%s(* logger.info *)\n' % ind + go()
        b = {}
        if match(PAT['drop'], s.value, b):
            d, td = self.var(s, b['F_d'])
            if td != 'df':
                fail(s, 'drop on a %s' % td)
            l = self.exAs(b['E_l'], ('idx',))
            head, close = self.flush(ind)
            self.bind(s, d, 'df')
            return head + '%slet %s := df_drop %s %s in\n' % (ind, d, d, l) + go() + close
        b = {}
        if match(PAT['reset'], s.value, b):
            d, td = self.var(s, b['F_d'])
            if td != 'df':
                fail(s, 'reset_index on a %s' % td)
            self.bind(s, d, 'df')
            return '%slet %s := df_reset_index %s in\n' % (ind, d, d) + go()
        b = {}
        if match(PAT['append'], s.value, b):
            l, tl = self.var(s, b['F_l'])
            if tl != 'bts':
                fail(s, 'append on a %s' % tl)
            x = self.exAs(b['E_x'], ('bt',))
            head, close = self.flush(ind)
            self.bind(s, l, 'bts')
            return head + '%slet %s := %s ++ [%s] in\n' % (ind, l, l, x) + go() + close
        fail(s, 'unsupported statement `%s`' % ast.unparse(s)[:100])

    def assign(self, s, go, ind):
        if len(s.targets) != 1:
            fail(s, 'chained assignment')
        t = s.targets[0]
        if isinstance(t, ast.Name):
            if isinstance(s.value, ast.List) and not s.value.elts and t.id == 'all_features':
                self.bind(s, t.id, 'bts')
                return '%slet %s := [] in\n' % (ind, t.id) + go()
            v, tv = self.ex(s.value)
            if tv not in COQTY:
                fail(s, 'cannot bind a value of type %s' % tv)
            if self.pre and self.pre[-1][0] == v:
                self.pre[-1][0] = t.id
                head, close = self.flush(ind)
                self.bind(s, t.id, tv)
                return head + go() + close
            head, close = self.flush(ind)
            self.bind(s, t.id, tv)
            return head + '%slet %s := %s in\n' % (ind, t.id, v) + go() + close
        if isinstance(t, ast.Tuple) and len(t.elts) == 2 and all(isinstance(x, ast.Name) for x in t.elts) and t.elts[0].id != t.elts[1].id:
            v, tv = self.ex(s.value)
            parts = {'FF': ('F', 'F'), 'poolpair': ('pool', 'mapf')}.get(tv)
            if parts is None:
                fail(s, 'cannot unpack a %s' % tv)
            head, close = self.flush(ind)
            for x, tx in zip(t.elts, parts):
                self.bind(s, x.id, tx)
            return head + "%slet '(%s, %s) := %s in\n" % (ind, t.elts[0].id, t.elts[1].id, v) + go() + close
        if isinstance(t, ast.Attribute) and isinstance(t.value, ast.Name) and t.attr == 'name':
            x, tx = self.var(s, t.value.id)
            if tx != 'fvec' or not (isinstance(s.value, ast.Constant) and isinstance(s.value.value, str)):
                fail(s, 'unsupported assignment to .name')
            self.bind(s, x, 'cols')
            return '%slet %s := series_set_name %s %s in\n' % (ind, x, x, cstr(s.value.value)) + go()
        if isinstance(t, ast.Subscript) and isinstance(t.value, ast.Name):
            x, tx = self.var(s, t.value.id)
            # x[x < 0] = np.nan
            if tx == 'eparr' and ast.unparse(t.slice) == '%s < 0' % x and ast.unparse(s.value) == 'np.nan':
                self.bind(s, x, 'eparr')
                return '%slet %s := nan_negative %s in\n' % (ind, x, x) + go()
            if isinstance(t.slice, ast.Constant) and isinstance(t.slice.value, str):
                c = t.slice.value
                if tx == 'kw':
                    v = self.exAs(s.value, ('dia',))
                    self.bind(s, x, 'kw')
                    return '%slet %s := kw_set %s %s %s in\n' % (ind, x, x, cstr(c), v) + go()
                if c == 'frame' and tx in ('df', 'bt'):
                    v = self.exAs(s.value, ('nat',))
                    head, close = self.flush(ind)
                    self.bind(s, x, tx)
                    return head + '%slet %s := %s %s %s in\n' % (ind, x, 'df_set_frame' if tx == 'df' else 'bt_set_frame', x, v) + go() + close
                if tx == 'df':
                    v = self.exAs(s.value, ('fvec',))
                    tm, _ = self.mon(s, 'df_setitem_col %s %s %s' % (x, cstr(c), v), 'df')
                    self.pre[-1][0] = x
                    head, close = self.flush(ind)
                    self.bind(s, x, 'df')
                    return head + go() + close
        fail(s, 'unsupported assignment `%s`' % ast.unparse(s)[:100])

    def augassign(self, s, go, ind):
        t = s.target
        if isinstance(t, ast.Subscript) and isinstance(t.value, ast.Name) and isinstance(t.slice, ast.Constant) \
                and t.slice.value in ('mass', 'signal') and isinstance(s.op, ast.Div):
            x, tx = self.var(s, t.value.id)
            if tx != 'df':
                fail(s, 'unsupported augmented assignment')
            v = self.exAs(s.value, ('Q',))
            self.bind(s, x, 'df')
            return '%slet %s := df_idiv_col %s %s %s in\n' % (ind, x, x, cstr(t.slice.value), v) + go()
        if isinstance(t, ast.Name) and isinstance(s.op, ast.BitAnd):
            x, tx = self.var(s, t.id)
            if tx != 'bser':
                fail(s, 'unsupported augmented assignment')
            v = self.exAs(s.value, ('bser',))
            head, close = self.flush(ind)
            self.bind(s, x, 'bser')
            return head + '%slet %s := mask_and %s %s in\n' % (ind, x, x, v) + go() + close
        fail(s, 'unsupported augmented assignment `%s`' % ast.unparse(s)[:100])

    # -------------------------------------------------------------- if
    def check_no_exit(self, stmts):
        for n in stmts:
            for k in ast.walk(n):
                if isinstance(k, (ast.Return, ast.Raise, ast.Break, ast.Continue)):
                    fail(k, 'unsupported control flow inside a block')

    def run_arms(self, node, arms, compose, rest, tail, ind):
        snap = self.snapshot()
        i2 = ind + '    '
        if any(self.exits(st) for _, st in arms):
            texts = []
            for enter, st in arms:
                self.restore(snap)
                enter()
                if self.exits(st):
                    self.check_no_exit(st[:-1])
                    texts.append(self.seq(list(st), self.no_tail(node), i2))
                else:
                    self.check_no_exit(st)
                    texts.append(self.seq(list(st) + rest, tail, i2))
            return compose(texts, ind)
        for _, st in arms:
            self.check_no_exit(st)
        W = assigned([x for _, st in arms for x in st])

        def run(finf):
            outs = []
            for enter, st in arms:
                self.restore(snap)
                enter()
                txt = self.seq(list(st), finf, i2)
                outs.append((txt, dict(self.env)))
            return outs
        save = (self.ntmp, self.nmon, self.nloops[0], len(self.aux))
        outs = run(lambda: 'tt')
        mon = self.nmon != save[1]
        self.ntmp, self.nmon, self.nloops[0] = save[0], save[1], save[2]
        del self.aux[save[3]:]
        unified = {}
        for v in W:
            tys = [o[1].get(v) for o in outs]
            if any(t is None for t in tys):
                continue
            if all(t == tys[0] for t in tys):
                unified[v] = tys[0]
            elif set(tys) <= {'fvec', 'fmat', 'eparr'}:
                unified[v] = 'eparr'
        out = [v for v in W if v in unified]
        if not out:
            fail(node, 'an if that changes nothing visible')

        def fin():
            parts = [self.coerce(v, self.env[v], unified[v]) for v in out]
            t = '(' + ', '.join(parts) + ')' if len(parts) != 1 else parts[0]
            return 'ROk ' + t if mon else t
        outs = run(fin)
        self.restore(snap)
        for v in W:
            if v in unified:
                self.bind(node, v, unified[v])
            else:
                self.env.pop(v, None)
                self.opaque[v] = 'not assigned with one type in every branch of the if at line %d' % node.lineno
        body = compose([o[0] for o in outs], ind)
        if mon:
            return '%srbind (\n%s) (fun %s =>\n' % (ind, body, self.pat(out)) + self.seq(rest, tail, ind) + ')'
        return '%slet %s :=\n%s in\n' % (ind, self.pat(out), body) + self.seq(rest, tail, ind)

    def ifstmt(self, s, rest, tail, ind):
        t = s.test
        body, orelse = list(s.body), list(s.orelse)
        # ---- pinned to None
        if isinstance(t, ast.Name) and self.env.get(t.id) == 'pinned_none':
            if orelse:
                fail(s, 'else branch of a test on a pinned parameter')
            return '%s(* %s = None (pinned default): `if %s:` not taken *)\n' % (ind, t.id, t.id) + self.seq(rest, tail, ind)
        b = {}
        isn = match(PAT['is_none'], t, b)
        isnn = (not isn) and match(PAT['is_not_none'], t, b)
        if isn or isnn:
            x = b['F_x']
            none_arm, some_arm = (body, orelse) if isn else (orelse, body)
            if self.env.get(x) == 'pinned_none':
                return '%s(* %s = None (pinned default) *)\n' % (ind, x) + self.seq(none_arm + rest, tail, ind)
            tx = self.env.get(x)
            base = {'optQ': 'Q', 'optnat': 'nat'}.get(tx)
            if base is None:
                fail(s, '`is None` test on %s of type %s' % (x, tx))

            def enter_none():
                self.env.pop(x, None)
                self.opaque[x] = 'it is None here'

            def enter_some():
                self.env[x] = base

            def compose(tx_, ind_):
                return '%s  match %s with\n%s  | None =>\n%s\n%s  | Some %s =>\n%s\n%s  end' % (ind_, x, ind_, tx_[0], ind_, x, tx_[1], ind_)
            return self.run_arms(s, [(enter_none, none_arm), (enter_some, some_arm)], compose, rest, tail, ind)
        b = {}
        if match(PAT['opt_and'], t, b):
            x = b['F_x']
            tx = self.env.get(x)
            base = {'optQ': 'Q', 'optnat': 'nat'}.get(tx)
            if base is None:
                fail(s, '`is not None and` test on %s of type %s' % (x, tx))
            snap = self.snapshot()
            self.env[x] = base
            r = self.exAs(b['E_r'], ('B',))
            if self.pre:
                fail(s, 'a condition that can raise')
            self.restore(snap)

            def enter_none():
                self.env.pop(x, None)
                self.opaque[x] = 'it is None here'

            def enter_some():
                self.env[x] = base

            def compose(tx_, ind_):
                return ('%s  match %s with\n%s  | Some %s =>\n%s    if %s then\n%s\n%s    else\n%s\n%s  | None =>\n%s\n%s  end'
                        % (ind_, x, ind_, x, ind_, r, tx_[0], ind_, tx_[1], ind_, tx_[2], ind_))
            return self.run_arms(s, [(enter_some, body), (enter_some, orelse), (enter_none, orelse)], compose, rest, tail, ind)
        b = {}
        if match(PAT['isscalar'], t, b):
            x = b['F_x']
            if self.env.get(x) != 'noisein':
                fail(s, 'np.isscalar on %s' % x)

            def enter_s():
                self.env[x] = 'F'

            def enter_t():
                self.env[x] = 'noisetab'

            def compose(tx_, ind_):
                return '%s  match %s with\n%s  | NIScalar %s =>\n%s\n%s  | NITable %s =>\n%s\n%s  end' % (ind_, x, ind_, x, tx_[0], ind_, x, tx_[1], ind_)
            return self.run_arms(s, [(enter_s, body), (enter_t, orelse)], compose, rest, tail, ind)
        b = {}
        if match(PAT['ndim1'], t, b):
            x = b['F_x']
            if self.env.get(x) != 'eparr':
                fail(s, '.ndim test on %s of type %s' % (x, self.env.get(x)))
            two = orelse
            if len(orelse) == 1 and isinstance(orelse[0], ast.If):
                b2 = {}
                if match(PAT['ndim2'], orelse[0].test, b2) and b2['F_x'] == x and not orelse[0].orelse:
                    two = list(orelse[0].body)      # a float array has one or two axes here: exhaustive
                else:
                    fail(s, 'unsupported elif after a .ndim test')

            def enter_1():
                self.env[x] = 'fvec'

            def enter_2():
                self.env[x] = 'fmat'

            def compose(tx_, ind_):
                return '%s  match %s with\n%s  | Ep1 %s =>\n%s\n%s  | Ep2 %s =>\n%s\n%s  end' % (ind_, x, ind_, x, tx_[0], ind_, x, tx_[1], ind_)
            return self.run_arms(s, [(enter_1, body), (enter_2, two)], compose, rest, tail, ind)
        b = {}
        if match(PAT['has_frame_no'], t, b):
            x = b['F_x']
            if self.env.get(x) == 'pframe':
                scrut = '(pf_no %s)' % x
            elif self.env.get(x + '__frame_no') == 'optnat':
                scrut = x + '__frame_no'
            else:
                fail(s, 'frame_no attribute of %s' % x)
            v = x + '__no'
            key = ast.dump(P('%s.frame_no' % x))

            def enter_some():
                self.narrow[key] = (v, 'nat', {x})

            def enter_none():
                pass

            def compose(tx_, ind_):
                return '%s  match %s with\n%s  | Some %s =>\n%s\n%s  | None =>\n%s\n%s  end' % (ind_, scrut, ind_, v, tx_[0], ind_, tx_[1], ind_)
            return self.run_arms(s, [(enter_some, body), (enter_none, orelse)], compose, rest, tail, ind)
        c = self.exAs(t, ('B',))
        if self.pre:
            fail(s, 'a condition that can raise')

        def compose(tx_, ind_):
            return '%s  if %s then\n%s\n%s  else\n%s' % (ind_, c, tx_[0], ind_, tx_[1])
        return self.run_arms(s, [(lambda: None, body), (lambda: None, orelse)], compose, rest, tail, ind)

    # -------------------------------------------------------------- for
    def forstmt(self, s, rest, tail, ind):
        if s.orelse or not self.monadic:
            fail(s, 'unsupported for loop')
        tg = s.target
        if not (isinstance(tg, ast.Tuple) and len(tg.elts) == 2 and all(isinstance(x, ast.Name) for x in tg.elts)):
            fail(s, 'unsupported loop target')
        i, f = tg.elts[0].id, tg.elts[1].id
        it = self.exAs(s.iter, ('items',))
        self.check_no_exit(s.body)
        S = [v for v in assigned(s.body) if v in self.env and v not in (i, f)]
        later = {n.id for st in rest for n in ast.walk(st) if isinstance(n, ast.Name) and isinstance(n.ctx, ast.Load)}
        if i in later:
            fail(s, 'loop counter read after the loop')
        persist = [f] if f in later else []
        free = []
        for st in s.body:
            for n in ast.walk(st):
                if isinstance(n, ast.Name) and isinstance(n.ctx, ast.Load) and n.id in self.env and n.id not in S \
                        and n.id not in (i, f) and n.id not in free and self.env[n.id] != 'pinned_none':
                    free.append(n.id)
        self.nloops[0] += 1
        lname = 'py_%s_loop%d' % (self.name, self.nloops[0])
        child = Fn(lname, s.lineno, s.body, [(v, self.env[v]) for v in free + S], None, True, '{F R : Type} ', parent=self)
        for v in self.env:
            if self.env[v] == 'pinned_none':
                child.env[v] = 'pinned_none'
        child.bind(s, i, 'nat')
        child.bind(s, f, 'bt')
        child.name = self.name

        def fin():
            return 'ROk ' + child.tup(S + ['(Some %s)' % p for p in persist])
        body = child.seq(list(s.body), fin, '  ')
        st_ty = ' * '.join([COQTY[self.env[v]] for v in S] + ['option (%s)' % COQTY['bt'] for _ in persist])
        text = '(* line %d: %s *)\n' % (s.lineno, cmt(ast.unparse(s).split('\n')[0]))
        text += 'Definition %s {F R : Type} %s(st : %s) (it : nat * btable R) : res (%s) :=\n' % (
            lname, ''.join('(%s : %s) ' % (v, COQTY[self.env[v]]) for v in free), st_ty, st_ty)
        text += "  let %s := st in\n  let '(%s, %s) := it in\n%s.\n" % (child.pat(S + ['_' for _ in persist]), i, f, body)
        self.aux.append(text)
        head, close = self.flush(ind)
        init = self.tup(S + ['None' for _ in persist])
        for v in assigned(s.body) + [i, f]:
            if v not in S:
                self.env.pop(v, None)
                self.opaque[v] = 'bound inside the loop at line %d' % s.lineno
        for p in persist:
            self.opaque.pop(p, None)
            self.env[p] = 'optbt'
            self.maybe[p] = 'bt'
        return head + '%srbind (foldM (%s %s) %s %s) (fun %s =>\n' % (ind, lname, ' '.join(free), it, init, self.pat(S + persist)) + \
            self.seq(rest, tail, ind) + ')' + close

    # -------------------------------------------------------------- function
    def translate(self, coqname):
        def closes(stmts):
            if not stmts:
                return False
            l = stmts[-1]
            if isinstance(l, (ast.Return, ast.Raise)):
                return True
            return isinstance(l, ast.If) and closes(l.body) and closes(l.orelse)
        if not closes(self.body):
            fail(self.body[-1] if self.body else None, 'the translated region does not end with a return')
        main = self.seq(list(self.body), self.no_tail(self.body[-1]), '  ')
        binders = self.binders + ''.join('(%s : %s) ' % (n, COQTY[t]) for n, t in self.params if COQTY[t] is not None)
        rty = COQTY[self.ret]
        if self.monadic:
            rty = 'res (%s)' % rty
        out = '(* ===== %s (line %d) ===== *)\n' % (self.name, self.lineno)
        out += ''.join(a + '\n' for a in self.aux)
        out += 'Definition %s %s: %s :=\n%s.\n' % (coqname, binders, rty, main)
        return out


def check_sig(fdef, names, defaults, kwarg=None, decorators=()):
    a = fdef.args
    got = [x.arg for x in a.args]
    if got != names or a.vararg or a.kwonlyargs or getattr(a, 'posonlyargs', []) or (a.kwarg.arg if a.kwarg else None) != kwarg:
        fail(fdef, 'signature of %s changed: %s' % (fdef.name, ast.unparse(a)))
    if [ast.unparse(d) for d in a.defaults] != defaults:
        fail(fdef, 'defaults of %s changed: %s' % (fdef.name, [ast.unparse(d) for d in a.defaults]))
    if tuple(ast.unparse(d) for d in fdef.decorator_list) != tuple(decorators):
        fail(fdef, 'decorators of %s changed' % fdef.name)


def module_info(path, what):
    tree = ast.parse(open(path).read())
    defs, imports = {}, {}
    for n in tree.body:
        if isinstance(n, ast.FunctionDef):
            if n.name in defs:
                fail(n, '%s: function %s defined twice' % (what, n.name))
            defs[n.name] = n
        elif isinstance(n, ast.ImportFrom):
            for al in n.names:
                k = al.asname or al.name
                if k in imports:
                    fail(n, '%s: name %s imported twice' % (what, k))
                imports[k] = (('.' * n.level) + (n.module or ''), al.name)
        elif isinstance(n, ast.Import):
            for al in n.names:
                k = al.asname or al.name
                if k in imports:
                    fail(n, '%s: name %s imported twice' % (what, k))
                imports[k] = (al.name, None)
    # no other binding of the function names / imported names anywhere in the module
    names = set(defs) | set(imports)
    for n in tree.body:
        if isinstance(n, (ast.FunctionDef, ast.Import, ast.ImportFrom)):
            continue
        for k in ast.walk(n):
            if isinstance(k, ast.Name) and isinstance(k.ctx, (ast.Store, ast.Del)) and k.id in names:
                fail(k, '%s: %s is rebound at module level' % (what, k.id))
            if isinstance(k, (ast.FunctionDef, ast.ClassDef)) and k.name in names:
                fail(k, '%s: %s is defined a second time' % (what, k.name))
    return tree, defs, imports


def want_imports(imports, want, what):
    for k, v in want.items():
        if imports.get(k) != v:
            raise TranslationError('%s no longer binds %s to %s%s' % (what, k, v[0], '.' + v[1] if v[1] else ''))


def no_local_shadow(fdef, names, what):
    """the global names the translation relies on are not rebound inside the function"""
    for k in ast.walk(fdef):
        if isinstance(k, ast.Name) and isinstance(k.ctx, (ast.Store, ast.Del)) and k.id in names:
            fail(k, '%s: the name %s is rebound locally' % (what, k.id))
        if isinstance(k, ast.arg) and k.arg in names:
            fail(k, '%s: the name %s is a parameter' % (what, k.arg))


REFINE_CALL = ("refined_coords = refine_com(raw_image, image, radius, coords, max_iterations=max_iterations, "
               "engine=engine, characterize=characterize)")
HEAD_PINS = [
    "raw_image = np.squeeze(raw_image)",
    "shape = raw_image.shape",
    "ndim = len(shape)",
    "radius = tuple([x // 2 for x in diameter])",
    "if separation is None:\n    separation = tuple([x + 1 for x in diameter])\nelse:\n    separation = validate_tuple(separation, ndim)",
    "noise_size = validate_tuple(noise_size, ndim)",
    "if minmass is None:\n    minmass = 0",
    "scale_factor, image = convert_to_int(image, dtype)",
    "pos_columns = default_pos_columns(image.ndim)",
]
HEAD_STORES = {'separation': 2, 'pos_columns': 1, 'scale_factor': 1, 'minmass': 1, 'maxsize': 0, 'topn': 0, 'characterize': 0,
               'radius': 1, 'ndim': 1, 'noise_size': 1, 'raw_image': 2, 'image': 4, 'shape': 1, 'refined_coords': 0}
LOCATE_NAMES = ['raw_image', 'diameter', 'minmass', 'maxsize', 'separation', 'noise_size', 'smoothing_size', 'threshold', 'invert',
                'percentile', 'topn', 'preprocess', 'max_iterations', 'filter_before', 'filter_after', 'characterize', 'engine']
LOCATE_DEFAULTS = ['None', 'None', 'None', '1', 'None', 'None', 'False', '64', 'None', 'True', '10', 'None', 'None', 'True', "'auto'"]

HEADER = """(* GENERATED by tools/py2coq_tail.py from trackpy/uncertainty.py and trackpy/feature.py -- do not edit.
   measure_noise, _root_sum_x_squared, _static_error, static_error (uncertainty.py), the tail of
   locate after the refine_com call and batch (feature.py), statement by statement, as Gallina
   over Model/PyTail.v (vocabulary, list of the numpy / scipy / pandas primitives, conventions;
   see also the translator's docstring).
   Extra parameters:  sqrtf                 : np.sqrt
                      diameter_is_iterable  : hasattr(diameter, '__iter__') in static_error
                      raw_image__frame_no   : the frame_no attribute of locate's raw_image (None: absent / None)
                      F R KW D, locate_rows, kw_mem, kw_set : batch -- frame payload, row type, kwargs and its
                                              operations, locate without the frame tag
   Pinned: static_error(noise_size=1, ndim=2); batch(output=None, meta=None, processes='auto', after_locate=None)
   with output, meta, after_locate fixed to None; the statements of locate's head that define the
   variables read by the tail. *)
From Coq Require Import ZArith QArith List Bool Arith String.
From TP Require Import Model.Dilation Model.COM Model.LocateTail Model.LocatePipe Model.StaticError Model.PyTail.
Import ListNotations.
Open Scope Q_scope.
"""

SQ = '(sqrtf : Q -> Q) '
BATCH_BINDERS = '{F R KW D : Type} (locate_rows : KW -> F -> list R) (kw_mem : string -> KW -> bool) (kw_set : KW -> string -> D -> KW) '


def translate(repo):
    out = [HEADER]
    # ------------------------------------------------------------ uncertainty.py
    upath = os.path.join(repo, 'trackpy', 'uncertainty.py')
    utree, udefs, uimp = module_info(upath, 'uncertainty.py')
    want_imports(uimp, {'np': ('numpy', None), 'binary_dilation': ('scipy.ndimage', 'binary_dilation'),
                        'DataFrame': ('pandas', 'DataFrame'), 'binary_mask': ('.masks', 'binary_mask'),
                        'x_squared_masks': ('.masks', 'x_squared_masks'), 'memo': ('.utils', 'memo'),
                        'validate_tuple': ('.utils', 'validate_tuple')}, 'uncertainty.py')
    for w in ('measure_noise', '_root_sum_x_squared', '_static_error', 'static_error'):
        if w not in udefs:
            raise TranslationError('uncertainty.py: function %s not found' % w)
    uglob = set(uimp) | set(udefs)
    f = udefs['measure_noise']
    check_sig(f, ['image_bp', 'image_raw', 'radius'], [])
    no_local_shadow(f, uglob, 'measure_noise')
    out.append(Fn('measure_noise', f.lineno, f.body, [('image_bp', 'img'), ('image_raw', 'img'), ('radius', 'zvec')], 'FF', False, SQ)
               .translate('py_measure_noise'))
    f = udefs['_root_sum_x_squared']
    check_sig(f, ['radius', 'ndim'], [], decorators=('memo',))
    no_local_shadow(f, uglob, '_root_sum_x_squared')
    out.append(Fn('_root_sum_x_squared', f.lineno, f.body, [('radius', 'zvec'), ('ndim', 'nat')], 'qvec', False, SQ)
               .translate('py__root_sum_x_squared'))
    f = udefs['_static_error']
    check_sig(f, ['mass', 'noise', 'radius', 'noise_size'], [])
    no_local_shadow(f, uglob, '_static_error')
    out.append(Fn('_static_error', f.lineno, f.body, [('mass', 'fvec'), ('noise', 'noise'), ('radius', 'zvec'), ('noise_size', 'qvec')],
                  'eparr', False, SQ).translate('py__static_error'))
    f = udefs['static_error']
    check_sig(f, ['features', 'noise', 'diameter', 'noise_size', 'ndim'], ['1', '2'])
    no_local_shadow(f, uglob, 'static_error')
    out.append(Fn('static_error', f.lineno, f.body, [('features', 'sefeat'), ('noise', 'noisein'), ('diameter', 'zvec'),
                                                     ('noise_size', 'qvec'), ('ndim', 'nat')], 'cols', False,
                  SQ + '(diameter_is_iterable : bool) ').translate('py_static_error'))
    # ------------------------------------------------------------ feature.py
    fpath = os.path.join(repo, 'trackpy', 'feature.py')
    ftree, fdefs, fimp = module_info(fpath, 'feature.py')
    want_imports(fimp, {'np': ('numpy', None), 'pd': ('pandas', None), 'warnings': ('warnings', None), 'partial': ('functools', 'partial'),
                        'where_close': ('.find', 'where_close'), 'refine_com': ('.refine', 'refine_com'),
                        'N_binary_mask': ('.masks', 'N_binary_mask'), '_static_error': ('.uncertainty', '_static_error'),
                        'measure_noise': ('.uncertainty', 'measure_noise'), 'validate_tuple': ('.utils', 'validate_tuple'),
                        'pandas_concat': ('.utils', 'pandas_concat'), 'get_pool': ('.utils', 'get_pool'),
                        'default_pos_columns': ('.utils', 'default_pos_columns'),
                        'convert_to_int': ('.preprocessing', 'convert_to_int')}, 'feature.py')
    if not any(isinstance(n, ast.Assign) and ast.unparse(n) == 'logger = logging.getLogger(__name__)' for n in ftree.body):
        raise TranslationError('feature.py: logger is no longer logging.getLogger(__name__)')
    fglob = set(fimp) | set(fdefs) | {'logger'}
    for w in ('locate', 'batch'):
        if w not in fdefs:
            raise TranslationError('feature.py: function %s not found' % w)
    f = fdefs['locate']
    check_sig(f, LOCATE_NAMES, LOCATE_DEFAULTS)
    no_local_shadow(f, {'where_close', 'refine_com', 'N_binary_mask', 'measure_noise', '_static_error', 'pandas_concat', 'pd', 'np', 'warnings', 'validate_tuple', 'default_pos_columns', 'convert_to_int'}, 'locate')
    idx = [k for k, st in enumerate(f.body) if ast.unparse(st) == REFINE_CALL]
    if len(idx) != 1:
        fail(f, 'locate: the call `%s` is not found exactly once at the top level' % REFINE_CALL)
    head, tailb = f.body[:idx[0]], f.body[idx[0] + 1:]
    heads = [ast.unparse(st) for st in head]
    pos = -1
    for pin in HEAD_PINS:
        if heads.count(pin) != 1:
            fail(f, 'locate: the head statement `%s` (it defines a variable the tail reads) is not found exactly once' % pin.split('\n')[0])
        if heads.index(pin) < pos:
            fail(f, 'locate: the head statements that define the variables of the tail changed order')
        pos = heads.index(pin)
    stores = {}
    for st in head:
        for k in ast.walk(st):
            if isinstance(k, ast.Name) and isinstance(k.ctx, (ast.Store, ast.Del)):
                stores[k.id] = stores.get(k.id, 0) + 1
            if isinstance(k, (ast.Return,)):
                fail(k, 'locate: return in the head')
    for v, cnt in HEAD_STORES.items():
        if stores.get(v, 0) != cnt:
            fail(f, 'locate: %s is assigned %d times before the refine_com call (expected %d)' % (v, stores.get(v, 0), cnt))
    out.append(Fn('locate', tailb[0].lineno if tailb else f.lineno, tailb,
                  [('refined_coords', 'df'), ('separation', 'qvec'), ('pos_columns', 'strs'), ('scale_factor', 'Q'), ('minmass', 'Q'),
                   ('maxsize', 'optQ'), ('topn', 'optnat'), ('characterize', 'B'), ('image', 'img'), ('raw_image', 'img'),
                   ('raw_image__frame_no', 'optnat'), ('radius', 'zvec'), ('ndim', 'nat'), ('noise_size', 'qvec')],
                  'df', True, SQ).translate('py_locate_tail'))
    f = fdefs['batch']
    check_sig(f, ['frames', 'diameter', 'output', 'meta', 'processes', 'after_locate'], ['None', 'None', "'auto'", 'None'], kwarg='kwargs')
    no_local_shadow(f, {'locate', 'partial', 'get_pool', 'pandas_concat', 'pd', 'np', 'warnings', 'logger', 'enumerate', 'len', 'hasattr', 'list'}, 'batch')
    out.append(Fn('batch', f.lineno, f.body, [('frames', 'frames'), ('diameter', 'dia'), ('output', 'pinned_none'), ('meta', 'pinned_none'),
                                              ('processes', 'poolcfg'), ('after_locate', 'pinned_none'), ('kwargs', 'kw')],
                  'rows', True, BATCH_BINDERS).translate('py_batch'))
    return '\n'.join(out)


def main():
    ap = argparse.ArgumentParser()
    ap.add_argument('--repo', default=os.environ.get('TRACKPY_REPO', '/repo'))
    ap.add_argument('--out', default=os.path.join(os.path.dirname(os.path.dirname(os.path.abspath(__file__))), 'coq', 'Gen', 'tail.v'))
    ap.add_argument('--stdout', action='store_true')
    a = ap.parse_args()
    try:
        text = translate(a.repo)
    except TranslationError as e:
        sys.stderr.write('py2coq_tail: TRANSLATION ERROR: %s\n' % e)
        sys.exit(2)
    except (OSError, SyntaxError) as e:
        sys.stderr.write('py2coq_tail: TRANSLATION ERROR: cannot read / parse the source: %s\n' % e)
        sys.exit(2)
    except Exception as e:      # fail closed on anything unforeseen
        sys.stderr.write('py2coq_tail: TRANSLATION ERROR: internal error %r\n' % (e,))
        sys.exit(2)
    if a.stdout:
        sys.stdout.write(text)
        return
    old = open(a.out).read() if os.path.exists(a.out) else None
    if old != text:
        os.makedirs(os.path.dirname(a.out), exist_ok=True)
        tmp = a.out + '.tmp%d' % os.getpid()
        with open(tmp, 'w') as f:
            f.write(text)
        os.replace(tmp, a.out)
        print('py2coq_tail: wrote %s (changed)' % a.out)
    else:
        print('py2coq_tail: %s up to date' % a.out)


if __name__ == '__main__':
    main()
