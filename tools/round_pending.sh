#!/bin/bash
# run tools/round.sh for every finished seeded change under <base> that is not yet in the round log
base=$1; log=/root/scratch/round_$(basename $base).log; touch $log
for d in $base/*.out; do id=$(basename $d .out); [ -f $d/patch.diff ] && [ -f $d/meta.json ] && [ -f $d/demo.py ] || continue
  grep -q "^== $id " $log && continue
  /verif/tools/round.sh $base $id >> $log 2>&1
done
