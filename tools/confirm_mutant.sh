#!/bin/bash
# tools/confirm_mutant.sh <id>  : confirm a seeded change from /tmp/mut/<id>.out in a scratch worktree of /repo:
# demo passes on pristine tree, fails with change; existing suite keeps its 643 passing tests.
id=$1; BASE=${2:-/tmp/mut}
OUT=$BASE/$id.out
W=/tmp/confirm-$(basename $BASE)-$id
rm -rf $W; git -C /repo worktree add -q --detach $W HEAD || exit 2
res="{\"id\":\"$id\""
cd $W
PYTHONPATH=$W /venv/bin/python -W ignore $OUT/demo.py $W > $W.demo0.log 2>&1; res="$res,\"demo_pristine_exit\":$?"
if git apply $OUT/patch.diff; then res="$res,\"patch_applies\":true"; else res="$res,\"patch_applies\":false"; fi
PYTHONPATH=$W /venv/bin/python -W ignore $OUT/demo.py $W > $W.demo1.log 2>&1; res="$res,\"demo_mutant_exit\":$?"
/venv/bin/python -m pytest -q -p no:cacheprovider --timeout=900 --continue-on-collection-errors --junitxml=$W.junit.xml > $W.pytest.log 2>&1
cmp=$(python3 /verif/tools/compare_baseline.py $W.junit.xml | head -1)
res="$res,\"suite\":\"$cmp\"}"
echo "$res" | tee $BASE/$id.confirm.json
cd /; git -C /repo worktree remove --force $W; rm -f $W.demo0.log $W.demo1.log $W.junit.xml $W.pytest.log
