#!/usr/bin/env python3
"""Fail-closed translator (route T) for C13.

Reads  $TRACKPY_REPO/trackpy/linking/partial.py  (default /repo) with the Python
`ast` module and regenerates  /verif/coq/Gen/partial.v :

    reconnect_traj_patch     the whole function: both boundary loops, claimed,
                             reborn, remaining, used, the fresh-id generator, the
                             two final relabellings
    link_partial             full_range, the clamping of link_range, the copy of
                             the labels, the loop over link_iter with its mask
                             assignment, the call of reconnect_traj_patch

as shallow, state-passing Gallina over the vocabulary of coq/Model/PyPartial.v.
Proofs/Partial2.v proves the generated functions equal to the hand-written
model (Model/Partial.v) and carries the C13 theorems over to them.

Embedding
  * a Python variable is a let-bound Coq variable of the same name; every
    assignment `x = e`, `d[k] = e`, `x -= e`, `l.append(e)`, `f.loc[..] = e`
    rebinds the variable it changes; a variable has one type for its whole life;
  * a function that mutates its DataFrame argument in place returns the table;
  * `for` loops are lambda-lifted: `<fn>_loop<k> <variables read> st it`, where
    st is the tuple of the variables the body assigns (that exist before the
    loop) and it the item; the loop is `fold_left` (pure body) or `foldM` (body
    that can raise); `if c: continue` is `if c then <state> else ..`;
  * exceptions: `presult` (Model/Partial.v); `assert c` raises EAssert;
  * an `if` that is not the last statement of its block yields the tuple of the
    variables it assigns (that exist before it); a variable first assigned in a
    branch is not visible after the `if` (reading it: translation error);
  * Python sets are duplicate-free lists; the only iteration over a set,
    `zip(remaining, gen_ids)`, iterates `s_iter ord remaining`: the iteration
    order `ord` is a PARAMETER of the generated functions;
  * `d[k]` is read only under the test `k in d` (checked; else error).

Primitives (not plain Python; meaning fixed in Model/PyPartial.v; each is matched
as an exact syntactic pattern, anything else is an error):
    F[t_column] == e | >= e | < e ; m & m ; ~m                mask_eq mask_ge mask_lt mask_and mask_not
    F.loc[m, 'particle'] , ... .values                       loc_particle
    F.loc[m, ['particle', <old column>]].values              loc_pairs
    F[<old column>].values                                   col_old
    series.replace(dict)                                     series_replace
    F.loc[m, 'particle'] = values                            loc_set_particle
    int(F[t_column].min()) , int(F[t_column].max())          col_min col_max
    pandas_sort(F, t_column, inplace=True)                   sort_rows
    F['_old_particle'] = F['particle'].copy()                copy_particle_to_old, flag F__has_old := true
    '_old_particle' in F ; F.drop('_old_particle', axis=1, inplace=True)
                                                             the flag F__has_old (false on entry: the
                                                             caller's table has no such column)
    'particle' in F                                          true (the model's tables have the column)
    F['particle'] = c                                        fill_particle
    F = F.copy()                                             nothing (value semantics)
    range(a, b)                                              Zrange
    coords_from_df_partial(F, pos_columns, t_column, frames) + for i, ids in link_iter(<it>, search_range, **kwargs)
                                                             link_iter_frames linker frames (`linker` is a
                                                             parameter: the ids link_iter yields per frame);
                                                             the text of coords_from_df_partial is pinned
    itertools.filterfalse(lambda x: x in S, itertools.count())    g_new S ; next(g) = g_next g
    `x is None` for an integer x                             false (link_range entries are integers)
Statements of link_partial that do not touch labels are dropped; they are listed
verbatim in SKIP and nothing translated may read a name they define.

Anything outside this subset: exit status 2, nothing written (the check treats
that like a broken proof).

Usage:  py2coq_partial.py [--repo /repo] [--out /verif/coq/Gen/partial.v] [--stdout]
"""
import ast, sys, os, argparse


class TranslationError(Exception):
    pass


def fail(node, msg):
    raise TranslationError('line %s: %s' % (getattr(node, 'lineno', '?'), msg))


COQTY = {'Z': 'Z', 'B': 'bool', 'dict': 'dict', 'set': 'pyset', 'pairs': 'list (Z * Z)', 'zlist': 'list Z',
         'mask': 'mask', 'table': 'table', 'gen': 'gen', 'zpair': 'Z * Z', 'range': 'list Z'}

SKIP = [
    "if pos_columns is None:\n    pos_columns = guess_pos_columns(f)",
    "ndim = len(pos_columns)",
    "search_range = validate_tuple(search_range, ndim)",
    "if kwargs.get('memory', 0) > 0:\n    warnings.warn('Particles are not memorized over patch edges.')",
    "if not np.issubdtype(f[t_column].dtype, np.integer):\n    f[t_column] = f[t_column].astype(np.integer)",
]
COORDS_PINNED = ("def coords_from_df_partial(df, pos_columns, t_column, link_frame_nos):\n"
                 "    for frame_no in link_frame_nos:\n"
                 "        yield (frame_no, df.loc[df[t_column] == frame_no, pos_columns].values)")


# ---------------------------------------------------------------------------
# syntactic patterns
# ---------------------------------------------------------------------------
def P(src):
    return ast.parse(src, mode='eval').body


def match(p, n, b):
    """structural match of pattern p against node n; E_x binds an expression, F_x a Name,
    TCOL is the name t_column, OLDCOL the old-label column"""
    if isinstance(p, ast.Name):
        if p.id.startswith('E_'):
            if p.id in b:
                return ast.dump(b[p.id]) == ast.dump(n)
            b[p.id] = n
            return True
        if p.id.startswith('F_'):
            if not isinstance(n, ast.Name):
                return False
            if p.id in b:
                return b[p.id] == n.id
            b[p.id] = n.id
            return True
        if p.id == 'TCOL':
            return isinstance(n, ast.Name) and n.id == 't_column'
        if p.id == 'OLDCOL':
            return (isinstance(n, ast.Name) and n.id == 'old_particle_column') or \
                   (isinstance(n, ast.Constant) and n.value == '_old_particle')
        return isinstance(n, ast.Name) and n.id == p.id
    if type(p) is not type(n):
        return False
    for fld in p._fields:
        if fld in ('ctx', 'type_comment', 'kind'):
            continue
        pv, nv = getattr(p, fld, None), getattr(n, fld, None)
        if isinstance(pv, list):
            if not isinstance(nv, list) or len(pv) != len(nv):
                return False
            for x, y in zip(pv, nv):
                if isinstance(x, ast.AST):
                    if not match(x, y, b):
                        return False
                elif x != y:
                    return False
        elif isinstance(pv, ast.AST):
            if not isinstance(nv, ast.AST) or not match(pv, nv, b):
                return False
        elif pv != nv:
            return False
    return True


PAT = {k: P(v) for k, v in {
    'loc_pairs': "F_f.loc[E_m, ['particle', OLDCOL]].values",
    'loc_particle_values': "F_f.loc[E_m, 'particle'].values",
    'loc_particle': "F_f.loc[E_m, 'particle']",
    'col_old': "F_f[OLDCOL].values",
    'mask_eq': "F_f[TCOL] == E_x",
    'mask_ge': "F_f[TCOL] >= E_x",
    'mask_lt': "F_f[TCOL] < E_x",
    'replace': "E_s.replace(E_d)",
    'col_min': "int(F_f[TCOL].min())",
    'col_max': "int(F_f[TCOL].max())",
    'gen': "itertools.filterfalse(lambda x: x in F_u, itertools.count())",
    'next': "next(F_g)",
    'has_old': "'_old_particle' in F_f",
    'has_particle': "'particle' in F_f",
    'not_has_particle': "not 'particle' in F_f",
    'dict_values': "F_d.values()",
    'zip': "zip(F_s, F_g)",
    'link_iter': "link_iter(F_c, search_range, **kwargs)",
    'coords': "coords_from_df_partial(F_f, pos_columns, t_column, F_r)",
    'copy': "F_f.copy()",
    'old_copy': "F_f['particle'].copy()",
    'sort': "pandas_sort(F_f, t_column, inplace=True)",
    'drop': "F_f.drop('_old_particle', axis=1, inplace=True)",
    'reconnect': "reconnect_traj_patch(F_f, E_r, '_old_particle', t_column)",
    'append': "F_l.append(E_x)",
    't_loc': "F_f.loc[E_m, 'particle']",
    't_oldcol': "F_f['_old_particle']",
    't_partcol': "F_f['particle']",
}.items()}


def cmt(text):
    """text safe inside a Coq comment"""
    return text.replace('"', "'").replace('(*', '( *').replace('*)', '* )')


def names_in(node):
    return {n.id for n in ast.walk(node) if isinstance(n, ast.Name)}


def mentions_old_flag(node):
    return any(isinstance(n, ast.Constant) and n.value == '_old_particle' for n in ast.walk(node))


def is_monadic(stmts):
    for s in stmts:
        if isinstance(s, ast.Assert):
            return True
        for n in ast.walk(s):
            if isinstance(n, ast.Call) and isinstance(n.func, ast.Name) and n.func.id in ('next', 'zip', 'link_iter', 'reconnect_traj_patch', 'int'):
                return True
            if isinstance(n, ast.Assign):
                for t in n.targets:
                    if match(PAT['t_loc'], t, {}):
                        return True
    return False


def assigned(stmts):
    """variables (re)bound by a statement list, loop targets excluded"""
    out = []

    def add(x):
        if x not in out:
            out.append(x)

    def target(t):
        if isinstance(t, ast.Name):
            add(t.id)
        elif isinstance(t, ast.Tuple):
            for x in t.elts:
                target(x)
        elif isinstance(t, ast.Subscript):
            b = {}
            if match(PAT['t_loc'], t, b) or match(PAT['t_partcol'], t, b):
                add(b['F_f'])
            elif match(PAT['t_oldcol'], t, b):
                add(b['F_f']); add(b['F_f'] + '__has_old')
            elif isinstance(t.value, ast.Name):
                add(t.value.id)
            else:
                fail(t, 'unsupported assignment target')
        else:
            fail(t, 'unsupported assignment target')

    def walk(ss):
        for s in ss:
            for n in ast.walk(s):
                b = {}
                if isinstance(n, ast.Call) and match(PAT['next'], n, b):
                    add(b['F_g'])
                b = {}
                if isinstance(n, ast.Call) and match(PAT['zip'], n, b):
                    add(b['F_g'])
            if isinstance(s, ast.Assign):
                for t in s.targets:
                    target(t)
            elif isinstance(s, ast.AugAssign):
                target(s.target)
            elif isinstance(s, ast.Expr) and isinstance(s.value, ast.Call):
                b = {}
                if match(PAT['append'], s.value, b):
                    add(b['F_l'])
                elif match(PAT['sort'], s.value, b) or match(PAT['reconnect'], s.value, b):
                    add(b['F_f'])
                elif match(PAT['drop'], s.value, b):
                    add(b['F_f'] + '__has_old')
            elif isinstance(s, ast.If):
                walk(s.body); walk(s.orelse)
            elif isinstance(s, ast.For):
                walk(s.body)
    walk(stmts)
    return out


class Fn:
    def __init__(self, fdef, params, extra):
        """params: list of (python name, type or None) -- None: not a Coq value (column names,
        arguments that only reach the linker); extra: Coq-only leading parameters [(name, coq type)]"""
        self.f = fdef
        self.name = fdef.name
        self.extra = extra
        self.env = {}
        self.order = []
        self.opaque = set()
        self.defs = []
        self.nloop = 0
        self.ntmp = 0
        self.pre = []            # pending monadic bindings of the statement being translated
        self.guards = []         # (dict, key) pairs known to satisfy `key in dict`
        self.coords = {}         # coords_iter variable -> frames variable
        self.uses_ord = False
        self.types_seen = {}
        for n, t in params:
            if t is None:
                self.opaque.add(n)
            else:
                self.bind(fdef, n, t)
        self.params = [(n, t) for n, t in params if t is not None]

    # -------------------------------------------------------------- environment
    def bind(self, node, name, ty):
        if name in self.opaque:
            fail(node, '%s is not a value of the model and cannot be assigned' % name)
        old = self.env.get(name)
        if old is None and name in self.order and self.types_seen.get(name, ty) != ty:
            fail(node, 'variable %s changes type' % name)
        if old is not None and old != ty:
            fail(node, 'variable %s changes type from %s to %s' % (name, old, ty))
        self.env[name] = ty
        if name not in self.order:
            self.order.append(name)
            self.types_seen[name] = ty
        self.guards = [g for g in self.guards if name not in g]

    def tmp(self):
        self.ntmp += 1
        return 'tmp%d' % self.ntmp

    def var(self, node, name, want=None):
        if name in self.opaque:
            fail(node, 'name %s is outside the translated subset here' % name)
        if name not in self.env:
            fail(node, 'name %s is read where it is not bound' % name)
        if want is not None and self.env[name] != want:
            fail(node, '%s has type %s, expected %s' % (name, self.env[name], want))
        return name, self.env[name]

    # -------------------------------------------------------------- expressions
    def exT(self, e, want):
        s, t = self.ex(e)
        if t != want:
            fail(e, 'expression `%s` has type %s, expected %s' % (ast.unparse(e), t, want))
        return s

    def ex(self, e):
        b = {}
        if match(PAT['loc_pairs'], e, b):
            f, _ = self.var(e, b['F_f'], 'table')
            return '(loc_pairs %s %s)' % (f, self.exT(b['E_m'], 'mask')), 'pairs'
        b = {}
        if match(PAT['loc_particle_values'], e, b) or match(PAT['loc_particle'], e, b):
            f, _ = self.var(e, b['F_f'], 'table')
            return '(loc_particle %s %s)' % (f, self.exT(b['E_m'], 'mask')), 'zlist'
        b = {}
        if match(PAT['col_old'], e, b):
            f, _ = self.var(e, b['F_f'], 'table')
            return '(col_old %s)' % f, 'zlist'
        for k in ('mask_eq', 'mask_ge', 'mask_lt'):
            b = {}
            if match(PAT[k], e, b):
                f, _ = self.var(e, b['F_f'], 'table')
                return '(%s %s %s)' % (k, f, self.exT(b['E_x'], 'Z')), 'mask'
        for k in ('col_min', 'col_max'):
            b = {}
            if match(PAT[k], e, b):
                f, _ = self.var(e, b['F_f'], 'table')
                t = self.tmp()
                self.pre.append((t, '%s %s' % (k, f)))
                return t, 'Z'
        b = {}
        if match(PAT['gen'], e, b):
            u, _ = self.var(e, b['F_u'], 'set')
            return '(g_new %s)' % u, 'gen'
        b = {}
        if match(PAT['next'], e, b):
            g, _ = self.var(e, b['F_g'], 'gen')
            t = self.tmp()
            self.pre.append(("'(%s, %s)" % (t, g), 'g_next %s' % g))
            return t, 'Z'
        b = {}
        if match(PAT['has_old'], e, b):
            f, _ = self.var(e, b['F_f'], 'table')
            return self.var(e, f + '__has_old', 'B')[0], 'B'
        b = {}
        if match(PAT['not_has_particle'], e, b):
            self.var(e, b['F_f'], 'table')
            return '(negb true)', 'B'
        b = {}
        if match(PAT['has_particle'], e, b):
            self.var(e, b['F_f'], 'table')
            return 'true', 'B'
        b = {}
        if match(PAT['replace'], e, b):
            s = self.exT(b['E_s'], 'zlist')
            d = self.exT(b['E_d'], 'dict')
            return '(series_replace %s %s)' % (d, s), 'zlist'
        if isinstance(e, ast.Name):
            return self.var(e, e.id)
        if isinstance(e, ast.Constant):
            v = e.value
            if isinstance(v, bool) or not isinstance(v, int):
                fail(e, 'unsupported constant %r' % (v,))
            return ('%d' % v if v >= 0 else '(%d)' % v), 'Z'
        if isinstance(e, ast.List):
            if e.elts:
                fail(e, 'only the empty list literal is supported')
            return '[]', 'pairs'
        if isinstance(e, ast.Tuple):
            if len(e.elts) != 2:
                fail(e, 'only pairs are supported')
            return '(%s, %s)' % (self.exT(e.elts[0], 'Z'), self.exT(e.elts[1], 'Z')), 'zpair'
        if isinstance(e, ast.Subscript):
            if not isinstance(e.value, ast.Name):
                fail(e, 'unsupported subscript')
            n, t = self.var(e, e.value.id)
            if t == 'zpair':
                if isinstance(e.slice, ast.Constant) and e.slice.value in (0, 1) and not isinstance(e.slice.value, bool):
                    return '(%s %s)' % (('fst', 'snd')[e.slice.value], n), 'Z'
                fail(e, 'unsupported index into a pair')
            if t == 'dict':
                if not isinstance(e.slice, ast.Name):
                    fail(e, 'dictionary key must be a variable')
                k = self.exT(e.slice, 'Z')
                if (n, k) not in self.guards:
                    fail(e, '%s[%s] is read outside a test `%s in %s`' % (n, k, k, n))
                return '(d_lookup %s %s)' % (n, k), 'Z'
            fail(e, 'unsupported subscript')
        if isinstance(e, ast.UnaryOp):
            if isinstance(e.op, ast.Invert):
                return '(mask_not %s)' % self.exT(e.operand, 'mask'), 'mask'
            if isinstance(e.op, ast.Not):
                return '(negb %s)' % self.exT(e.operand, 'B'), 'B'
            if isinstance(e.op, ast.USub):
                return '(- %s)' % self.exT(e.operand, 'Z'), 'Z'
            fail(e, 'unsupported unary operator')
        if isinstance(e, ast.BinOp):
            a, ta = self.ex(e.left)
            c, tc = self.ex(e.right)
            if ta != tc:
                fail(e, 'operands of different types')
            if isinstance(e.op, ast.BitAnd) and ta == 'mask':
                return '(mask_and %s %s)' % (a, c), 'mask'
            if isinstance(e.op, ast.BitOr) and ta == 'set':
                return '(s_union %s %s)' % (a, c), 'set'
            if isinstance(e.op, ast.Sub) and ta == 'set':
                return '(s_diff %s %s)' % (a, c), 'set'
            if isinstance(e.op, ast.Sub) and ta == 'Z':
                return '(%s - %s)' % (a, c), 'Z'
            if isinstance(e.op, ast.Add) and ta == 'Z':
                return '(%s + %s)' % (a, c), 'Z'
            fail(e, 'unsupported binary operator')
        if isinstance(e, ast.BoolOp):
            parts = [self.exT(v, 'B') for v in e.values]
            return '(' + (' && ' if isinstance(e.op, ast.And) else ' || ').join(parts) + ')', 'B'
        if isinstance(e, ast.Compare):
            if len(e.ops) != 1:
                fail(e, 'chained comparison')
            op, l, r = e.ops[0], e.left, e.comparators[0]
            if isinstance(op, ast.Is):
                if isinstance(r, ast.Constant) and r.value is None:
                    self.exT(l, 'Z')
                    return 'false', 'B'
                fail(e, 'unsupported `is`')
            if isinstance(op, ast.In):
                x = self.exT(l, 'Z')
                c, tc = self.ex(r)
                if tc == 'dict':
                    return '(d_mem %s %s)' % (c, x), 'B'
                if tc == 'set':
                    return '(s_mem %s %s)' % (x, c), 'B'
                fail(e, '`in` on a %s' % tc)
            if isinstance(l, ast.Call) and isinstance(l.func, ast.Name) and l.func.id == 'len' and len(l.args) == 1 \
                    and not l.keywords and isinstance(r, ast.Constant) and r.value == 0 and not isinstance(r.value, bool):
                s, ts = self.ex(l.args[0])
                if ts not in ('set', 'pairs', 'zlist'):
                    fail(e, 'len of a %s' % ts)
                if isinstance(op, ast.Gt):
                    return '(negb (isnil %s))' % s, 'B'
                if isinstance(op, ast.Eq):
                    return '(isnil %s)' % s, 'B'
                fail(e, 'unsupported comparison of a length')
            a, c = self.exT(l, 'Z'), self.exT(r, 'Z')
            for k, s in ((ast.Lt, '<?'), (ast.Gt, '>?'), (ast.LtE, '<=?'), (ast.GtE, '>=?'), (ast.Eq, '=?')):
                if isinstance(op, k):
                    return '(%s %s %s)' % (a, s, c), 'B'
            fail(e, 'unsupported comparison')
        if isinstance(e, ast.Call):
            if isinstance(e.func, ast.Name) and e.func.id == 'dict' and not e.args and not e.keywords:
                return 'd_empty', 'dict'
            if isinstance(e.func, ast.Name) and e.func.id == 'range' and len(e.args) == 2 and not e.keywords:
                return '(Zrange %s %s)' % (self.exT(e.args[0], 'Z'), self.exT(e.args[1], 'Z')), 'range'
            if isinstance(e.func, ast.Name) and e.func.id == 'set' and len(e.args) == 1 and not e.keywords:
                a = e.args[0]
                b = {}
                if match(PAT['dict_values'], a, b):
                    d, _ = self.var(a, b['F_d'], 'dict')
                    return '(s_of (d_values %s))' % d, 'set'
                if isinstance(a, ast.GeneratorExp):
                    g = a.generators
                    if len(g) == 1 and not g[0].ifs and not g[0].is_async and isinstance(g[0].target, ast.Tuple) \
                            and len(g[0].target.elts) == 2 and all(isinstance(x, ast.Name) for x in g[0].target.elts) \
                            and isinstance(a.elt, ast.Name):
                        n0, n1 = g[0].target.elts[0].id, g[0].target.elts[1].id
                        src = self.exT(g[0].iter, 'pairs')
                        if n0 != n1 and a.elt.id == n0:
                            return '(s_of (map fst %s))' % src, 'set'
                        if n0 != n1 and a.elt.id == n1:
                            return '(s_of (map snd %s))' % src, 'set'
                    fail(a, 'unsupported generator expression')
                s, ts = self.ex(a)
                if ts == 'zlist':
                    return '(s_of %s)' % s, 'set'
                if ts == 'dict':
                    return '(s_of (d_keys %s))' % s, 'set'
                fail(e, 'set() of a %s' % ts)
            fail(e, 'unsupported call `%s`' % ast.unparse(e))
        fail(e, 'unsupported expression `%s`' % ast.unparse(e))

    # -------------------------------------------------------------- helpers for tuples
    def tup(self, names):
        return '(' + ', '.join(names) + ')' if len(names) != 1 else names[0]

    def pat(self, names):
        return "'(" + ', '.join(names) + ')' if len(names) != 1 else names[0]

    def tupty(self, names):
        return ' * '.join(COQTY[self.env[n]] for n in names)

    def flush(self, node, mode, ind, rest):
        """wrap `rest` (a function producing text) in the pending monadic bindings"""
        pre, self.pre = self.pre, []
        if pre and mode != 'res':
            fail(node, 'an operation that can raise occurs in a context translated as pure')
        head, close = '', ''
        for pt, m in pre:
            head += '%sbind (%s) (fun %s =>\n' % (ind, m, pt)
            close += ')'
        return head, close

    # -------------------------------------------------------------- statements
    def seq(self, stmts, tail, mode, ind, loop_tail=None):
        """tail() gives the final expression; loop_tail() the value of `continue`"""
        if not stmts:
            return ind + tail()
        s, rest = stmts[0], stmts[1:]

        def go():
            return self.seq(rest, tail, mode, ind, loop_tail)

        if isinstance(s, ast.Pass):
            return go()
        if isinstance(s, ast.Expr) and isinstance(s.value, ast.Constant) and isinstance(s.value.value, str):
            return go()
        if self.name == 'link_partial' and ast.unparse(s) in SKIP:
            return ind + '(* not label bookkeeping, dropped: %s *)\n' % cmt(ast.unparse(s).split('\n')[0]) + go()
        if isinstance(s, ast.Return):
            if rest or mode != 'res' or loop_tail is not None or not isinstance(s.value, ast.Name):
                fail(s, 'only a final `return <table>` is supported')
            return ind + 'POk %s' % self.var(s, s.value.id, 'table')[0]
        if isinstance(s, ast.Assert):
            if mode != 'res':
                fail(s, 'assert in a pure context')
            c = self.exT(s.test, 'B')
            if self.pre:
                fail(s, 'unsupported assert')
            return '%sif negb %s then PRaises EAssert else\n' % (ind, c) + go()
        if isinstance(s, ast.Assign):
            return self.assign(s, mode, ind, go)
        if isinstance(s, ast.AugAssign):
            if not isinstance(s.target, ast.Name):
                fail(s, 'unsupported augmented assignment')
            n, t = self.var(s, s.target.id)
            v, tv = self.ex(s.value)
            if t != 'set' or tv != 'set' or self.pre:
                fail(s, 'unsupported augmented assignment')
            if isinstance(s.op, ast.Sub):
                txt = '%slet %s := s_diff %s %s in\n' % (ind, n, n, v)
            elif isinstance(s.op, ast.BitOr):
                txt = '%slet %s := s_union %s %s in\n' % (ind, n, n, v)
            else:
                fail(s, 'unsupported augmented assignment')
            self.bind(s, n, 'set')
            return txt + go()
        if isinstance(s, ast.Expr) and isinstance(s.value, ast.Call):
            c = s.value
            b = {}
            if match(PAT['append'], c, b):
                l, _ = self.var(s, b['F_l'], 'pairs')
                v = self.exT(b['E_x'], 'zpair')
                if self.pre:
                    fail(s, 'unsupported append')
                self.bind(s, l, 'pairs')
                return '%slet %s := %s ++ [%s] in\n' % (ind, l, l, v) + go()
            b = {}
            if match(PAT['sort'], c, b):
                f, _ = self.var(s, b['F_f'], 'table')
                self.bind(s, f, 'table')
                return '%slet %s := sort_rows %s in\n' % (ind, f, f) + go()
            b = {}
            if match(PAT['drop'], c, b):
                f, _ = self.var(s, b['F_f'], 'table')
                self.var(s, f + '__has_old', 'B')
                return '%slet %s__has_old := false in\n' % (ind, f) + go()
            b = {}
            if match(PAT['reconnect'], c, b):
                if self.name != 'link_partial' or mode != 'res':
                    fail(s, 'unsupported call of reconnect_traj_patch')
                f, _ = self.var(s, b['F_f'], 'table')
                r = self.exT(b['E_r'], 'zpair')
                if self.pre:
                    fail(s, 'unsupported call of reconnect_traj_patch')
                self.uses_ord = True
                self.bind(s, f, 'table')
                return '%sbind (reconnect_traj_patch ord %s %s) (fun %s =>\n' % (ind, f, r, f) + go() + ')'
            fail(s, 'unsupported statement `%s`' % ast.unparse(s))
        if isinstance(s, ast.If):
            return self.ifstmt(s, rest, tail, mode, ind, loop_tail)
        if isinstance(s, ast.For):
            return self.forstmt(s, mode, ind, go)
        fail(s, 'unsupported statement %s' % type(s).__name__)

    def assign(self, s, mode, ind, go):
        # f = f.copy()
        b = {}
        if len(s.targets) == 1 and isinstance(s.targets[0], ast.Name) and match(PAT['copy'], s.value, b) \
                and b['F_f'] == s.targets[0].id:
            self.var(s, b['F_f'], 'table')
            return '%s(* %s: tables are values *)\n' % (ind, cmt(ast.unparse(s))) + go()
        # coords_iter = coords_from_df_partial(f, pos_columns, t_column, link_frame_nos)
        b = {}
        if len(s.targets) == 1 and isinstance(s.targets[0], ast.Name) and match(PAT['coords'], s.value, b):
            self.var(s, b['F_f'], 'table')
            self.var(s, b['F_r'], 'range')
            self.coords[s.targets[0].id] = (b['F_f'], b['F_r'])
            self.opaque.add(s.targets[0].id)
            return '%s(* %s: consumed by link_iter below *)\n' % (ind, cmt(ast.unparse(s))) + go()
        # f['_old_particle'] = f['particle'].copy()
        b = {}
        if len(s.targets) == 1 and match(PAT['t_oldcol'], s.targets[0], b) and match(PAT['old_copy'], s.value, b):
            f, _ = self.var(s, b['F_f'], 'table')
            self.var(s, f + '__has_old', 'B')
            self.bind(s, f, 'table')
            return ('%slet %s := copy_particle_to_old %s in\n%slet %s__has_old := true in\n' % (ind, f, f, ind, f)) + go()
        # f['particle'] = c
        b = {}
        if len(s.targets) == 1 and match(PAT['t_partcol'], s.targets[0], b):
            f, _ = self.var(s, b['F_f'], 'table')
            v = self.exT(s.value, 'Z')
            if self.pre:
                fail(s, 'unsupported column assignment')
            self.bind(s, f, 'table')
            return '%slet %s := fill_particle %s %s in\n' % (ind, f, f, v) + go()
        # f.loc[m, 'particle'] = values
        b = {}
        if len(s.targets) == 1 and match(PAT['t_loc'], s.targets[0], b):
            f, _ = self.var(s, b['F_f'], 'table')
            m = self.exT(b['E_m'], 'mask')
            v = self.exT(s.value, 'zlist')
            head, close = self.flush(s, mode, ind, None)
            if mode != 'res':
                fail(s, 'mask assignment in a pure context')
            self.bind(s, f, 'table')
            return head + '%sbind (loc_set_particle %s %s %s) (fun %s =>\n' % (ind, f, m, v, f) + go() + ')' + close
        # a, b = e
        if len(s.targets) == 1 and isinstance(s.targets[0], ast.Tuple):
            t = s.targets[0]
            if len(t.elts) != 2 or not all(isinstance(x, ast.Name) for x in t.elts) or t.elts[0].id == t.elts[1].id:
                fail(s, 'unsupported tuple assignment')
            v = self.exT(s.value, 'zpair')
            head, close = self.flush(s, mode, ind, None)
            for x in t.elts:
                self.bind(s, x.id, 'Z')
            return head + "%slet '(%s, %s) := %s in\n" % (ind, t.elts[0].id, t.elts[1].id, v) + go() + close
        # x = e  |  d[k] = e  |  d1[k1] = d2[k2] = e
        v, tv = self.ex(s.value)
        head, close = self.flush(s, mode, ind, None)
        txt = ''
        if len(s.targets) > 1 and not v.isidentifier():
            t = self.tmp()
            txt += '%slet %s := %s in\n' % (ind, t, v)
            v = t
        for t in s.targets:
            if isinstance(t, ast.Name):
                self.bind(s, t.id, tv)
                txt += '%slet %s := %s in\n' % (ind, t.id, v)
            elif isinstance(t, ast.Subscript) and isinstance(t.value, ast.Name):
                d, _ = self.var(s, t.value.id, 'dict')
                k = self.exT(t.slice, 'Z')
                if self.pre or tv != 'Z':
                    fail(s, 'unsupported dictionary assignment')
                self.bind(s, d, 'dict')
                txt += '%slet %s := d_set %s %s %s in\n' % (ind, d, d, k, v)
            else:
                fail(s, 'unsupported assignment target')
        return head + txt + go() + close

    def ifstmt(self, s, rest, tail, mode, ind, loop_tail):
        c = self.exT(s.test, 'B')
        if self.pre:
            fail(s, 'a condition that can raise')
        # if c: continue
        if len(s.body) == 1 and isinstance(s.body[0], ast.Continue) and not s.orelse:
            if loop_tail is None:
                fail(s, '`continue` outside a loop body')
            return '%sif %s then %s else\n' % (ind, c, loop_tail()) + self.seq(rest, tail, mode, ind, loop_tail)
        for n in ast.walk(s):
            if isinstance(n, (ast.Continue, ast.Break, ast.Return)):
                fail(n, 'unsupported control flow inside an if')
        guard = None
        t = s.test
        if isinstance(t, ast.Compare) and len(t.ops) == 1 and isinstance(t.ops[0], ast.In) and isinstance(t.left, ast.Name) \
                and isinstance(t.comparators[0], ast.Name) and self.env.get(t.comparators[0].id) == 'dict':
            guard = (t.comparators[0].id, t.left.id)
        env0, g0 = dict(self.env), list(self.guards)

        def branch(body, tl, md, i2, g):
            self.env, self.guards = dict(env0), list(g0) + ([g] if g else [])
            return self.seq(body, tl, md, i2, loop_tail if tl is tail else None)

        if not rest:
            a = branch(s.body, tail, mode, ind + '  ', guard)
            bb = branch(s.orelse, tail, mode, ind + '  ', None)
            self.env, self.guards = dict(env0), list(g0)
            return '%sif %s then\n%s\n%selse\n%s' % (ind, c, a, ind, bb)
        W = [v for v in self.order if v in assigned([s]) and v in env0]
        if not W:
            fail(s, 'an if that changes nothing visible')
        mon = is_monadic([s])
        if mon and mode != 'res':
            fail(s, 'an if that can raise in a pure context')
        fin = (lambda: 'POk ' + self.tup(W)) if mon else (lambda: self.tup(W))
        a = branch(s.body, fin, 'res' if mon else 'pure', ind + '    ', guard)
        bb = branch(s.orelse, fin, 'res' if mon else 'pure', ind + '    ', None)
        self.env, self.guards = dict(env0), [g for g in g0 if not (set(g) & set(W))]
        body = '%sif %s then\n%s\n%s  else\n%s' % (ind + '  ', c, a, ind, bb)
        if mon:
            return '%sbind (\n%s) (fun %s =>\n' % (ind, body, self.pat(W)) + self.seq(rest, tail, mode, ind, loop_tail) + ')'
        return '%slet %s := (\n%s) in\n' % (ind, self.pat(W), body) + self.seq(rest, tail, mode, ind, loop_tail)

    def forstmt(self, s, mode, ind, go):
        if s.orelse:
            fail(s, 'for/else')
        for n in ast.walk(s):
            if isinstance(n, (ast.Break, ast.Return)):
                fail(n, 'unsupported control flow inside a loop')
        it, tg = s.iter, s.target
        if not (isinstance(tg, ast.Tuple) and len(tg.elts) == 2 and all(isinstance(x, ast.Name) for x in tg.elts)
                and tg.elts[0].id != tg.elts[1].id):
            fail(s, 'unsupported loop target')
        a, c = tg.elts[0].id, tg.elts[1].id
        for x in (a, c):
            if x in self.env or x in self.opaque:
                if self.env.get(x) != 'Z' or x in [p for p, _ in self.params]:
                    fail(s, 'loop target %s shadows a variable' % x)
        pre_src, src, prefix, extra_state = None, None, '', []
        b = {}
        if match(PAT['zip'], it, b):
            st_, _ = self.var(s, b['F_s'], 'set')
            g, _ = self.var(s, b['F_g'], 'gen')
            self.uses_ord = True
            src, ity = '(s_iter ord %s)' % st_, 'Z'
            items = [(a, 'Z')]
            ipat = a
            prefix = "  bind (g_next %s) (fun '(%s, %s) =>\n" % (g, c, g)
            late = [(c, 'Z')]
        elif match(PAT['link_iter'], it, b):
            if b['F_c'] not in self.coords:
                fail(s, 'link_iter is not fed by coords_from_df_partial')
            f, r = self.coords[b['F_c']]
            self.var(s, f, 'table'); self.var(s, r, 'range')
            t = self.tmp()
            pre_src = (t, 'link_iter_frames linker %s' % r)
            src, ity = t, 'Z * list Z'
            items, late = [(a, 'Z'), (c, 'zlist')], []
            ipat = "'(%s, %s)" % (a, c)
        else:
            src = self.exT(it, 'pairs')
            if self.pre:
                fail(s, 'unsupported loop source')
            ity = 'Z * Z'
            items, late = [(a, 'Z'), (c, 'Z')], []
            ipat = "'(%s, %s)" % (a, c)
        mon = is_monadic(s.body) or bool(prefix)
        if (mon or pre_src) and mode != 'res':
            fail(s, 'a loop that can raise in a pure context')
        W = [v for v in self.order if v in assigned([s]) and v in self.env and v not in (a, c)]
        if not W:
            fail(s, 'a loop that changes nothing')
        reads = set()
        for st in s.body:
            reads |= names_in(st)
            if mentions_old_flag(st):
                reads |= {v for v in self.env if v.endswith('__has_old')}
        envv = [v for v in self.order if v in reads and v in self.env and v not in W and v not in (a, c)]
        self.nloop += 1
        lname = '%s_loop%d' % (self.name, self.nloop)
        env0, g0 = dict(self.env), list(self.guards)
        self.guards = []
        for n, t in items + late:
            if self.types_seen.get(n, t) != t:
                fail(s, 'loop target %s changes type' % n)
            self.env[n] = t
            self.types_seen[n] = t
            if n not in self.order:
                self.order.append(n)
        fin = (lambda: 'POk ' + self.tup(W)) if mon else (lambda: self.tup(W))
        body = self.seq(s.body, fin, 'res' if mon else 'pure', '  ', loop_tail=fin)
        sty = self.tupty(W)
        d = '(* line %d: %s *)\n' % (s.lineno, cmt(ast.unparse(s).split('\n')[0]))
        d += 'Definition %s %s(st : %s) (it : %s) : %s :=\n' % (
            lname, ''.join('(%s : %s) ' % (v, COQTY[self.env[v]]) for v in envv), sty, ity,
            'presult (%s)' % sty if mon else sty)
        d += '  let %s := st in\n  let %s := it in\n' % (self.pat(W), ipat)
        d += prefix + body + (')' if prefix else '') + '.\n'
        self.defs.append(d)
        self.env, self.guards = env0, [g for g in g0 if not (set(g) & set(W))]
        call = '(%s)' % ' '.join([lname] + envv) if envv else lname
        if mon:
            txt = ''
            close = ')'
            if pre_src:
                txt += '%sbind (%s) (fun %s =>\n' % (ind, pre_src[1], pre_src[0])
                close += ')'
            txt += '%sbind (foldM %s %s %s) (fun %s =>\n' % (ind, call, src, self.tup(W), self.pat(W))
            return txt + go() + close
        return '%slet %s := fold_left %s %s %s in\n' % (ind, self.pat(W), call, src, self.tup(W)) + go()

    # -------------------------------------------------------------- function
    def translate(self, ret_default):
        body = list(self.f.body)
        for s in body:
            for n in ast.walk(s):
                if isinstance(n, (ast.While, ast.Try, ast.With, ast.ListComp, ast.DictComp, ast.SetComp, ast.Yield, ast.YieldFrom,
                                  ast.FunctionDef, ast.Global, ast.Nonlocal, ast.Delete, ast.Raise, ast.Await, ast.NamedExpr,
                                  ast.Starred, ast.IfExp)):
                    fail(n, 'unsupported construct %s' % type(n).__name__)
        init = ''
        tables = [n for n, t in self.params if t == 'table']
        if any(mentions_old_flag(s) for s in body) and self.name == 'link_partial':
            for f in tables:
                self.bind(self.f, f + '__has_old', 'B')
                init += '  let %s__has_old := false in   (* the caller\'s table has no \'_old_particle\' column *)\n' % f
        has_ret = bool(body) and isinstance(body[-1], ast.Return)
        tail = (lambda: 'POk ' + ret_default) if not has_ret else (lambda: fail(self.f, 'missing return'))
        main = self.seq(body, tail, 'res', '  ')
        binders = ''.join('(%s : %s) ' % (n, t) for n, t in self.extra if n != 'ord' or self.uses_ord)
        binders += ''.join('(%s : %s) ' % (n, COQTY[t]) for n, t in self.params)
        out = '(* ===== %s (line %d) ===== *)\n' % (self.f.name, self.f.lineno)
        out += '\n'.join(self.defs)
        out += '\nDefinition %s %s: presult table :=\n%s%s.\n' % (self.name, binders, init, main)
        return out


def check_sig(fdef, names, defaults, kwarg):
    a = fdef.args
    got = [x.arg for x in a.args]
    if got != names or a.vararg or a.kwonlyargs or getattr(a, 'posonlyargs', []) or \
            (a.kwarg.arg if a.kwarg else None) != kwarg:
        fail(fdef, 'signature of %s changed: %s' % (fdef.name, got))
    if [ast.unparse(d) for d in a.defaults] != defaults:
        fail(fdef, 'defaults of %s changed' % fdef.name)
    if fdef.decorator_list:
        fail(fdef, 'decorated function')


HEADER = """(* GENERATED by tools/py2coq_partial.py from trackpy/linking/partial.py -- do not edit.
   reconnect_traj_patch and link_partial, statement by statement, as state-passing
   Gallina over Model/PyPartial.v (vocabulary, list of the pandas / itertools
   primitives, conventions; see also the translator's docstring).
   Extra parameters:  ord    : iteration order of Python sets (used once: zip(remaining, gen_ids))
                      linker : what link_iter yields for a frame number (C01 / C02).
   Dropped Python parameters: t_column, old_particle_column (the model's tables have
   fixed columns); search_range, pos_columns, kwargs (they only reach link_iter). *)
From Coq Require Import ZArith List Bool.
From TP Require Import Model.Partial Model.PyPartial.
Import ListNotations.
Open Scope Z_scope.
"""


def translate(repo):
    path = os.path.join(repo, 'trackpy', 'linking', 'partial.py')
    src = open(path).read()
    tree = ast.parse(src)
    defs = {}
    for n in tree.body:
        if isinstance(n, ast.FunctionDef):
            if n.name in defs:
                fail(n, 'function %s defined twice' % n.name)
            defs[n.name] = n
        elif isinstance(n, (ast.Import, ast.ImportFrom)):
            pass
        elif isinstance(n, ast.Assign) and ast.unparse(n) == 'logger = logging.getLogger(__name__)':
            pass
        elif isinstance(n, ast.Expr) and isinstance(n.value, ast.Constant) and isinstance(n.value.value, str):
            pass
        else:
            fail(n, 'unexpected module-level statement `%s`' % ast.unparse(n).split('\n')[0])
    for name in ('coords_from_df_partial', 'link_partial', 'reconnect_traj_patch'):
        if name not in defs:
            raise TranslationError('function %s not found' % name)
    if ast.unparse(defs['coords_from_df_partial']) != COORDS_PINNED:
        fail(defs['coords_from_df_partial'], 'coords_from_df_partial differs from the pinned text (the primitive link_iter_frames assumes it)')
    # names the module must bind the way the primitives assume
    imports = {}
    for n in tree.body:
        if isinstance(n, ast.ImportFrom):
            for al in n.names:
                imports[al.asname or al.name] = (('.' * n.level) + (n.module or ''), al.name)
        elif isinstance(n, ast.Import):
            for al in n.names:
                imports[al.asname or al.name] = (al.name, None)
    want = {'itertools': ('itertools', None), 'pandas_sort': ('..utils', 'pandas_sort'), 'link_iter': ('.linking', 'link_iter')}
    for k, v in want.items():
        if imports.get(k) != v:
            raise TranslationError('the module no longer imports %s from %s' % (k, v[0]))

    r = defs['reconnect_traj_patch']
    check_sig(r, ['f', 'link_range', 'old_particle_column', 't_column'], ["'frame'"], None)
    fr = Fn(r, [('f', 'table'), ('link_range', 'zpair'), ('old_particle_column', None), ('t_column', None)],
            [('ord', 'list Z -> list Z')])
    fr.uses_ord = True
    text_r = fr.translate('f')

    l = defs['link_partial']
    check_sig(l, ['f', 'search_range', 'link_range', 'pos_columns', 't_column'], ['None', "'frame'"], 'kwargs')
    fl = Fn(l, [('f', 'table'), ('search_range', None), ('link_range', 'zpair'), ('pos_columns', None), ('t_column', None)],
            [('ord', 'list Z -> list Z'), ('linker', 'Z -> list Z')])
    fl.opaque |= {'kwargs', 'ndim'}
    fl.uses_ord = True
    text_l = fl.translate('f')
    return HEADER + '\n' + text_r + '\n' + text_l


def main():
    ap = argparse.ArgumentParser()
    ap.add_argument('--repo', default=os.environ.get('TRACKPY_REPO', '/repo'))
    ap.add_argument('--out', default=os.path.join(os.path.dirname(os.path.dirname(os.path.abspath(__file__))), 'coq', 'Gen', 'partial.v'))
    ap.add_argument('--stdout', action='store_true')
    a = ap.parse_args()
    try:
        text = translate(a.repo)
    except TranslationError as e:
        sys.stderr.write('py2coq_partial: TRANSLATION ERROR: %s\n' % e)
        sys.exit(2)
    except (OSError, SyntaxError) as e:
        sys.stderr.write('py2coq_partial: TRANSLATION ERROR: cannot read / parse the source: %s\n' % e)
        sys.exit(2)
    except Exception as e:      # fail closed on anything unforeseen
        sys.stderr.write('py2coq_partial: TRANSLATION ERROR: internal error %r\n' % (e,))
        sys.exit(2)
    if a.stdout:
        sys.stdout.write(text)
        return
    old = open(a.out).read() if os.path.exists(a.out) else None
    if old != text:
        os.makedirs(os.path.dirname(a.out), exist_ok=True)
        tmp = a.out + '.tmp%d' % os.getpid()
        with open(tmp, 'w') as f:
            f.write(text)
        os.replace(tmp, a.out)
        print('py2coq_partial: wrote %s (changed)' % a.out)
    else:
        print('py2coq_partial: %s up to date' % a.out)


if __name__ == '__main__':
    main()
