#!/usr/bin/env python3
"""Fail-closed translator (route T) for the array-based subnet solver of C02 / C03.

Reads, with the Python `ast` module, the CURRENT source text of

    _numba_subnet_norecur    $TRACKPY_REPO/trackpy/linking/subnetlinker.py
    numba_link               $TRACKPY_REPO/trackpy/linking/subnetlinker.py

(default repo /repo) and regenerates  /verif/coq/Gen/numbakernel.v :

    py__numba_subnet_norecur   the whole kernel, statement by statement: the `while 1` loop (recursion
                               on explicit fuel), the two `for jtmp in range(nj)` loops inside it, the
                               2-D candidate / distance arrays, the in-place updates of the register
                               arrays and `return loopcount`
    py_numba_link              the array building from the source points (size check, destination
                               enumeration, the 9-column candidate / distance arrays with the cap on
                               the number of candidates and its exception), the call of the kernel
                               and the read-back of best_assignments

The embedding is the one of tools/py2coq_iterative.py (shallow, state passing; vocabulary:
coq/Model/PyNumbakernel.v on top of coq/Model/PyIterative.v).  Every statement becomes a term of type
`outcome <locals> <result>` (Normal / Continue / Break / Return v / Raise); `s1; s2` is
`bind s1 (fun st => s2)` (written `let st := ... in` when s1 cannot fail or jump); `while c: body` is
`while_loop fuel ...`; `for x in range(n): body` is `for_list (fun x st => body) (py_range n) st`.

Locals.  The locals of table STATE[def] are the fields <prefix>_<name> of a record; they may be
re-assigned anywhere.  The array ARGUMENTS of the kernel are STATE locals (they are mutated in place)
and are stored on entry.  DEFINITE ASSIGNMENT is checked flow-sensitively: a STATE local may be read
only where every path from the start of the def (for a loop body: from the start of the loop, and from
the start of the iteration) has assigned it; after an if/else the locals assigned in both branches
count.  Every other local is a Coq `let`: assigned once per block, visible in the rest of that block
(nested blocks included), never flowing out of a branch or into the next iteration.

Translated subset (ANYTHING else: exit status 2, nothing written):

  statements   x = e;  x += e / x -= e on an integer STATE local;  a[i] = e, a[i] += e on a 1-D STATE
               array;  if / elif / else;  one `while` loop at the top level of the def (`while 1`);
               `for x in range(e)` (not containing continue / break / return);  continue;
               return e (an int);  pass;  docstrings
  expressions  names, int literals (also negative), float literals with an integral value (-> that
               exact integer), + and - on ints, < > <= >= == != on ints, a[i], a[j, i], a.shape[0],
               `and` (an int operand means `!= 0`; an operand after the first that indexes an array is
               evaluated only when the ones before hold: option-bool conditional)
  types        STATE (locals), SIGS (arguments: a changed argument list is an error)

numba_link: see the section NUMBA_LINK below (its own, larger subset).

Conventions (all visible in the generated text, explained in Model/PyNumbakernel.v):
  * every Python int is a Z; floats that hold sums of squared distances are exact integers (rounding
    not modelled); 1.0e23 is the exact value of that double;
  * partial operations are guarded, in evaluation order, before the statement takes effect:
    `match <lookup> with None => Raise IndexError | Some v => ... end`;
  * `return e` is `Return (e, st)`: the value and the final locals (the arrays live there).

Usage:  py2coq_numbakernel.py [--repo /repo] [--out /verif/coq/Gen/numbakernel.v] [--stdout]
"""
import ast, sys, os, argparse

sys.path.insert(0, os.path.dirname(os.path.abspath(__file__)))
from py2coq_linker import TranslationError, fail, comment, Guards, find_function  # noqa: E402

Z, BOOL, ARR1, ARR2 = 'Z', 'bool', 'list Z', 'list (list Z)'

K_STATE = {'ncands': ARR1, 'candsarray': ARR2, 'dists2array': ARR2, 'cur_assignments': ARR1, 'cur_sums': ARR1,
           'tmp_assignments': ARR1, 'best_assignments': ARR1, 'nj': Z, 'tmp_sum': Z, 'best_sum': Z, 'j': Z,
           'loopcount': Z, 'delta': Z, 'flag': Z}
K_SIG = ['ncands', 'candsarray', 'dists2array', 'cur_assignments', 'cur_sums', 'tmp_assignments', 'best_assignments']
K_DECORATOR = 'try_numba_jit(nopython=True)'
RESERVED = set('''st it fuel bind while_loop for_list fn_end_v Normal Continue Break Return Raise Done Fail fst snd Some None true false
 if then else match with end let in fun fix forall exists nat Z list option length nth_error negb andb orb map nkl blank_nkl nk_result
 py_len py_list py_index py_index2 py_set_index py_pos py_range py_enumerate lit_1e23'''.split()) \
    | set('nk_' + f for f in K_STATE) | set('set_nk_' + f for f in K_STATE)


def wrap_opt(g, inner):
    """guards of a condition operand that may not be evaluated: None = IndexError"""
    for opt, exn, var in reversed(g.items):
        if exn != 'IndexError':
            raise TranslationError('internal: unexpected exception %s in a condition' % exn)
        inner = '(match %s with None => None | Some %s => %s end)' % (opt, var, inner)
    return inner


class Kernel:
    """_numba_subnet_norecur"""
    P = 'nk'
    REC = 'nkl'
    STATE = K_STATE

    def __init__(self, node):
        self.f = node
        self.depth = 0
        self.loops = 0
        self.fors = 0
        self.whiles = 0
        self.n = 0
        self.used = set()

    def fresh(self, base):
        self.n += 1
        return '%s%d' % (base, self.n)

    def newlocal(self, node, name, env):
        if name in env:
            fail(node, 'local %s is assigned twice in one block (only the locals of table STATE may be re-assigned)' % name)
        if name in self.STATE:
            fail(node, 'internal: %s is a STATE local' % name)
        c, k = name, 0
        while (c + (str(k) if k else '')) in self.used:
            k += 1
        c = c + (str(k) if k else '')
        if c in RESERVED or not name.isidentifier() or name.startswith('_'):
            fail(node, 'local name %s cannot be used' % name)
        self.used.add(c)
        return c

    def lookup(self, node, name, env, asg):
        if name in self.STATE:
            if name not in asg:
                fail(node, 'local %s may be read here before it is assigned (definite-assignment check)' % name)
            return '(%s_%s st)' % (self.P, name), self.STATE[name]
        if name in env:
            return env[name]
        fail(node, 'unknown name %s (a let-local is visible only in the rest of the block that assigns it)' % name)

    # ---- expressions
    def nog(self, g, node):
        if g is None:
            fail(node, 'partial operation (indexing) where it is not supported')
        return g

    def num_const(self, e):
        neg = False
        if isinstance(e, ast.UnaryOp) and isinstance(e.op, ast.USub):
            neg, e = True, e.operand
        if isinstance(e, ast.Constant) and not isinstance(e.value, bool):
            v = e.value
            if isinstance(v, int):
                return -v if neg else v
            if isinstance(v, float):
                if v != v or v in (float('inf'), float('-inf')) or not v.is_integer():
                    fail(e, 'float literal %r without an integral value' % v)
                return -int(v) if neg else int(v)
        return None

    def expr(self, e, env, asg, g):
        c = self.num_const(e)
        if c is not None:
            if c == int(1.0e23):
                return 'lit_1e23', Z
            return ('%d%%Z' % c if c >= 0 else '(%d)%%Z' % c), Z
        if isinstance(e, ast.Name):
            return self.lookup(e, e.id, env, asg)
        if isinstance(e, ast.BinOp) and isinstance(e.op, (ast.Add, ast.Sub)):
            l, t = self.expr(e.left, env, asg, g)
            r, t2 = self.expr(e.right, env, asg, g)
            if (t, t2) != (Z, Z):
                fail(e, 'arithmetic on %s and %s' % (t, t2))
            return '(%s %s %s)%%Z' % (l, '+' if isinstance(e.op, ast.Add) else '-', r), Z
        if isinstance(e, ast.Compare):
            if len(e.ops) != 1:
                fail(e, 'chained comparison')
            a, ta = self.expr(e.left, env, asg, g)
            b, tb = self.expr(e.comparators[0], env, asg, g)
            if (ta, tb) != (Z, Z):
                fail(e, 'comparison between %s and %s' % (ta, tb))
            tab = {ast.Lt: '(Z.ltb %s %s)' % (a, b), ast.Gt: '(Z.ltb %s %s)' % (b, a), ast.LtE: '(Z.leb %s %s)' % (a, b),
                   ast.GtE: '(Z.leb %s %s)' % (b, a), ast.Eq: '(Z.eqb %s %s)' % (a, b), ast.NotEq: '(negb (Z.eqb %s %s))' % (a, b)}
            for k, s in tab.items():
                if isinstance(e.ops[0], k):
                    return s, BOOL
            fail(e, 'unsupported comparison')
        if isinstance(e, ast.Subscript):
            if isinstance(e.value, ast.Attribute) and e.value.attr == 'shape' and isinstance(e.value.value, ast.Name) \
                    and isinstance(e.slice, ast.Constant) and e.slice.value == 0 and not isinstance(e.slice.value, bool):
                a, ta = self.expr(e.value.value, env, asg, g)
                if ta not in (ARR1, ARR2):
                    fail(e, '.shape[0] of a %s' % ta)
                return '(py_len %s)' % a, Z
            a, ta = self.expr(e.value, env, asg, g)
            if ta == ARR2 and isinstance(e.slice, ast.Tuple) and len(e.slice.elts) == 2:
                i1, t1 = self.expr(e.slice.elts[0], env, asg, g)
                i2, t2 = self.expr(e.slice.elts[1], env, asg, g)
                if (t1, t2) != (Z, Z):
                    fail(e, 'index of type %s, %s' % (t1, t2))
                v = self.fresh('x')
                self.nog(g, e).add('py_index2 %s %s %s' % (a, i1, i2), 'IndexError', v)
                return v, Z
            if ta == ARR1 and not isinstance(e.slice, (ast.Tuple, ast.Slice)):
                i, ti = self.expr(e.slice, env, asg, g)
                if ti != Z:
                    fail(e, 'index of type %s' % ti)
                v = self.fresh('x')
                self.nog(g, e).add('py_index %s %s' % (a, i), 'IndexError', v)
                return v, Z
            fail(e, 'unsupported subscript of a %s' % ta)
        fail(e, 'unsupported expression %s' % type(e).__name__)

    def truthy(self, e, env, asg, g):
        c, t = self.expr(e, env, asg, g)
        if t == BOOL:
            return c
        if t == Z:
            return '(negb (Z.eqb %s 0%%Z))' % c
        fail(e, 'a %s used as a condition' % t)

    def cond(self, e, env, asg, g):
        """-> (term, partial): partial = the term is an option bool (None = IndexError)"""
        if isinstance(e, ast.BoolOp) and isinstance(e.op, ast.And):
            first = self.truthy(e.values[0], env, asg, g)
            acc, partial, plain = None, False, []
            for v in reversed(e.values[1:]):
                g2 = Guards()
                c = self.truthy(v, env, asg, g2)
                partial = partial or bool(g2.items)
                plain.insert(0, c)
                acc = wrap_opt(g2, 'Some %s' % c if acc is None else '(if %s then %s else Some false)' % (c, acc))
            if not partial:
                t = first
                for c in plain:
                    t = '(andb %s %s)' % (t, c)
                return t, False
            return '(if %s then %s else Some false)' % (first, acc), True
        if isinstance(e, ast.BoolOp):
            fail(e, 'unsupported boolean operator')
        return self.truthy(e, env, asg, g), False

    # ---- statements
    def then_pure(self, newstate, rest, env, asg, ind):
        if not rest:
            return 'Normal (%s)' % newstate
        return 'let st := %s in\n%s%s' % (newstate, ind, self.block(rest, env, asg, ind))

    def then_gen(self, oc, rest, env, asg, ind):
        if not rest:
            return oc
        return 'bind (%s) (fun st =>\n%s%s)' % (oc, ind, self.block(rest, env, asg, ind))

    def sub(self, stmts, env, asg, ind, loop=0, forl=0):
        self.depth += 1
        self.loops += loop
        self.fors += forl
        r = self.block(stmts, dict(env), asg, ind)
        self.fors -= forl
        self.loops -= loop
        self.depth -= 1
        return r

    def block(self, stmts, env, asg, ind):
        if not stmts:
            return 'Normal st'
        s, rest = stmts[0], stmts[1:]
        return comment(s) + '\n' + ind + self.stmt(s, rest, dict(env), asg, ind)

    def setf(self, name, val):
        return 'set_%s_%s st %s' % (self.P, name, val)

    def ret(self, s, env, asg, g):
        c, t = self.expr(s.value, env, asg, g)
        if t != Z:
            fail(s, 'return of a %s (an int is expected)' % t)
        return 'Return (%s, st)' % c

    def stmt(self, s, rest, env, asg, ind):
        g = Guards()
        i2 = ind + '  '
        if isinstance(s, ast.Expr) and isinstance(s.value, ast.Constant) and isinstance(s.value.value, str):
            return self.block(rest, env, asg, ind)
        if isinstance(s, ast.Pass):
            return self.block(rest, env, asg, ind)
        if isinstance(s, ast.Return):
            if s.value is None:
                fail(s, 'return without a value')
            if self.fors:
                fail(s, 'return inside a for loop')
            if rest:
                fail(rest[0], 'statement after return')
            return g.wrap(self.ret(s, env, asg, g), ind)
        if isinstance(s, ast.Continue):
            if not self.loops or self.fors:
                fail(s, 'continue outside the while loop / inside a for loop')
            if rest:
                fail(rest[0], 'statement after continue')
            return 'Continue st'
        if isinstance(s, ast.Assign):
            if len(s.targets) != 1:
                fail(s, 'multiple assignment targets')
            return self.assign(s, s.targets[0], rest, env, asg, g, ind)
        if isinstance(s, ast.AugAssign):
            if not isinstance(s.op, (ast.Add, ast.Sub)):
                fail(s, 'unsupported augmented assignment operator')
            o = '+' if isinstance(s.op, ast.Add) else '-'
            t = s.target
            if isinstance(t, ast.Name) and self.STATE.get(t.id) == Z:
                cur, _ = self.lookup(t, t.id, env, asg)
                c, ty = self.expr(s.value, env, asg, g)
                if ty != Z:
                    fail(s, 'augmented assignment of a %s' % ty)
                return g.wrap(self.then_pure(self.setf(t.id, '(%s %s %s)%%Z' % (cur, o, c)), rest, env, asg, ind), ind)
            if isinstance(t, ast.Subscript) and isinstance(t.value, ast.Name) and self.STATE.get(t.value.id) == ARR1 \
                    and not isinstance(t.slice, (ast.Tuple, ast.Slice)):
                f = t.value.id
                fc, _ = self.lookup(t, f, env, asg)
                i, ti = self.expr(t.slice, env, asg, g)
                if ti != Z:
                    fail(s, 'index of type %s' % ti)
                old = self.fresh('x')
                g.add('py_index %s %s' % (fc, i), 'IndexError', old)
                c, ty = self.expr(s.value, env, asg, g)
                if ty != Z:
                    fail(s, 'augmented assignment of a %s' % ty)
                new = self.fresh('d')
                g.add('py_set_index %s %s (%s %s %s)%%Z' % (fc, i, old, o, c), 'IndexError', new)
                return g.wrap(self.then_pure(self.setf(f, new), rest, env, asg, ind), ind)
            fail(s, 'unsupported augmented assignment')
        if isinstance(s, ast.If):
            c, partial = self.cond(s.test, env, asg, g)
            a1, a2 = set(asg), set(asg)
            a = self.sub(s.body, env, a1, i2)
            b = self.sub(s.orelse, env, a2, i2)
            asg |= (a1 & a2)
            if partial:
                oc = 'match %s with None => Raise IndexError | Some cnd =>\n%sif cnd\n%sthen\n%s%s\n%selse\n%s%s\n%send' % (
                    c, ind, ind, i2, a, ind, i2, b, ind)
            else:
                oc = 'if %s\n%sthen\n%s%s\n%selse\n%s%s' % (c, ind, i2, a, ind, i2, b)
            return g.wrap(self.then_gen(oc, rest, env, asg, ind), ind)
        if isinstance(s, ast.While):
            if s.orelse:
                fail(s, 'while ... else')
            if self.whiles or self.depth:
                fail(s, 'only one while loop, at the top level of the def, is supported')
            self.whiles += 1
            if not (isinstance(s.test, ast.Constant) and (s.test.value == 1 or s.test.value is True)):
                fail(s, 'only `while 1` / `while True` is supported')
            body = self.sub(s.body, env, set(asg), i2, loop=1)
            oc = 'while_loop fuel (fun st : %s => true) (fun st : %s =>\n%s%s)\n%sst' % (self.REC, self.REC, i2, body, ind)
            return self.then_gen(oc, rest, env, asg, ind)
        if isinstance(s, ast.For):
            return self.forloop(s, rest, env, asg, g, ind)
        return self.other(s, rest, env, asg, g, ind)

    def other(self, s, rest, env, asg, g, ind):
        fail(s, 'unsupported statement %s' % type(s).__name__)

    def assign(self, s, t, rest, env, asg, g, ind):
        if isinstance(t, ast.Name):
            if t.id in self.STATE:
                c, ty = self.expr(s.value, env, asg, g)
                if ty != self.STATE[t.id]:
                    fail(s, 'value of type %s assigned to %s : %s' % (ty, t.id, self.STATE[t.id]))
                r = self.setf(t.id, c)
                asg.add(t.id)
                return g.wrap(self.then_pure(r, rest, env, asg, ind), ind)
            c, ty = self.expr(s.value, env, asg, g)
            if ty != Z:
                fail(s, 'a let-local may only hold an int (found %s)' % ty)
            nm = self.newlocal(t, t.id, env)
            env[t.id] = (nm, ty)
            return g.wrap('let %s := %s in\n%s%s' % (nm, c, ind, self.block(rest, env, asg, ind)), ind)
        if isinstance(t, ast.Subscript) and isinstance(t.value, ast.Name) and self.STATE.get(t.value.id) == ARR1 \
                and not isinstance(t.slice, (ast.Tuple, ast.Slice)):
            f = t.value.id
            fc, _ = self.lookup(t, f, env, asg)
            # Python evaluates the right-hand side first, then the target's index
            c, ty = self.expr(s.value, env, asg, g)
            if ty != Z:
                fail(s, 'array element assigned a %s' % ty)
            i, ti = self.expr(t.slice, env, asg, g)
            if ti != Z:
                fail(s, 'index of type %s' % ti)
            new = self.fresh('d')
            g.add('py_set_index %s %s %s' % (fc, i, c), 'IndexError', new)
            return g.wrap(self.then_pure(self.setf(f, new), rest, env, asg, ind), ind)
        fail(s, 'unsupported assignment target')

    def forloop(self, s, rest, env, asg, g, ind):
        i2 = ind + '  '
        if s.orelse:
            fail(s, 'for ... else')
        if not (isinstance(s.target, ast.Name) and isinstance(s.iter, ast.Call) and isinstance(s.iter.func, ast.Name)
                and s.iter.func.id == 'range' and len(s.iter.args) == 1 and not s.iter.keywords):
            fail(s, 'only `for x in range(e)` is supported')
        n, tn = self.expr(s.iter.args[0], env, asg, g)
        if tn != Z:
            fail(s, 'range of a %s' % tn)
        x = s.target.id
        if x in self.STATE:
            fail(s, 'loop variable %s is a STATE local' % x)
        benv = dict(env)
        benv.pop(x, None)
        xn = self.newlocal(s.target, x, benv)
        benv[x] = (xn, Z)
        body = self.sub(s.body, benv, set(asg), i2, forl=1)
        oc = 'for_list (fun (%s : Z) (st : %s) =>\n%s%s)\n%s(py_range %s) st' % (xn, self.REC, i2, body, ind, n)
        return g.wrap(self.then_gen(oc, rest, env, asg, ind), ind)

    # ---- whole function
    def translate(self):
        a = self.f.args
        if a.vararg or a.kwarg or a.kwonlyargs or getattr(a, 'posonlyargs', []) or a.defaults:
            fail(self.f, 'unsupported signature')
        names = [x.arg for x in a.args]
        if names != K_SIG:
            fail(self.f, '%s: expected arguments (%s), found (%s)' % (self.f.name, ', '.join(K_SIG), ', '.join(names)))
        decs = [ast.unparse(d) for d in self.f.decorator_list]
        if decs != [K_DECORATOR]:
            fail(self.f, 'expected exactly the decorator @%s (the def runs interpreted when numba is absent), found %s' % (K_DECORATOR, decs))
        for n in ast.walk(self.f):
            if isinstance(n, (ast.Try, ast.With, ast.Yield, ast.YieldFrom, ast.FunctionDef, ast.AsyncFunctionDef, ast.Global, ast.Lambda,
                              ast.Nonlocal, ast.Assert, ast.NamedExpr, ast.Await, ast.ClassDef, ast.Import, ast.ImportFrom, ast.Delete,
                              ast.Break, ast.Raise)) and n is not self.f:
                fail(n, 'unsupported construct %s' % type(n).__name__)
        binders, pro, asg = [], [], set()
        for n in K_SIG:
            self.used.add(n + '_')
            binders.append('(%s_ : %s)' % (n, K_STATE[n]))
            pro.append('      let st := set_nk_%s st %s_ in' % (n, n))
            asg.add(n)
        body = self.block(list(self.f.body), {}, asg, '      ')
        hdr = '(* ===== %s (line %d) ===== *)\n' % (self.f.name, self.f.lineno)
        return hdr + ('Definition py_%s (fuel : nat) %s : fresult (option nk_result) :=\n  let st := blank_nkl in\n'
                      '    fn_end_v (\n      (* the array arguments are locals (mutated in place) *)\n%s\n      %s).\n'
                      % (self.f.name, ' '.join(binders), '\n'.join(pro), body))


def translate(repo):
    p1 = os.path.join(repo, 'trackpy', 'linking', 'subnetlinker.py')
    t1 = ast.parse(open(p1).read())
    out = ['(* GENERATED by tools/py2coq_numbakernel.py from trackpy/linking/subnetlinker.py',
           '   (_numba_subnet_norecur, numba_link) -- do not edit.  Statement by statement, state passing; the',
           '   numbered comments are the Python statements.  Vocabulary and its meaning: Model/PyNumbakernel.v',
           '   (on top of Model/PyIterative.v, Model/PyLinker.v); subset and conventions: the translator. *)',
           'From Coq Require Import ZArith List Bool Arith.',
           'From TP Require Import Model.Assign Model.Link Model.PyLinker Model.PyIterative Model.PyNumbakernel.',
           'Import ListNotations.',
           '']
    out.append(Kernel(find_function(t1, '_numba_subnet_norecur')).translate())
    return '\n'.join(out)


def main():
    ap = argparse.ArgumentParser()
    ap.add_argument('--repo', default=os.environ.get('TRACKPY_REPO', '/repo'))
    ap.add_argument('--out', default=os.path.join(os.path.dirname(os.path.dirname(os.path.abspath(__file__))), 'coq', 'Gen', 'numbakernel.v'))
    ap.add_argument('--stdout', action='store_true')
    a = ap.parse_args()
    try:
        text = translate(a.repo)
    except TranslationError as e:
        sys.stderr.write('py2coq_numbakernel: TRANSLATION ERROR: %s\n' % e)
        sys.exit(2)
    except (OSError, SyntaxError) as e:
        sys.stderr.write('py2coq_numbakernel: TRANSLATION ERROR: cannot read / parse the source: %s\n' % e)
        sys.exit(2)
    if a.stdout:
        sys.stdout.write(text)
        return
    old = open(a.out).read() if os.path.exists(a.out) else None
    if old != text:
        os.makedirs(os.path.dirname(a.out), exist_ok=True)
        tmp = a.out + '.tmp%d' % os.getpid()
        with open(tmp, 'w') as f:
            f.write(text)
        os.replace(tmp, a.out)
        print('py2coq_numbakernel: wrote %s (changed)' % a.out)
    else:
        print('py2coq_numbakernel: %s up to date' % a.out)


if __name__ == '__main__':
    main()
