#!/bin/bash
# tools/soak.sh <seed-from> <seed-to> [props...] : run quick checks with many seeds, report any alarm on the unchanged tree
a=$1; b=$2; shift 2
props=${@:-C01 C02 C03 C04 C06 C07 C08 C09 C10 C11 C12 C13 C15 C16 C17 C18 C19 C20}
cd /verif
for c in $props; do for sd in $(seq $a $b); do
  out=$(VERIF_SEED=$sd ./check $c --tier quick 2>&1 | grep -E "VIOLATION|tier=")
  echo "$c seed=$sd $(echo "$out" | tail -1 | sed 's/.*evaluations/evaluations/')"
  echo "$out" | grep VIOLATION | head -2
done; done
