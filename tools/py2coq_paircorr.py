#!/usr/bin/env python3
"""Fail-closed translator (route T) for C19 (the pair-correlation functions).

Reads  $TRACKPY_REPO/trackpy/static.py  (default /repo) with the Python `ast`
module and regenerates  /verif/coq/Gen/paircorr.v :

    pair_correlation_2d  -> py_pair_correlation_2d
    pair_correlation_3d  -> py_pair_correlation_3d

as shallow Gallina over the vocabulary of coq/Model/PyPairCorr.v.  Every generated
function takes the interface `P : numpy` first: numpy / pandas / scipy operations
are NAMED PRIMITIVES (fields of that record), matched as exact syntactic patterns
(the table is in Model/PyPairCorr.v); that file interprets the record with the
meaning Model/StaticPairCorr(Sel).v give the operations and
Proofs/StaticPairCorrGen.v proves the generated functions equal to the
hand-written pair_correlation_sel for all inputs on which they do not raise.

Embedding
  * a Python variable is a let-bound Coq variable of the same name (`_` appended
    when the name is reserved in Coq or in the vocabulary); rebinding shadows;
  * Python ints are Z, floats are `Scalar P`; an int meeting a float is coerced
    with p_of_int; a float literal is p_float P (n # d), the exact rational;
  * `if X is None: A else: B` on an optional parameter X is
        match X with None => A | Some X => B end
    (X is unreadable in A, narrowed in B); any other `if c: A else: B` is
    if c then A else B.  Either yields the tuple of the variables its branches
    assign that exist before it or are assigned in both branches; a variable
    assigned in one branch only (and new) is local to that branch: reading it
    afterwards is a translation error;
  * `if c: raise E(<literal>)` (no else; E MemoryError or RuntimeError) is
        if c then Raise E else <the rest of the function>;
  * `a, b = ckdtree.query(pos, k=K, distance_upper_bound=c)` is
        bind (p_query P ckdtree pos K c) (fun '(a, b) => <rest>)
    (the library call can raise);
  * `a, b, .. = (e1, e2, ..)` and `a, b, .. = <tuple parameter>` are let '(a, b, ..);
  * the module constant MAX_ARRAY_SIZE must be assigned exactly once, at module
    level, a numeric literal: its value is inlined;
  * arclen_2d_bounded / area_3d_bounded must be the module-level functions of
    static.py (defined once, never rebound): they are the primitives
    p_arclen_2d_bounded / p_area_3d_bounded (tools/py2coq_static.py translates
    their bodies over R);
  * `return (e1, e2)` only as the last statement; the function returns
    result (Edges P * Arr P):  Ok (r_edges, g_r).
  * signature and defaults are pinned (fraction=1.0, dr=0.5, p_indices=None,
    ndensity=None, boundary=None, handle_edge=True, max_rel_ndensity=10); the
    generated function takes every parameter explicitly, the optional ones as
    option; boundary is a 4-tuple (2-D) / 6-tuple (3-D) of floats.

Anything outside this subset: exit status 2, nothing written (the check treats
that like a broken proof).

Usage:  py2coq_paircorr.py [--repo /repo] [--out /verif/coq/Gen/paircorr.v] [--stdout]
"""
import ast, sys, os, argparse
from fractions import Fraction


class TranslationError(Exception):
    pass


def fail(node, msg):
    raise TranslationError('line %s: %s' % (getattr(node, 'lineno', '?'), msg))


COQTY = {'Z': 'Z', 'float': 'Scalar P', 'bool': 'bool', 'df': 'DataFrame P', 'series': 'Series P', 'bser': 'BoolSeries P',
         'indices': 'Indices P', 'edges': 'Edges P', 'tree': 'Tree P', 'points': 'Points P', 'pmat': 'PointMat P',
         'dmat': 'DistMat P', 'imat': 'IdxMat P', 'bmat': 'BoolMat P', 'dcol': 'DistCol P', 'bcol': 'BoolCol P',
         'darr': 'DistArr P', 'arr': 'Arr P', 'hist': 'Hist P', 'box': 'Box P',
         'ofloat': 'option (Scalar P)', 'oindices': 'option (Indices P)'}
OPTION_OF = {'ofloat': 'float', 'oindices': 'indices'}      # + ('otuple', n) -> ('tuple', n)

RESERVED = set('''P numpy by as at in if then else let fun match with end fix cofix forall exists return where using for
Type Prop Set SProp map map2 Some None true false option list bool Z Q nat negb unit tt app nil cons fst snd fold_left filter
combine length nth seq repeat bind Ok Raise result exn MemoryError RuntimeError LibraryError string
DataFrame Series BoolSeries Scalar Indices Edges Tree Points PointMat DistMat IdxMat BoolMat DistCol BoolCol DistArr Arr Hist Box
box qpt acc hist walls column select arc'''.split())


def cq(n):
    if n in RESERVED or n.startswith('p_') or n.startswith('py_') or n.startswith('i_') or not n.isidentifier() or not n.isascii():
        return n + '_'
    return n


def cmt(text):
    return text.replace('"', "'").replace('(*', '( *').replace('*)', '* )')


def cstr(s):
    if not isinstance(s, str) or any(ord(c) < 32 or ord(c) > 126 for c in s) or '"' in s:
        raise TranslationError('unsupported string literal %r' % (s,))
    return '"%s"' % s


def qlit(v, node):
    if isinstance(v, bool) or not isinstance(v, (int, float)):
        fail(node, 'unsupported constant %r' % (v,))
    if isinstance(v, float) and (v != v or v in (float('inf'), float('-inf'))):
        fail(node, 'non-finite constant')
    f = Fraction(v)
    return '(%s # %d)' % (('%d' % f.numerator) if f.numerator >= 0 else '(%d)' % f.numerator, f.denominator)


def is_np(e, attr):
    return isinstance(e, ast.Attribute) and isinstance(e.value, ast.Name) and e.value.id == 'np' and e.attr == attr


def is_none(e):
    return isinstance(e, ast.Constant) and e.value is None


def int_const(e, v=None):
    ok = isinstance(e, ast.Constant) and isinstance(e.value, int) and not isinstance(e.value, bool)
    return ok and (v is None or e.value == v)


def neg_one(e):
    return isinstance(e, ast.UnaryOp) and isinstance(e.op, ast.USub) and int_const(e.operand, 1)


def full_slice(e):
    return isinstance(e, ast.Slice) and e.lower is None and e.upper is None and e.step is None


def kwdict(call):
    d = {}
    for k in call.keywords:
        if k.arg is None or k.arg in d:
            fail(call, 'unsupported keyword arguments in `%s`' % ast.unparse(call))
        d[k.arg] = k.value
    return d


def assigned(stmts):
    """python names assigned (Store) anywhere in the statements"""
    out = []
    for s in stmts:
        for n in ast.walk(s):
            if isinstance(n, ast.Name) and isinstance(n.ctx, ast.Store) and n.id not in out:
                out.append(n.id)
    return out


class Fn:
    def __init__(self, fdef, ndim, consts, bounded):
        self.f, self.ndim, self.consts, self.bounded = fdef, ndim, consts, bounded
        self.params = [('feat', 'df'), ('cutoff', 'float'), ('fraction', 'float'), ('dr', 'float'), ('p_indices', 'oindices'),
                       ('ndensity', 'ofloat'), ('boundary', ('otuple', 2 * ndim)), ('handle_edge', 'bool'),
                       ('max_rel_ndensity', 'float')]
        self.env = dict(self.params)

    # ------------------------------------------------------------------ types
    def coqty(self, t):
        if isinstance(t, tuple) and t[0] == 'tuple':
            return '(' + ' * '.join(['Scalar P'] * t[1]) + ')'
        if isinstance(t, tuple) and t[0] == 'otuple':
            return 'option ' + self.coqty(('tuple', t[1]))
        return COQTY[t]

    def var(self, node, n):
        if n not in self.env:
            fail(node, 'name %s is read where it is not bound (or is outside the translated subset)' % n)
        return cq(n), self.env[n]

    def as_float(self, node, s, t):
        if t == 'float':
            return s
        if t == 'Z':
            return '(p_of_int P %s)' % s
        fail(node, 'expected a number, found %s' % (t,))

    # ------------------------------------------------------------------ expressions
    def exT(self, e, want):
        s, t = self.ex(e)
        if t != want:
            fail(e, 'expression `%s` has type %s, expected %s' % (ast.unparse(e), t, want))
        return s

    def exF(self, e):
        s, t = self.ex(e)
        return self.as_float(e, s, t)

    def ex(self, e):
        if isinstance(e, ast.Name):
            if e.id in self.consts and e.id not in self.env:
                return '(p_float P %s)' % qlit(self.consts[e.id], e), 'float'
            return self.var(e, e.id)
        if isinstance(e, ast.Constant):
            v = e.value
            if isinstance(v, bool) or not isinstance(v, (int, float)):
                fail(e, 'unsupported constant %r' % (v,))
            if isinstance(v, int):
                return ('%d' % v if v >= 0 else '(%d)' % v), 'Z'
            return '(p_float P %s)' % qlit(v, e), 'float'
        if isinstance(e, ast.Attribute):
            if is_np(e, 'pi'):
                return '(p_pi P)', 'float'
            if isinstance(e.value, ast.Name) and e.value.id in self.env:
                v, t = self.var(e, e.value.id)
                if t == 'df' and e.attr in ('x', 'y', 'z'):
                    return '(p_col P %s %s)' % (v, cstr(e.attr)), 'series'
                if t == 'tree' and e.attr == 'data':
                    return '(p_tree_data P %s)' % v, 'points'
            fail(e, 'unsupported attribute `%s`' % ast.unparse(e))
        if isinstance(e, ast.BinOp):
            return self.binop(e)
        if isinstance(e, ast.Compare):
            return self.compare(e)
        if isinstance(e, ast.Subscript):
            return self.subscript(e)
        if isinstance(e, ast.Call):
            return self.call(e)
        fail(e, 'unsupported expression `%s`' % ast.unparse(e))

    def binop(self, e):
        op = e.op
        if isinstance(op, ast.Pow):
            a, ta = self.ex(e.left)
            if not (int_const(e.right) and 0 <= e.right.value <= 16):
                fail(e, 'unsupported exponent in `%s`' % ast.unparse(e))
            k = e.right.value
            if ta == 'darr' and k == 2:
                return '(p_dist_sq P %s)' % a, 'arr'
            if ta in ('float', 'Z'):
                return '(p_pow P %s %d)' % (self.as_float(e, a, ta), k), 'float'
            fail(e, 'unsupported power `%s` (base of type %s)' % (ast.unparse(e), ta))
        a, ta = self.ex(e.left)
        b, tb = self.ex(e.right)
        if isinstance(op, ast.BitAnd):
            if ta == 'bser' and tb == 'bser':
                return '(p_and P %s %s)' % (a, b), 'bser'
            if ta == 'bmat' and tb == 'bmat':
                return '(p_mat_and P %s %s)' % (a, b), 'bmat'
            fail(e, 'unsupported operands of & in `%s` (%s, %s)' % (ast.unparse(e), ta, tb))
        if ta == 'Z' and tb == 'Z':
            for k, s in ((ast.Add, '+'), (ast.Sub, '-'), (ast.Mult, '*')):
                if isinstance(op, k):
                    return '(%s %s %s)%%Z' % (a, s, b), 'Z'
            fail(e, 'unsupported integer operator in `%s`' % ast.unparse(e))
        if ta in ('Z', 'float') and tb in ('Z', 'float'):
            for k, s in ((ast.Add, 'p_add'), (ast.Sub, 'p_sub'), (ast.Mult, 'p_mul'), (ast.Div, 'p_div')):
                if isinstance(op, k):
                    return '(%s P %s %s)' % (s, self.as_float(e, a, ta), self.as_float(e, b, tb)), 'float'
            fail(e, 'unsupported operator in `%s`' % ast.unparse(e))
        if isinstance(op, ast.Mult) and ta in ('Z', 'float') and tb == 'darr':
            return '(p_dist_scale P %s %s)' % (self.as_float(e, a, ta), b), 'arr'
        if isinstance(op, ast.Mult) and ta in ('Z', 'float') and tb == 'arr':
            return '(p_arr_scale P %s %s)' % (self.as_float(e, a, ta), b), 'arr'
        if isinstance(op, ast.Div) and int_const(e.left, 1) and tb == 'arr':
            return '(p_recip P %s)' % b, 'arr'
        if isinstance(op, ast.Div) and ta == 'hist' and tb in ('Z', 'float'):
            return '(p_hist_div P %s %s)' % (a, self.as_float(e, b, tb)), 'arr'
        fail(e, 'unsupported operator in `%s` (%s, %s)' % (ast.unparse(e), ta, tb))

    def compare(self, e):
        if len(e.ops) != 1:
            fail(e, 'chained comparison')
        op, l, r = e.ops[0], e.left, e.comparators[0]
        a, ta = self.ex(l)
        if ta == 'dmat' and isinstance(op, ast.Gt) and int_const(r, 0):
            return '(p_mat_gt0 P %s)' % a, 'bmat'
        b, tb = self.ex(r)
        if ta == 'series' and tb in ('float', 'Z'):
            if isinstance(op, ast.GtE):
                return '(p_ge P %s %s)' % (a, self.as_float(e, b, tb)), 'bser'
            if isinstance(op, ast.LtE):
                return '(p_le P %s %s)' % (a, self.as_float(e, b, tb)), 'bser'
        if ta in ('float', 'Z') and tb in ('float', 'Z') and 'float' in (ta, tb):
            if isinstance(op, ast.Eq):
                return '(p_eqb P %s %s)' % (self.as_float(e, a, ta), self.as_float(e, b, tb)), 'bool'
            if isinstance(op, ast.Gt):
                return '(p_gtb P %s %s)' % (self.as_float(e, a, ta), self.as_float(e, b, tb)), 'bool'
        fail(e, 'unsupported comparison `%s` (%s, %s)' % (ast.unparse(e), ta, tb))

    def subscript(self, e):
        s = e.slice
        # np.histogram(dist, bins=E, weights=w)[0]
        if isinstance(e.value, ast.Call) and is_np(e.value.func, 'histogram'):
            c = e.value
            kw = kwdict(c)
            if not (int_const(s, 0) and len(c.args) == 1 and set(kw) == {'bins', 'weights'}):
                fail(e, 'only np.histogram(<dist>, bins=<edges>, weights=<w>)[0] is supported')
            return '(p_histogram P %s %s %s)' % (self.exT(c.args[0], 'darr'), self.exT(kw['bins'], 'edges'),
                                                 self.exT(kw['weights'], 'arr')), 'hist'
        # pos[:, np.newaxis].repeat(K, axis=1)[mask]
        v, t = self.ex(e.value)
        if t == 'df':
            if isinstance(s, ast.List):
                if not s.elts or not all(isinstance(x, ast.Constant) and isinstance(x.value, str) for x in s.elts):
                    fail(e, 'only a non-empty list of string literals selects columns')
                return '(p_getitem_cols P %s [%s])' % (v, '; '.join(cstr(x.value) for x in s.elts)), 'df'
            return '(p_getitem_mask P %s %s)' % (v, self.exT(s, 'bser')), 'df'
        if t == 'points':
            return '(p_take P %s %s)' % (v, self.exT(s, 'indices')), 'points'
        if t == 'dmat':
            if isinstance(s, ast.Tuple) and len(s.elts) == 2 and full_slice(s.elts[0]) and neg_one(s.elts[1]):
                return '(p_mat_lastcol P %s)' % v, 'dcol'
            return '(p_mat_select P %s %s)' % (v, self.exT(s, 'bmat')), 'darr'
        if t == 'pmat':
            return '(p_pts_select P %s %s)' % (v, self.exT(s, 'bmat')), 'points'
        fail(e, 'unsupported subscript `%s` (of a %s)' % (ast.unparse(e), t))

    def call(self, e):
        if any(isinstance(a, ast.Starred) for a in e.args):
            fail(e, 'unsupported call `%s`' % ast.unparse(e))
        kw = kwdict(e)
        f = e.func
        if isinstance(f, ast.Name) and f.id not in self.env:
            if f.id == 'len' and len(e.args) == 1 and not kw:
                v, t = self.ex(e.args[0])
                if t == 'df':
                    return '(p_len P %s)' % v, 'Z'
                if t == 'points':
                    return '(p_len_points P %s)' % v, 'Z'
                fail(e, 'len of a %s' % (t,))
            if f.id == 'slice' and len(e.args) == 1 and not kw:
                return '(p_slice P %s)' % self.exT(e.args[0], 'Z'), 'indices'
            if f.id == 'int' and len(e.args) == 1 and not kw:
                return '(p_int P %s)' % self.exT(e.args[0], 'float'), 'Z'
            if f.id == 'cKDTree' and len(e.args) == 1 and not kw:
                return '(p_cKDTree P %s)' % self.exT(e.args[0], 'df'), 'tree'
            if f.id in self.bounded and len(e.args) == 3 and not kw:
                if self.bounded[f.id] != self.ndim:
                    fail(e, '%s called from the %d-D function' % (f.id, self.ndim))
                return '(p_%s P %s %s %s)' % (f.id, self.exT(e.args[0], 'darr'), self.exT(e.args[1], 'points'),
                                              self.exT(e.args[2], 'box')), 'arr'
            fail(e, 'unsupported call `%s`' % ast.unparse(e))
        if is_np(f, 'arange') and len(e.args) == 3 and not kw and int_const(e.args[0], 0):
            return '(p_arange0 P %s %s)' % (self.exF(e.args[1]), self.exF(e.args[2])), 'edges'
        if is_np(f, 'isfinite') and len(e.args) == 1 and not kw:
            v, t = self.ex(e.args[0])
            if t == 'dcol':
                return '(p_isfinite_col P %s)' % v, 'bcol'
            if t == 'dmat':
                return '(p_mat_isfinite P %s)' % v, 'bmat'
            fail(e, 'np.isfinite of a %s' % (t,))
        if is_np(f, 'any') and len(e.args) == 1 and not kw:
            return '(p_any P %s)' % self.exT(e.args[0], 'bcol'), 'bool'
        if is_np(f, 'array') and len(e.args) == 1 and not kw and isinstance(e.args[0], ast.List) and e.args[0].elts:
            rows = []
            for r in e.args[0].elts:
                if not (isinstance(r, ast.List) and len(r.elts) == 2):
                    fail(e, 'only np.array([[lo, hi], ...]) is supported')
                rows.append('[' + '; '.join(self.exF(x) for x in r.elts) + ']')
            if len(rows) != self.ndim:
                fail(e, 'the box has %d rows in the %d-D function' % (len(rows), self.ndim))
            return '(p_box P [%s])' % '; '.join(rows), 'box'
        # np.random.randint(0, n, m)
        if isinstance(f, ast.Attribute) and f.attr == 'randint' and is_np(f.value, 'random') and len(e.args) == 3 and not kw \
                and int_const(e.args[0], 0):
            return '(p_random_randint P 0 %s %s)' % (self.exT(e.args[1], 'Z'), self.exT(e.args[2], 'Z')), 'indices'
        if isinstance(f, ast.Attribute):
            # pos[:, np.newaxis].repeat(K, axis=1)
            if f.attr == 'repeat' and isinstance(f.value, ast.Subscript) and isinstance(f.value.slice, ast.Tuple) \
                    and len(f.value.slice.elts) == 2 and full_slice(f.value.slice.elts[0]) and is_np(f.value.slice.elts[1], 'newaxis'):
                if not (len(e.args) == 1 and set(kw) == {'axis'} and int_const(kw['axis'], 1)):
                    fail(e, 'only <pos>[:, np.newaxis].repeat(<K>, axis=1) is supported')
                return '(p_repeat_axis1 P %s %s)' % (self.exT(f.value.value, 'points'), self.exT(e.args[0], 'Z')), 'pmat'
            v, t = self.ex(f.value)
            if not e.args and not kw:
                if t == 'series' and f.attr in ('min', 'max', 'count'):
                    return '(p_%s P %s)' % (f.attr, v), ('Z' if f.attr == 'count' else 'float')
                if t == 'edges' and f.attr == 'max':
                    return '(p_edges_max P %s)' % v, 'float'
        fail(e, 'unsupported call `%s`' % ast.unparse(e))

    # ------------------------------------------------------------------ statements
    def src(self, s, ind):
        line = ast.unparse(s).split('\n')[0]
        return '%s(* line %d: %s *)\n' % (ind, s.lineno, cmt(line))

    def tup(self, W):
        return cq(W[0]) if len(W) == 1 else '(' + ', '.join(cq(w) for w in W) + ')'

    def pat(self, W):
        return cq(W[0]) if len(W) == 1 else "'(" + ', '.join(cq(w) for w in W) + ')'

    def simple(self, s, ind):
        """one statement that is a plain binding; returns text of the let"""
        if isinstance(s, ast.Assign):
            if len(s.targets) != 1:
                fail(s, 'chained assignment')
            tg = s.targets[0]
            if isinstance(tg, ast.Name):
                v, t = self.ex(s.value)
                if t not in COQTY:
                    fail(s, 'cannot bind a value of type %s' % (t,))
                if tg.id in self.env and self.env[tg.id] != t and not (self.env[tg.id] in OPTION_OF and OPTION_OF[self.env[tg.id]] == t):
                    # only the narrowing of an optional parameter may change a variable's type, and `dist`
                    # (matrix -> selected distances), which is how the source is written
                    if not (self.env[tg.id], t) == ('dmat', 'darr'):
                        fail(s, 'variable %s changes type from %s to %s' % (tg.id, self.env[tg.id], t))
                self.env[tg.id] = t
                return self.src(s, ind) + '%slet %s := %s in\n' % (ind, cq(tg.id), v)
            if isinstance(tg, ast.Tuple) and all(isinstance(x, ast.Name) for x in tg.elts):
                names = [x.id for x in tg.elts]
                if len(set(names)) != len(names):
                    fail(s, 'a name occurs twice in the assignment target')
                if isinstance(s.value, ast.Tuple):
                    if len(s.value.elts) != len(names):
                        fail(s, 'tuple sizes differ')
                    vals = [self.exF(x) for x in s.value.elts]
                    rhs = '(' + ', '.join(vals) + ')'
                elif isinstance(s.value, ast.Name):
                    v, t = self.var(s, s.value.id)
                    if t != ('tuple', len(names)):
                        fail(s, '%s is not a tuple of %d floats' % (s.value.id, len(names)))
                    rhs = v
                else:
                    fail(s, 'unsupported tuple assignment `%s`' % ast.unparse(s))
                for n in names:
                    if n in self.env and self.env[n] != 'float':
                        fail(s, 'variable %s changes type' % n)
                    self.env[n] = 'float'
                return self.src(s, ind) + "%slet %s := %s in\n" % (ind, self.pat(names), rhs)
            fail(s, 'unsupported assignment target `%s`' % ast.unparse(tg))
        fail(s, 'unsupported statement %s' % type(s).__name__)

    def is_raise_if(self, s):
        return isinstance(s, ast.If) and not s.orelse and len(s.body) == 1 and isinstance(s.body[0], ast.Raise)

    def is_query(self, s):
        return isinstance(s, ast.Assign) and isinstance(s.value, ast.Call) and isinstance(s.value.func, ast.Attribute) \
            and s.value.func.attr == 'query'

    def none_test(self, s):
        t = s.test
        if isinstance(t, ast.Compare) and len(t.ops) == 1 and isinstance(t.ops[0], ast.Is) and is_none(t.comparators[0]) \
                and isinstance(t.left, ast.Name):
            ty = self.env.get(t.left.id)
            if ty in OPTION_OF or (isinstance(ty, tuple) and ty[0] == 'otuple'):
                return t.left.id
            fail(s, '`%s is None` on something that is not an optional parameter' % t.left.id)
        return None

    def branch(self, stmts, ind):
        """a branch of an if: plain bindings and nested ifs only"""
        out = ''
        for s in stmts:
            if isinstance(s, ast.If):
                out += self.ifstmt(s, ind)
            else:
                out += self.simple(s, ind)
        return out

    def ifstmt(self, s, ind):
        for n in ast.walk(s):
            if isinstance(n, (ast.Return, ast.Continue, ast.Break, ast.Raise)):
                fail(n, 'unsupported control flow inside an if')
            if isinstance(n, ast.Call) and isinstance(n.func, ast.Attribute) and n.func.attr == 'query':
                fail(n, 'the kd-tree query inside an if')
        x = self.none_test(s)
        env0 = dict(self.env)
        if x is None:
            c = self.exT(s.test, 'bool')
        envs, texts = [], []
        for i, body in enumerate((s.body, s.orelse)):
            self.env = dict(env0)
            if x is not None:
                if i == 0:
                    del self.env[x]             # reading X where it is None is outside the subset
                else:
                    ty = env0[x]
                    self.env[x] = OPTION_OF[ty] if ty in OPTION_OF else ('tuple', ty[1])
            texts.append(self.branch(list(body), ind + '    '))
            envs.append(self.env)
        a0, a1 = assigned(s.body), assigned(s.orelse)
        W = []
        for w in a0 + [z for z in a1 if z not in a0]:
            if w in env0 and w != x or (w in a0 and w in a1) or (w == x and (w in a0 or w in a1)):
                W.append(w)
        if not W:
            fail(s, 'an if that changes nothing visible afterwards')
        self.env = dict(env0)
        for w in W:
            tys = []
            for i, (en, asg) in enumerate(zip(envs, (a0, a1))):
                if w in asg:
                    tys.append(en[w])
                elif w == x:
                    # the branch that leaves X alone: in the Some branch it is the narrowed value
                    if i == 0:
                        fail(s, '%s is None in the branch that does not assign it' % x)
                    tys.append(en[w])
                else:
                    tys.append(env0[w])
            if tys[0] != tys[1]:
                fail(s, 'variable %s has type %s in one branch and %s in the other' % (w, tys[0], tys[1]))
            self.env[w] = tys[0]
        # names local to one branch are dropped from the environment (self.env was reset to env0)
        ret = ind + '    ' + self.tup(W)
        if x is not None:
            return ('%s(* line %d: if %s *)\n%slet %s :=\n%s  match %s with\n%s  | None =>\n%s%s\n%s  | Some %s =>\n%s%s\n%s  end in\n'
                    % (ind, s.lineno, cmt(ast.unparse(s.test)), ind, self.pat(W), ind, cq(x), ind, texts[0], ret, ind, cq(x),
                       texts[1], ret, ind))
        return ('%s(* line %d: if %s *)\n%slet %s :=\n%s  if %s then\n%s%s\n%s  else\n%s%s in\n'
                % (ind, s.lineno, cmt(ast.unparse(s.test)), ind, self.pat(W), ind, c, texts[0], ret, ind, texts[1], ret))

    def block(self, stmts, ind):
        """the function body from here on, as one Coq term of type result _"""
        if not stmts:
            fail(self.f, 'the function does not end with return')
        s, rest = stmts[0], stmts[1:]
        if isinstance(s, ast.Expr) and isinstance(s.value, ast.Constant) and isinstance(s.value.value, str):
            return self.block(rest, ind)
        if isinstance(s, ast.Return):
            if rest:
                fail(s, 'statements after return')
            if not (isinstance(s.value, ast.Tuple) and len(s.value.elts) == 2):
                fail(s, 'only `return (r_edges, g_r)` is supported')
            a = self.exT(s.value.elts[0], 'edges')
            b = self.exT(s.value.elts[1], 'arr')
            return self.src(s, ind) + '%sOk (%s, %s)' % (ind, a, b)
        if self.is_raise_if(s):
            r = s.body[0]
            ok = r.cause is None and isinstance(r.exc, ast.Call) and isinstance(r.exc.func, ast.Name) \
                and r.exc.func.id in ('MemoryError', 'RuntimeError') and r.exc.func.id not in self.env \
                and len(r.exc.args) == 1 and not r.exc.keywords and isinstance(r.exc.args[0], ast.Constant) \
                and isinstance(r.exc.args[0].value, str)
            if not ok:
                fail(r, 'only `raise MemoryError(<literal>)` / `raise RuntimeError(<literal>)` is supported')
            c = self.exT(s.test, 'bool')
            return ('%s(* line %d: if %s: raise %s *)\n%sif %s then Raise %s else\n'
                    % (ind, s.lineno, cmt(ast.unparse(s.test)), r.exc.func.id, ind, c, r.exc.func.id)) + self.block(rest, ind)
        if self.is_query(s):
            tg = s.targets[0] if len(s.targets) == 1 else None
            c = s.value
            kw = kwdict(c)
            if not (isinstance(tg, ast.Tuple) and len(tg.elts) == 2 and all(isinstance(z, ast.Name) for z in tg.elts)
                    and tg.elts[0].id != tg.elts[1].id and len(c.args) == 1 and set(kw) == {'k', 'distance_upper_bound'}):
                fail(s, 'only `<dist>, <idxs> = <tree>.query(<pos>, k=<K>, distance_upper_bound=<c>)` is supported')
            t = self.exT(c.func.value, 'tree')
            term = 'p_query P %s %s %s %s' % (t, self.exT(c.args[0], 'points'), self.exT(kw['k'], 'Z'),
                                              self.exF(kw['distance_upper_bound']))
            d, i = tg.elts[0].id, tg.elts[1].id
            for n in (d, i):
                if n in self.env:
                    fail(s, 'variable %s is rebound by the query' % n)
            self.env[d], self.env[i] = 'dmat', 'imat'
            return (self.src(s, ind) + "%sbind (%s) (fun '(%s, %s) =>\n" % (ind, term, cq(d), cq(i))
                    + self.block(rest, ind) + ')')
        if isinstance(s, ast.If):
            return self.ifstmt(s, ind) + self.block(rest, ind)
        return self.simple(s, ind) + self.block(rest, ind)

    def translate(self):
        for n in ast.walk(self.f):
            if isinstance(n, (ast.While, ast.For, ast.With, ast.DictComp, ast.SetComp, ast.ListComp, ast.GeneratorExp, ast.Yield,
                              ast.YieldFrom, ast.ClassDef, ast.Global, ast.Nonlocal, ast.Delete, ast.Lambda, ast.Await,
                              ast.NamedExpr, ast.Assert, ast.Import, ast.ImportFrom, ast.Try, ast.AugAssign, ast.AnnAssign,
                              ast.AsyncFunctionDef, ast.Starred, ast.IfExp, ast.BoolOp)):
                fail(n, 'unsupported construct %s' % type(n).__name__)
            if isinstance(n, ast.FunctionDef) and n is not self.f:
                fail(n, 'nested function')
        body = self.block(list(self.f.body), '  ')
        binders = '(P : numpy) ' + ' '.join('(%s : %s)' % (cq(n), self.coqty(t)) for n, t in self.params)
        return '(* ===== %s (line %d) ===== *)\nDefinition py_%s %s\n  : result (Edges P * Arr P) :=\n%s.\n' % (
            self.f.name, self.f.lineno, self.f.name, binders, body)


PARAMS = ['feat', 'cutoff', 'fraction', 'dr', 'p_indices', 'ndensity', 'boundary', 'handle_edge', 'max_rel_ndensity']
DEFAULTS = ['1.0', '0.5', 'None', 'None', 'None', 'True', '10']
WANTED = [('pair_correlation_2d', 2), ('pair_correlation_3d', 3)]
BOUNDED = {'arclen_2d_bounded': 2, 'area_3d_bounded': 3}
CONSTS = ['MAX_ARRAY_SIZE']
# names the functions use that must mean what the vocabulary says: bound by these imports only
IMPORTS = {'np': ('import', 'numpy'), 'cKDTree': ('from', 'scipy.spatial')}


def check_sig(fdef):
    a = fdef.args
    if [x.arg for x in a.args] != PARAMS or a.vararg or a.kwonlyargs or getattr(a, 'posonlyargs', []) or a.kwarg:
        fail(fdef, 'signature of %s changed: %s' % (fdef.name, ast.unparse(a)))
    if [ast.unparse(d) for d in a.defaults] != DEFAULTS:
        fail(fdef, 'defaults of %s changed: %s' % (fdef.name, [ast.unparse(d) for d in a.defaults]))
    if fdef.decorator_list:
        fail(fdef, 'decorated function')


def module_facts(tree):
    """definitions, the constant, and: nothing binds the names the translation relies on a second time"""
    defs, consts, imports = {}, {}, {}
    names = [w for w, _ in WANTED] + list(BOUNDED)
    for n in tree.body:
        if isinstance(n, ast.FunctionDef) and n.name in names:
            if n.name in defs:
                raise TranslationError('function %s defined twice' % n.name)
            defs[n.name] = n
        if isinstance(n, ast.Assign) and len(n.targets) == 1 and isinstance(n.targets[0], ast.Name) and n.targets[0].id in CONSTS:
            c = n.targets[0].id
            if c in consts:
                raise TranslationError('%s assigned twice' % c)
            v = n.value
            if not (isinstance(v, ast.Constant) and isinstance(v.value, (int, float)) and not isinstance(v.value, bool)):
                raise TranslationError('%s is not a numeric literal' % c)
            consts[c] = (v.value, n.targets[0])
        if isinstance(n, ast.Import):
            for al in n.names:
                if (al.asname or al.name) in IMPORTS:
                    if IMPORTS[al.asname or al.name] != ('import', al.name) or (al.asname or al.name) in imports:
                        raise TranslationError('unexpected import binding %s' % (al.asname or al.name))
                    imports[al.asname or al.name] = al
        if isinstance(n, ast.ImportFrom):
            for al in n.names:
                if (al.asname or al.name) in IMPORTS:
                    if IMPORTS[al.asname or al.name] != ('from', n.module) or n.level != 0 or al.asname or al.name in imports:
                        raise TranslationError('unexpected import binding %s' % (al.asname or al.name))
                    imports[al.name] = al
    watched = set(names) | set(CONSTS) | set(IMPORTS) | {'len', 'int', 'slice', 'MemoryError', 'RuntimeError'}
    for n in ast.walk(tree):
        bound = None
        if isinstance(n, (ast.FunctionDef, ast.ClassDef, ast.AsyncFunctionDef)) and n.name in watched and defs.get(n.name) is not n:
            bound = n.name
        if isinstance(n, ast.Name) and isinstance(n.ctx, (ast.Store, ast.Del)) and n.id in watched \
                and not (n.id in consts and consts[n.id][1] is n):
            bound = n.id
        if isinstance(n, ast.alias):
            nm = (n.asname or n.name).split('.')[0]
            if n.name == '*':
                bound = '* (star import)'
            elif nm in watched and imports.get(nm) is not n:
                bound = nm
        if isinstance(n, ast.arg) and n.arg in watched:
            bound = n.arg
        if isinstance(n, (ast.Global, ast.Nonlocal)) and set(n.names) & watched:
            bound = sorted(set(n.names) & watched)[0]
        if bound:
            raise TranslationError('%s is bound a second time (line %s)' % (bound, getattr(n, 'lineno', '?')))
    for w in names:
        if w not in defs:
            raise TranslationError('function %s not found' % w)
    for c in CONSTS:
        if c not in consts:
            raise TranslationError('module constant %s not found' % c)
    for i in IMPORTS:
        if i not in imports:
            raise TranslationError('%s is not imported as expected' % i)
    return defs, {c: v for c, (v, _) in consts.items()}


HEADER = """(* GENERATED by tools/py2coq_paircorr.py from trackpy/static.py -- do not edit.
   pair_correlation_2d and pair_correlation_3d, statement by statement, as Gallina over
   Model/PyPairCorr.v: every numpy / pandas / scipy operation is a field of the interface record
   [P : numpy] (conventions and the list of primitives: that file and the translator's docstring).
   Proofs/StaticPairCorrGen.v instantiates P with PairCorrI and proves the functions below equal to
   the hand-written pair_correlation_sel wherever they do not raise.
   The functions return  Ok (r_edges, g_r)  or  Raise MemoryError / RuntimeError / (from the query) LibraryError.
   Pinned defaults: fraction=1.0, dr=0.5, p_indices=None, ndensity=None, boundary=None, handle_edge=True,
   max_rel_ndensity=10.  MAX_ARRAY_SIZE = %s is read from the module and inlined. *)
From Coq Require Import ZArith QArith String List Bool.
From TP Require Import Model.PyPairCorr.
Import ListNotations.
Local Open Scope string_scope.
"""


def translate(repo):
    path = os.path.join(repo, 'trackpy', 'static.py')
    tree = ast.parse(open(path).read())
    defs, consts = module_facts(tree)
    for b in BOUNDED:
        a = defs[b].args
        if [x.arg for x in a.args] != ['dist', 'pos', 'box'] or a.vararg or a.kwarg or a.kwonlyargs or a.defaults or defs[b].decorator_list:
            fail(defs[b], 'signature of %s changed' % b)
    out = []
    for name, ndim in WANTED:
        check_sig(defs[name])
        out.append(Fn(defs[name], ndim, consts, BOUNDED).translate())
    return HEADER % (consts['MAX_ARRAY_SIZE'],) + '\n' + '\n'.join(out)


def main():
    ap = argparse.ArgumentParser()
    ap.add_argument('--repo', default=os.environ.get('TRACKPY_REPO', '/repo'))
    ap.add_argument('--out', default=os.path.join(os.path.dirname(os.path.dirname(os.path.abspath(__file__))), 'coq', 'Gen', 'paircorr.v'))
    ap.add_argument('--stdout', action='store_true')
    a = ap.parse_args()
    try:
        text = translate(a.repo)
    except TranslationError as e:
        sys.stderr.write('py2coq_paircorr: TRANSLATION ERROR: %s\n' % e)
        sys.exit(2)
    except (OSError, SyntaxError) as e:
        sys.stderr.write('py2coq_paircorr: TRANSLATION ERROR: cannot read / parse the source: %s\n' % e)
        sys.exit(2)
    except Exception as e:      # fail closed on anything unforeseen
        sys.stderr.write('py2coq_paircorr: TRANSLATION ERROR: internal error %r\n' % (e,))
        sys.exit(2)
    if a.stdout:
        sys.stdout.write(text)
        return
    old = open(a.out).read() if os.path.exists(a.out) else None
    if old != text:
        os.makedirs(os.path.dirname(a.out), exist_ok=True)
        tmp = a.out + '.tmp%d' % os.getpid()
        with open(tmp, 'w') as f:
            f.write(text)
        os.replace(tmp, a.out)
        print('py2coq_paircorr: wrote %s (changed)' % a.out)
    else:
        print('py2coq_paircorr: %s up to date' % a.out)


if __name__ == '__main__':
    main()
