#!/usr/bin/env python3
"""Fail-closed translator (route T) for C17.

Reads  $TRACKPY_REPO/trackpy/motion.py  (default /repo) with the Python `ast`
module and regenerates /verif/coq/Gen/msd.v :

    msd, _msd_N, _msd_iter, _msd_gaps, _msd_fft, imsd, emsd   ->   py_msd, py__msd_N, ...

as shallow Gallina over the vocabulary of coq/Model/PyMsd.v (which gives every
numpy / pandas operation below exactly the meaning the hand-written model
Model/MSD.v gives it).  Proofs/MSDGen.v proves the generated functions equal to
that model for all inputs and Properties/C17.v restates the C17 theorems for them.

Embedding
  * a Python variable is a let-bound Coq variable of the same name (`_` appended
    when the name is reserved, e.g. N -> N_); every assignment is a new let;
  * values are typed (int -> Z, float -> Qc, 1-D / 2-D arrays, tables ...: see
    TYPES); an operator is translated by the types of its operands (numpy
    broadcasting is resolved statically: (L, ndim) / (L, 1), (ndim,) - (L, ndim), ...);
  * an operation that can raise is bound in the exception monad:
        bind (op) (fun tmp<k> => ...)       sub-expressions left to right;
  * `try: <assignments> except ValueError: <if / raise>`  is
        try_except_ValueError (<body>; Ret <assigned>) (<handler>);  a bare `raise` is Raise EValueError;
  * `if X is None: X = ['x', 'y']` for the optional pos_columns is a match on the option;
  * `if detail: <assignments>` yields the assigned variables; `if not detail: return e` and
    `if c: return a  else: return b` are Coq conditionals over the rest of the function;
  * `for pid, ptraj in <groups>: L.append(e) ...` is foldM over a lambda-lifted body whose state
    is the tuple of the lists it appends to;
  * the generator _msd_iter (`with warnings.catch_warnings(): warnings.simplefilter(...)`
    is transparent) is the list of the rows it yields: map <body> lagtimes;
  * np.where(c, a, b) over the one vector variable t is  map (fun t_i => if c then a else b) t;
  * the three statements  F = np.fft.fft(r, n=E, axis=0); PSD = F * F.conjugate();
    S = np.fft.ifft(PSD, axis=0)[a:b].real   are ONE primitive  np_fft_autocorr r E a b
    (F and PSD may not be used anywhere else);
  * column labels: '<{}>'.format(p) -> LDisp p, '<{}^2>'.format(p) -> LSq p, 'msd' -> LMsd,
    'N' -> LN, 'lagt' -> LLagt; position columns 'x', 'y', 'z' -> col_x, col_y, col_z;
  * utils.pandas_concat is not translated: its definition is compared with a pinned copy
    (pd.concat with sort=False) and it is the primitive pd_concat_keys.

Anything outside this subset: exit status 2, nothing written (the check treats that like a
broken proof).

Usage:  py2coq_msd.py [--repo /repo] [--out /verif/coq/Gen/msd.v] [--stdout]
"""
import ast, sys, os, argparse


class TranslationError(Exception):
    pass


def fail(node, msg):
    raise TranslationError('line %s: %s' % (getattr(node, 'lineno', '?'), msg))


# python-side type -> Coq type
TYPES = {
    'int': 'Z', 'float': 'Qc', 'bool': 'bool', 'str': 'string',
    'tdf': 'tdf', 'ptdf': 'ptdf', 'iser': 'list Z', 'onum': 'onum', 'ivec': 'list Z', 'icol': 'list Z', 'fvec': 'list Qc',
    'ovec': 'list cell', 'qarr2': 'qarr2', 'oarr2': 'oarr2', 'posdf': 'posdf', 'frame': 'frame', 'lbls': 'list lbl',
    'lbl': 'lbl', 'poscols': 'list nat', 'optposcols': 'option (list nat)', 'idx': 'list nat', 'rows': 'list (list cell)',
    'mframe': 'mframe', 'mseries': 'mseries', 'mask2': 'list (list bool)', 'lser': 'list (Z * cell)', 'wide': 'wide',
    'widef': 'widef', 'listZ': 'list Z', 'listframe': 'list frame', 'groups': 'list (Z * tdf)', 'fseries': 'list (cell * cell)',
    'emsdres': 'emsd_result', 'subtbl': 'oarr2',
}

RESERVED = {'N', 'Z', 'Q', 'Qc', 'S', 'O', 'I', 'at', 'in', 'if', 'then', 'else', 'let', 'fun', 'match', 'with', 'end', 'fix', 'forall',
            'exists', 'return', 'as', 'by', 'where', 'using', 'for', 'Type', 'Prop', 'Set', 'map', 'map2', 'seq', 'nth', 'bind',
            'Ret', 'Raise', 'Some', 'None', 'true', 'false', 'cell', 'frame', 'wide', 'widef', 'lbl', 'tdf', 'ptdf', 'posdf',
            'mframe', 'mseries', 'row', 'prow', 'vec', 'foldM', 'select', 'assoc', 'setcol', 'getcol', 'getcols', 'mean',
            'nanmean', 'nansum', 'osum', 'osub', 'odiv', 'omul', 'cumsum', 'qsum', 'zq', 'nq', 'q2', 'sqr', 'insert', 'isort',
            'msd', 'imsd', 'emsd', 'lags', 'col', 'coord', 'dot', 'lookup', 'reindex', 'entry', 'pids', 'length', 'fst', 'snd',
            'app', 'rev', 'firstn', 'skipn', 'filter', 'combine', 'exn', 'pyres', 'onum', 'string', 'list', 'option', 'bool',
            'nat', 'negb', 'andb', 'orb', 'this', 'it', 'st'}

LABELS = {'msd': 'LMsd', 'N': 'LN', 'lagt': 'LLagt'}
POSNAMES = {'x': 'col_x', 'y': 'col_y', 'z': 'col_z'}
FORMATS = {'<{}>': 'LDisp', '<{}^2>': 'LSq'}


def cq(n):
    if n in RESERVED or n.startswith('py_') or n.startswith('tmp') or n.startswith('np_') or n.startswith('pd_') \
            or n.startswith('df_') or n.startswith('mf_') or n.startswith('ms_') or n.endswith('_i'):
        return n + '_'
    return n


def cstr(s):
    if not isinstance(s, str) or any(ord(c) < 32 or ord(c) > 126 for c in s):
        raise TranslationError('unsupported string literal %r' % (s,))
    return '"%s"%%string' % s.replace('"', '""')


def cmt(text):
    return text.replace('(*', '( *').replace('*)', '* )')


def is_const(e, v=None, ty=None):
    if not isinstance(e, ast.Constant):
        return False
    if ty is not None and (not isinstance(e.value, ty) or isinstance(e.value, bool) != (ty is bool)):
        return False
    return v is None or (e.value == v and type(e.value) is type(v))


def is_none(e):
    return isinstance(e, ast.Constant) and e.value is None


def is_attr(e, base, attr):
    """base.attr with base a Name"""
    return isinstance(e, ast.Attribute) and e.attr == attr and isinstance(e.value, ast.Name) and e.value.id == base


def kwmap(call):
    out = {}
    for k in call.keywords:
        if k.arg is None or k.arg in out:
            fail(call, 'unsupported keyword arguments in `%s`' % ast.unparse(call))
        out[k.arg] = k.value
    return out


def zlit(v):
    return '%d%%Z' % v if v >= 0 else '(%d)%%Z' % v


# signatures of the translated functions: parameters (python name, type), pinned defaults, result
SIGS = {
    'msd': dict(params=[('traj', 'tdf'), ('mpp', 'float'), ('fps', 'float'), ('max_lagtime', 'int'), ('detail', 'bool'),
                        ('pos_columns', 'optposcols')], defaults=['100', 'False', 'None'], result='frame', raises=True),
    '_msd_N': dict(params=[('N', 'int'), ('t', 'ivec')], defaults=[], result='fvec', raises=False),
    '_msd_iter': dict(params=[('pos', 'oarr2'), ('lagtimes', 'ivec')], defaults=[], result='rows', raises=False),
    '_msd_gaps': dict(params=[('traj', 'tdf'), ('mpp', 'float'), ('fps', 'float'), ('max_lagtime', 'int'), ('detail', 'bool'),
                              ('pos_columns', 'optposcols')], defaults=['100', 'False', 'None'], result='frame', raises=True),
    '_msd_fft': dict(params=[('traj', 'tdf'), ('mpp', 'float'), ('fps', 'float'), ('max_lagtime', 'int'), ('detail', 'bool'),
                             ('pos_columns', 'optposcols')], defaults=['100', 'False', 'None'], result='frame', raises=True),
    'imsd': dict(params=[('traj', 'ptdf'), ('mpp', 'float'), ('fps', 'float'), ('max_lagtime', 'int'), ('statistic', 'lbl'),
                         ('pos_columns', 'optposcols')], defaults=['100', "'msd'", 'None'], result='widef', raises=True,
                 lists={'ids': 'listZ', 'msds': 'listframe'}),
    'emsd': dict(params=[('traj', 'ptdf'), ('mpp', 'float'), ('fps', 'float'), ('max_lagtime', 'int'), ('detail', 'bool'),
                         ('pos_columns', 'optposcols')], defaults=['100', 'False', 'None'], result='emsdres', raises=True,
                 lists={'ids': 'listZ', 'msds': 'listframe'}),
}
ORDER = ['_msd_N', '_msd_iter', '_msd_gaps', '_msd_fft', 'msd', 'imsd', 'emsd']


class Fn:
    def __init__(self, fdef):
        self.f = fdef
        self.name = fdef.name
        self.sig = SIGS[fdef.name]
        self.env = {}
        self.pre = []          # pending monadic binds [(var, term)]
        self.ntmp = 0
        self.nloop = 0
        self.aux = []          # lambda-lifted definitions emitted before the function
        self.subtbl = {}       # tmp var of a sub-table -> term of the table it was cut from
        self.vec = None        # (python name, element variable) inside np.where
        self.in_handler = False
        for n, t in self.sig['params']:
            self.env[n] = t

    # ------------------------------------------------------------------ helpers
    def tmp(self):
        self.ntmp += 1
        return 'tmp%d' % self.ntmp

    def monadic(self, term, ty):
        t = self.tmp()
        self.pre.append((t, term))
        return t, ty

    def var(self, node, name):
        if self.vec and name == self.vec[0]:
            return self.vec[1], 'float'
        if name not in self.env:
            fail(node, 'name %s is read where it is not bound (or is outside the translated subset)' % name)
        return cq(name), self.env[name]

    def exT(self, e, want):
        s, t = self.ex(e)
        if t != want:
            fail(e, 'expression `%s` has type %s, expected %s' % (ast.unparse(e), t, want))
        return s

    def as_float(self, s, t, node):
        if t == 'float':
            return s
        if t == 'int':
            return '(zq %s)' % s
        fail(node, 'a %s is used as a number' % t)

    def label(self, e):
        if is_const(e, ty=str):
            if e.value not in LABELS:
                fail(e, 'unknown column label %r' % e.value)
            return LABELS[e.value]
        return self.exT(e, 'lbl')

    # ------------------------------------------------------------------ expressions
    def ex(self, e):
        if isinstance(e, ast.Name):
            return self.var(e, e.id)
        if isinstance(e, ast.Constant):
            v = e.value
            if isinstance(v, bool):
                return ('true' if v else 'false'), 'bool'
            if isinstance(v, int):
                return zlit(v), 'int'
            if isinstance(v, str):
                return cstr(v), 'str'
            fail(e, 'unsupported constant %r' % (v,))
        if isinstance(e, ast.List):
            if e.elts and all(is_const(x, ty=str) and x.value in POSNAMES for x in e.elts):
                return '[' + '; '.join(POSNAMES[x.value] for x in e.elts) + ']', 'poscols'
            fail(e, 'unsupported list `%s`' % ast.unparse(e))
        if isinstance(e, ast.ListComp):
            return self.listcomp(e)
        if isinstance(e, ast.BinOp):
            return self.binop(e, e.op, e.left, e.right)
        if isinstance(e, ast.UnaryOp):
            if isinstance(e.op, ast.USub):
                a, t = self.ex(e.operand)
                if t == 'int':
                    return '(- %s)%%Z' % a, 'int'
                if t == 'float':
                    return '(- %s)' % a, 'float'
                fail(e, 'unary minus on a %s' % t)
            if isinstance(e.op, ast.Not):
                return '(negb %s)' % self.exT(e.operand, 'bool'), 'bool'
            fail(e, 'unsupported unary operator')
        if isinstance(e, ast.Compare):
            return self.compare(e)
        if isinstance(e, ast.Subscript):
            return self.subscript(e)
        if isinstance(e, ast.Attribute):
            return self.attribute(e)
        if isinstance(e, ast.Call):
            return self.call(e)
        fail(e, 'unsupported expression `%s`' % ast.unparse(e))

    def listcomp(self, e):
        g = e.generators
        if len(g) != 1 or g[0].ifs or g[0].is_async or not isinstance(g[0].target, ast.Name):
            fail(e, 'unsupported list comprehension')
        src = self.exT(g[0].iter, 'poscols')
        x = g[0].target.id
        if x in self.env:
            fail(e, 'comprehension variable %s shadows a variable' % x)
        b = e.elt
        if not (isinstance(b, ast.Call) and isinstance(b.func, ast.Attribute) and b.func.attr == 'format'
                and is_const(b.func.value, ty=str) and b.func.value.value in FORMATS and len(b.args) == 1 and not b.keywords
                and isinstance(b.args[0], ast.Name) and b.args[0].id == x):
            fail(e, "only ['<{}>'.format(p) for p in pos_columns] / ['<{}^2>'.format(p) ...] are supported")
        return '(map (fun %s => %s %s) %s)' % (cq(x), FORMATS[b.func.value.value], cq(x), src), 'lbls'

    def binop(self, node, op, l, r):
        a, ta = self.ex(l)
        b, tb = self.ex(r)
        num = ('int', 'float')
        if ta in num and tb in num:
            if isinstance(op, ast.Pow):
                if not (is_const(r, ty=int) and 0 <= r.value <= 9):
                    fail(node, 'only small literal exponents are supported')
                if ta == 'int':
                    return '(Z.pow %s %s)' % (a, b), 'int'
                return '(Qcpower %s %d%%nat)' % (a, r.value), 'float'
            if ta == 'int' and tb == 'int' and not isinstance(op, ast.Div):
                sym = {ast.Add: '+', ast.Sub: '-', ast.Mult: '*'}.get(type(op))
                if sym is None:
                    fail(node, 'unsupported integer operator')
                return '(%s %s %s)%%Z' % (a, sym, b), 'int'
            sym = {ast.Add: '+', ast.Sub: '-', ast.Mult: '*', ast.Div: '/'}.get(type(op))
            if sym is None:
                fail(node, 'unsupported operator on numbers')
            return '(%s %s %s)' % (self.as_float(a, ta, l), sym, self.as_float(b, tb, r)), 'float'
        key = (type(op), ta, tb)
        if ta == 'onum' or tb == 'onum':
            f = {ast.Add: 'onum_add', ast.Sub: 'onum_sub'}.get(type(op))
            if f is None or {ta, tb} - {'onum', 'int'}:
                fail(node, 'unsupported operator on a value that may be NaN')
            wa = a if ta == 'onum' else '(Some %s)' % a
            wb = b if tb == 'onum' else '(Some %s)' % b
            return '(%s %s %s)' % (f, wa, wb), 'onum'
        table = {
            (ast.Mult, 'qarr2', 'float'): ('qarr2_scale %s %s', 'qarr2'),
            (ast.Mult, 'posdf', 'float'): ('posdf_mul %s %s', 'posdf'),
            (ast.Sub, 'qarr2', 'qarr2'): ('qarr2_sub %s %s', 'qarr2'),
            (ast.Add, 'qarr2', 'qarr2'): ('qarr2_add %s %s', 'qarr2'),
            (ast.Sub, 'fvec', 'qarr2'): ('qarr2_rowvec_sub %s %s', 'qarr2'),
            (ast.Div, 'qarr2', 'icol'): ('qarr2_div_icol %s %s', 'qarr2'),
            (ast.Sub, 'int', 'icol'): ('int_sub_icol %s %s', 'icol'),
            (ast.Mult, 'fvec', 'int'): ('fvec_mul_int %s %s', 'fvec'),
            (ast.Div, 'fvec', 'int'): ('fvec_div_int %s %s', 'fvec'),
            (ast.Div, 'ivec', 'float'): ('ivec_div_float %s %s', 'fvec'),
            (ast.Div, 'fvec', 'float'): ('fvec_div_float %s %s', 'fvec'),
            (ast.Sub, 'oarr2', 'oarr2'): ('oarr2_sub %s %s', 'oarr2'),
            (ast.Add, 'lbls', 'lbls'): ('%s ++ %s', 'lbls'),
        }
        if key in table:
            f, t = table[key]
            return '(' + f % (a, b) + ')', t
        if key == (ast.Mult, 'int', 'qarr2'):
            return '(qarr2_scale_l (zq %s) %s)' % (a, b), 'qarr2'
        if key == (ast.Mult, 'int', 'fvec'):
            return '(fvec_scale_l (zq %s) %s)' % (a, b), 'fvec'
        if isinstance(op, ast.Pow) and ta in ('qarr2', 'oarr2') and is_const(r, ty=int) and 0 <= r.value <= 9:
            return '(%s_pow %s %d%%nat)' % (ta, a, r.value), ta
        fail(node, 'operator %s on %s and %s is outside the translated subset' % (type(op).__name__, ta, tb))

    def compare(self, e):
        if len(e.ops) != 1:
            fail(e, 'chained comparison')
        op, l, r = e.ops[0], e.left, e.comparators[0]
        if isinstance(op, (ast.Is, ast.IsNot)):
            fail(e, '`is` outside the supported `if X is None:` statement')
        a, ta = self.ex(l)
        b, tb = self.ex(r)
        if isinstance(op, ast.Eq) and (ta == 'onum' or tb == 'onum') and not ({ta, tb} - {'onum', 'int'}):
            wa = a if ta == 'onum' else '(Some %s)' % a
            wb = b if tb == 'onum' else '(Some %s)' % b
            return '(onum_eqb %s %s)' % (wa, wb), 'bool'
        if ta == 'int' and tb == 'int':
            if isinstance(op, ast.Eq):
                return '(Z.eqb %s %s)' % (a, b), 'bool'
            if isinstance(op, ast.NotEq):
                return '(negb (Z.eqb %s %s))' % (a, b), 'bool'
        if isinstance(op, ast.Gt) and ta in ('int', 'float') and tb in ('int', 'float') and 'float' in (ta, tb):
            return '(qc_gtb %s %s)' % (self.as_float(a, ta, l), self.as_float(b, tb, r)), 'bool'
        fail(e, 'unsupported comparison `%s` (%s, %s)' % (ast.unparse(e), ta, tb))

    def slice_bounds(self, sl):
        def opt(x):
            if x is None:
                return 'None'
            return '(Some %s)' % self.exT(x, 'int')
        return opt(sl.lower), opt(sl.upper)

    def subscript(self, e):
        v, s = e.value, e.slice
        # traj.iloc[idx]
        if isinstance(v, ast.Attribute) and v.attr == 'iloc':
            d = self.exT(v.value, 'tdf')
            return '(tdf_iloc %s %s)' % (d, self.exT(s, 'idx')), 'tdf'
        # p.index[k]
        if isinstance(v, ast.Attribute) and v.attr == 'index':
            d = self.exT(v.value, 'posdf')
            return self.monadic('py_index_get (p_index %s) %s' % (d, self.exT(s, 'int')), 'int')
        # lagtimes[:, np.newaxis]
        if isinstance(s, ast.Tuple):
            if len(s.elts) == 2 and isinstance(s.elts[0], ast.Slice) and s.elts[0].lower is None and s.elts[0].upper is None \
                    and s.elts[0].step is None and is_attr(s.elts[1], 'np', 'newaxis'):
                return self.exT(v, 'ivec'), 'icol'
            fail(e, 'unsupported index `%s`' % ast.unparse(e))
        base, tb = self.ex(v)
        if isinstance(s, ast.Slice):
            if tb not in ('qarr2', 'oarr2', 'lbls'):
                fail(e, 'slice of a %s' % tb)
            if s.step is not None:
                if not (isinstance(s.step, ast.UnaryOp) and isinstance(s.step.op, ast.USub) and is_const(s.step.operand, 1)) \
                        or s.lower is not None or s.upper is None or tb == 'lbls':
                    fail(e, 'only a[:j:-1] is supported as a stepped slice')
                return '(arr2_slice_neg1 %s %s)' % (self.exT(s.upper, 'int'), base), tb
            lo, hi = self.slice_bounds(s)
            if tb == 'lbls':
                return '(py_slice %s %s %s)' % (lo, hi, base), 'lbls'
            return '(arr2_slice %s %s %s)' % (lo, hi, base), tb
        if tb == 'tdf':
            if is_const(s, 'frame'):
                return '(tdf_frame %s)' % base, 'iser'
            return '(tdf_getcols %s %s)' % (base, self.exT(s, 'poscols')), 'tdfsub'
        if tb == 'tdf_by_frame':
            return '(tdf_set_index_frame_getcols %s %s)' % (base, self.exT(s, 'poscols')), 'posdf'
        if tb == 'frame':
            ls, tl = self.ex(s)
            if tl == 'lbls':
                t, _ = self.monadic('df_getcols %s %s' % (base, ls), 'subtbl')
                self.subtbl[t] = base
                return t, 'subtbl'
            fail(e, 'only table[<list of labels>] is read from a result table')
        if tb == 'mframe':
            return self.monadic('mf_getcol %s %s' % (base, self.label(s)), 'mseries')
        if tb == 'frame_by_lagt':
            if not is_const(s, 'msd'):
                fail(e, "only .set_index('lagt')['msd'] is supported")
            return self.monadic('df_set_index_col_getcol %s LLagt LMsd' % base, 'fseries')
        if tb == 'mframe_swapped':
            return base + ' ' + self.label(s), 'mseries_swapped'
        fail(e, 'unsupported subscript `%s` (on a %s)' % (ast.unparse(e), tb))

    def attribute(self, e):
        if is_attr(e, 'np', 'newaxis'):
            fail(e, 'np.newaxis outside a[:, np.newaxis]')
        if e.attr == 'values':
            # X.index.values
            if isinstance(e.value, ast.Attribute) and e.value.attr == 'index':
                d, t = self.ex(e.value.value)
                if t == 'frame':
                    return '(df_index_values %s)' % d, 'ivec'
                if t == 'wide':
                    return '(wide_index_values %s)' % d, 'ivec'
                fail(e, '.index.values of a %s' % t)
            d, t = self.ex(e.value)
            if t == 'iser':
                return '(ser_values %s)' % d, 'ivec'
            if t == 'tdfsub':
                return d.replace('tdf_getcols ', 'tdf_getcols_values ', 1), 'qarr2'
            if t == 'posdf':
                return '(pos_values %s)' % d, 'oarr2'
            fail(e, '.values of a %s' % t)
        fail(e, 'unsupported attribute `%s`' % ast.unparse(e))

    def call(self, e):
        f = e.func
        kw = kwmap(e)
        if any(isinstance(a, ast.Starred) for a in e.args):
            fail(e, 'starred argument')
        A = e.args
        if isinstance(f, ast.Name):
            n = f.id
            if n in self.env:
                fail(e, 'call of a local variable')
            if n == 'len' and len(A) == 1 and not kw:
                a, t = self.ex(A[0])
                if t in ('iser', 'ivec', 'tdf', 'poscols', 'lbls', 'fvec'):
                    return '(py_len %s)' % a, 'int'
                if t == 'posdf':
                    return '(pos_len %s)' % a, 'int'
                if t == 'frame':
                    return '(df_len %s)' % a, 'int'
                if t == 'qarr2':
                    return '(arr2_len %s)' % a, 'int'
                fail(e, 'len of a %s' % t)
            if n == 'min' and len(A) == 2 and not kw:
                return '(Z.min %s %s)' % (self.exT(A[0], 'int'), self.exT(A[1], 'int')), 'int'
            if n == 'float' and len(A) == 1 and not kw:
                a, t = self.ex(A[0])
                return '(py_float %s)' % self.as_float(a, t, A[0]), 'float'
            if n in SIGS and n in DEFINED:
                return self.call_translated(e, n)
            if n == 'pandas_concat':
                if len(A) != 1 or 'keys' not in kw or set(kw) - {'keys', 'names'}:
                    fail(e, 'only pandas_concat(<frames>, keys=<ids>[, names=[..]]) is supported')
                if 'names' in kw and not (isinstance(kw['names'], ast.List) and len(kw['names'].elts) == 2
                                          and all(is_const(x, ty=str) for x in kw['names'].elts)):
                    fail(e, 'names= must be a list of two string literals')
                return self.monadic('pd_concat_keys %s %s' % (self.exT(A[0], 'listframe'), self.exT(kw['keys'], 'listZ')), 'mframe')
            fail(e, 'unsupported call `%s`' % ast.unparse(e))
        if not isinstance(f, ast.Attribute):
            fail(e, 'unsupported call `%s`' % ast.unparse(e))
        m = f.attr
        # ---- numpy
        if isinstance(f.value, ast.Name) and f.value.id == 'np' and 'np' not in self.env:
            if m == 'arange' and len(A) == 2 and not kw:
                return '(np_arange %s %s)' % (self.exT(A[0], 'int'), self.exT(A[1], 'int')), 'ivec'
            if m == 'argsort' and len(A) == 1 and set(kw) == {'kind'} and is_const(kw['kind'], 'stable'):
                return '(np_argsort_stable %s)' % self.exT(A[0], 'ivec'), 'idx'
            if m == 'array' and len(A) == 1 and set(kw) == {'dtype'} and isinstance(kw['dtype'], ast.Name) and kw['dtype'].id == 'float':
                return '(np_array_float %s)' % self.exT(A[0], 'ivec'), 'fvec'
            if m == 'cumsum' and len(A) == 1 and set(kw) == {'axis'} and is_const(kw['axis'], 0):
                return '(np_cumsum_axis0 %s)' % self.exT(A[0], 'qarr2'), 'qarr2'
            if m == 'nanmean' and len(A) == 1 and set(kw) == {'axis'} and is_const(kw['axis'], 0):
                return '(np_nanmean_axis0 %s)' % self.exT(A[0], 'oarr2'), 'ovec'
            if m == 'concatenate' and len(A) == 1 and isinstance(A[0], ast.Tuple) and len(A[0].elts) == 2:
                x, tx = self.ex(A[0].elts[0])
                y, ty = self.ex(A[0].elts[1])
                if not kw and tx == 'ovec' and ty == 'ovec':
                    return '(np_concatenate1 %s %s)' % (x, y), 'ovec'
                if set(kw) == {'axis'} and is_const(kw['axis'], 1) and tx == 'qarr2' and ty == 'qarr2':
                    return '(np_concatenate_axis1 %s %s)' % (x, y), 'qarr2'
                fail(e, 'unsupported np.concatenate')
            if m == 'where' and len(A) == 3 and not kw:
                return self.where(e)
            fail(e, 'unsupported numpy call `%s`' % ast.unparse(e))
        if isinstance(f.value, ast.Name) and f.value.id == 'pd' and 'pd' not in self.env:
            if m == 'DataFrame' and len(A) == 1 and set(kw) == {'columns', 'index'}:
                d, td = self.ex(A[0])
                cols = self.exT(kw['columns'], 'lbls')
                idx = self.exT(kw['index'], 'ivec')
                kwnames = [k.arg for k in e.keywords]
                if td == 'rows' and kwnames == ['columns', 'index']:
                    return '(pd_DataFrame_rows %s %s %s)' % (d, cols, idx), 'frame'
                if td == 'qarr2' and kwnames == ['index', 'columns']:
                    return '(pd_DataFrame_arr %s %s %s)' % (d, idx, cols), 'frame'
            fail(e, 'unsupported pandas call `%s`' % ast.unparse(e))
        # ---- methods
        recv, tr = self.ex(f.value)
        if tr == 'iser' and not A and not kw and m in ('max', 'min'):
            return '(ser_%s %s)' % (m, recv), 'onum'
        if tr == 'iser' and not A and not kw and m == 'nunique':
            return '(ser_nunique %s)' % recv, 'int'
        if tr == 'qarr2' and m == 'sum' and not A and set(kw) == {'axis'} and is_const(kw['axis'], ty=int) and kw['axis'].value in (0, 1):
            return '(np_sum_axis%d %s)' % (kw['axis'].value, recv), 'fvec'
        if tr == 'subtbl' and m == 'sum' and len(A) == 1 and is_const(A[0], 1) and set(kw) == {'skipna'} and is_const(kw['skipna'], False):
            return '(oarr2_sum_axis1_noskip (df_len %s) %s)' % (self.subtbl[recv], recv), 'ovec'
        if tr == 'tdf' and m == 'set_index' and len(A) == 1 and is_const(A[0], 'frame') and not kw:
            return recv, 'tdf_by_frame'
        if tr == 'posdf' and m == 'reindex' and len(A) == 1 and not kw:
            return self.monadic('pos_reindex %s %s' % (recv, self.exT(A[0], 'ivec')), 'posdf')
        if tr == 'ptdf' and m == 'reset_index' and not A and set(kw) == {'drop'} and is_const(kw['drop'], True):
            return '(ptdf_reset_index_drop %s)' % recv, 'ptdf'
        if tr == 'ptdf' and m == 'groupby' and len(A) == 1 and is_const(A[0], 'particle') and not kw:
            return '(ptdf_groupby_particle %s)' % recv, 'groups'
        if tr == 'mframe' and m == 'swaplevel' and len(A) == 2 and is_const(A[0], 0) and is_const(A[1], 1) and not kw:
            return 'mf_swaplevel_getcol_unstack ' + recv, 'mframe_swapped'
        if tr == 'mseries_swapped' and m == 'unstack' and not A and not kw:
            return self.monadic(recv, 'wide')
        if tr == 'qarr2' and m == 'astype' and len(A) == 1 and ast.unparse(A[0]) in ('np.float64', 'float', "'float64'") and not kw:
            # the model's position array holds the exact coordinate VALUES; a change of the storage dtype to float64 is the
            # identity on them (fix F20 inserted it so that narrow integer storage cannot wrap in r**2)
            return recv, 'qarr2'
        if tr == 'ivec' and m == 'astype' and len(A) == 1 and is_const(A[0], 'float64') and not kw:
            return '(ivec_astype_float %s)' % recv, 'fvec'
        if tr == 'mseries' and m == 'notna' and not A and not kw:
            return '(ms_notna %s)' % recv, 'mask2'
        if tr == 'mseries' and m == 'where' and len(A) == 1 and not kw:
            return '(ms_where %s %s)' % (recv, self.exT(A[0], 'mask2')), 'mseries'
        if tr == 'mframe' and m == 'mul' and len(A) == 1 and set(kw) == {'axis'} and is_const(kw['axis'], 0):
            return '(mf_mul_axis0 %s %s)' % (recv, self.exT(A[0], 'mseries')), 'mframe'
        if tr in ('mframe', 'mseries') and m == 'groupby' and not A and set(kw) == {'level'} and is_const(kw['level'], 1):
            return recv, tr + '_by_level1'
        if tr == 'mframe_by_level1' and m == 'mean' and not A and not kw:
            return '(mf_groupby_level1_mean %s)' % recv, 'frame'
        if tr == 'mseries_by_level1' and m in ('mean', 'sum') and not A and not kw:
            return '(ms_groupby_level1_%s %s)' % (m, recv), 'lser'
        if tr == 'frame' and m == 'div' and len(A) == 1 and set(kw) == {'axis'} and is_const(kw['axis'], 0):
            return '(df_div_axis0 %s %s)' % (recv, self.exT(A[0], 'lser')), 'frame'
        if tr == 'frame' and m == 'set_index' and len(A) == 1 and is_const(A[0], 'lagt') and not kw:
            return recv, 'frame_by_lagt'
        fail(e, 'unsupported call `%s` (receiver of type %s)' % (ast.unparse(e), tr))

    def call_translated(self, e, n):
        sig = SIGS[n]
        if e.keywords or len(e.args) != len(sig['params']):
            fail(e, 'call of %s must pass all %d arguments positionally' % (n, len(sig['params'])))
        args = [self.exT(a, t) for a, (_, t) in zip(e.args, sig['params'])]
        term = 'py_%s %s' % (n, ' '.join(args))
        if sig['raises']:
            return self.monadic(term, sig['result'])
        return '(%s)' % term, sig['result']

    def where(self, e):
        names = {x.id for x in ast.walk(e) if isinstance(x, ast.Name)}
        vecs = [x for x in names if self.env.get(x) == 'fvec']
        if len(vecs) != 1 or self.vec:
            fail(e, 'np.where needs exactly one vector variable')
        for x in names:
            if x in self.env and self.env[x] not in ('fvec', 'int', 'float'):
                fail(e, 'np.where over a %s' % self.env[x])
        v = vecs[0]
        el = v + '_i'
        self.vec = (v, el)
        npre = len(self.pre)
        c = self.exT(e.args[0], 'bool')
        a, ta = self.ex(e.args[1])
        b, tb = self.ex(e.args[2])
        self.vec = None
        if len(self.pre) != npre:
            fail(e, 'an operation that can raise inside np.where')
        return '(map (fun %s => if %s then %s else %s) %s)' % (el, c, self.as_float(a, ta, e), self.as_float(b, tb, e), cq(v)), 'fvec'

    # ------------------------------------------------------------------ statements
    def flush(self, ind):
        pre, self.pre = self.pre, []
        head = ''.join('%sbind (%s) (fun %s =>\n' % (ind, m, p) for p, m in pre)
        return head, ')' * len(pre)

    def bindvar(self, node, name, ty):
        if ty not in TYPES:
            fail(node, 'cannot bind a value of type %s to %s' % (ty, name))
        self.env[name] = ty

    def tuple_of(self, names):
        return cq(names[0]) if len(names) == 1 else '(' + ', '.join(cq(n) for n in names) + ')'

    def pat_of(self, names):
        return cq(names[0]) if len(names) == 1 else "'(" + ', '.join(cq(n) for n in names) + ')'

    def assigned(self, stmts):
        out = []
        for s in stmts:
            if isinstance(s, ast.Assign) and len(s.targets) == 1:
                t = s.targets[0]
                if isinstance(t, ast.Name):
                    n = t.id
                elif isinstance(t, ast.Subscript) and isinstance(t.value, ast.Name):
                    n = t.value.id
                elif isinstance(t, ast.Attribute) and isinstance(t.value, ast.Attribute) and isinstance(t.value.value, ast.Name):
                    n = t.value.value.id
                else:
                    fail(s, 'unsupported assignment target')
                if n not in out:
                    out.append(n)
            else:
                fail(s, 'only assignments are supported in this block')
        return out

    def seq(self, stmts, ind, ret):
        """ret(text-of-value) -> text ; ends the block (every block ends with a return / value)"""
        if not stmts:
            fail(self.f, 'a path without return')
        s, rest = stmts[0], stmts[1:]

        def go():
            return self.seq(rest, ind, ret)

        if isinstance(s, ast.Expr) and is_const(s.value, ty=str):
            return go()
        if isinstance(s, ast.Pass):
            return go()
        if isinstance(s, ast.Return):
            if rest:
                fail(s, 'statements after return')
            return self.ret(s, ind, ret)
        if isinstance(s, ast.Raise):
            if rest:
                fail(s, 'statements after raise')
            return ind + self.raise_(s)
        if isinstance(s, ast.Assign):
            if self.is_fft(stmts):
                return self.fft(stmts, ind, ret)
            return self.assign(s, go, ind)
        if isinstance(s, ast.AugAssign):
            if not isinstance(s.target, ast.Name):
                fail(s, 'unsupported augmented assignment')
            load = ast.copy_location(ast.Name(id=s.target.id, ctx=ast.Load()), s)
            new = ast.copy_location(ast.Assign(targets=[s.target], value=ast.copy_location(ast.BinOp(left=load, op=s.op, right=s.value), s)), s)
            return self.assign(new, go, ind)
        if isinstance(s, ast.If):
            return self.ifstmt(s, rest, ind, ret)
        if isinstance(s, ast.Try):
            return self.trystmt(s, go, ind)
        if isinstance(s, ast.For):
            return self.forstmt(s, go, ind)
        if isinstance(s, ast.Expr):
            return self.exprstmt(s, go, ind)
        fail(s, 'unsupported statement %s' % type(s).__name__)

    def ret(self, s, ind, ret):
        if s.value is None:
            fail(s, 'bare return')
        e = s.value
        want = self.sig['result']
        # tail call of a translated function that can raise: no bind needed
        if isinstance(e, ast.Call) and isinstance(e.func, ast.Name) and e.func.id in SIGS and e.func.id in DEFINED \
                and SIGS[e.func.id]['raises'] and self.sig['raises'] and SIGS[e.func.id]['result'] == want:
            v, _ = self.call_translated(e, e.func.id)
            last = self.pre.pop()
            head, close = self.flush(ind)
            return head + ind + last[1] + close
        v, t = self.ex(e)
        if want == 'emsdres':
            if t == 'fseries':
                v = '(EmsdSeries %s)' % v
            elif t == 'frame':
                v = '(EmsdFrame %s)' % v
            else:
                fail(s, 'emsd returns a %s' % t)
        elif t != want:
            fail(s, 'the function returns a %s, expected %s' % (t, want))
        head, close = self.flush(ind)
        return head + ind + ret(v) + close

    def raise_(self, s):
        if s.cause is not None:
            fail(s, 'raise ... from')
        if s.exc is None:
            if not self.in_handler:
                fail(s, 'bare raise outside `except ValueError:`')
            return 'Raise EValueError'
        x = s.exc
        if isinstance(x, ast.Call) and isinstance(x.func, ast.Name) and x.func.id == 'Exception' and len(x.args) == 1 \
                and not x.keywords and is_const(x.args[0], ty=str):
            return 'Raise (EException %s)' % cstr(x.args[0].value)
        fail(s, 'unsupported raise `%s`' % ast.unparse(s))

    def assign(self, s, go, ind):
        if len(s.targets) != 1:
            fail(s, 'chained assignment')
        t = s.targets[0]
        # X.index.name = 'literal'
        if isinstance(t, ast.Attribute) and t.attr == 'name' and isinstance(t.value, ast.Attribute) and t.value.attr == 'index' \
                and isinstance(t.value.value, ast.Name):
            n = t.value.value.id
            d, td = self.var(s, n)
            if not is_const(s.value, ty=str) or td not in ('frame', 'widef'):
                fail(s, 'unsupported assignment to an index name')
            f = 'df_set_index_name' if td == 'frame' else 'widef_set_index_name'
            return '%slet %s := %s %s %s in\n' % (ind, d, f, d, cstr(s.value.value)) + go()
        # X['label'] = value
        if isinstance(t, ast.Subscript) and isinstance(t.value, ast.Name):
            n = t.value.id
            d, td = self.var(s, n)
            lab = self.label(t.slice)
            v, tv = self.ex(s.value)
            if td == 'frame' and tv == 'fvec':
                term = 'df_setcol %s %s (fvec_cells %s)' % (d, lab, v)
            elif td == 'frame' and tv == 'ovec':
                term = 'df_setcol %s %s %s' % (d, lab, v)
            elif td == 'frame' and tv == 'lser':
                term = 'df_setcol_aligned %s %s %s' % (d, lab, v)
            elif td == 'mframe' and tv == 'mseries':
                term = 'mf_setcol %s %s %s' % (d, lab, v)
            else:
                fail(s, 'assignment of a %s to a column of a %s' % (tv, td))
            head, close = self.flush(ind)
            return head + '%slet %s := %s in\n' % (ind, d, term) + go() + close
        if not isinstance(t, ast.Name):
            fail(s, 'unsupported assignment target `%s`' % ast.unparse(t))
        # X = []   (a list the following loop appends to)
        if isinstance(s.value, ast.List) and not s.value.elts:
            ty = self.sig.get('lists', {}).get(t.id)
            if ty is None:
                fail(s, 'empty list assigned to %s' % t.id)
            self.bindvar(s, t.id, ty)
            return '%slet %s : %s := [] in\n' % (ind, cq(t.id), TYPES[ty]) + go()
        v, tv = self.ex(s.value)
        if self.pre and self.pre[-1][0] == v:
            self.pre[-1] = (cq(t.id), self.pre[-1][1])
            if v in self.subtbl:
                self.subtbl[cq(t.id)] = self.subtbl.pop(v)
            head, close = self.flush(ind)
            self.bindvar(s, t.id, tv)
            return head + go() + close
        head, close = self.flush(ind)
        self.bindvar(s, t.id, tv)
        return head + '%slet %s := %s in\n' % (ind, cq(t.id), v) + go() + close

    def exprstmt(self, s, go, ind):
        e = s.value
        # results.set_index(lagt, inplace=True)
        if isinstance(e, ast.Call) and isinstance(e.func, ast.Attribute) and e.func.attr == 'set_index' and isinstance(e.func.value, ast.Name) \
                and len(e.args) == 1 and set(kwmap(e)) == {'inplace'} and is_const(kwmap(e)['inplace'], True):
            n = e.func.value.id
            d, td = self.var(s, n)
            if td != 'wide' or n in [p for p, _ in self.sig['params']]:
                fail(s, 'set_index(..., inplace=True) on a %s' % td)
            v = self.exT(e.args[0], 'fvec')
            self.env[n] = 'widef'
            return '%slet %s := wide_set_index_values %s %s in\n' % (ind, d, d, v) + go()
        fail(s, 'unsupported expression statement `%s`' % ast.unparse(s))

    def ifstmt(self, s, rest, ind, ret):
        t = s.test
        # if X is None: X = <default>
        if isinstance(t, ast.Compare) and len(t.ops) == 1 and isinstance(t.ops[0], ast.Is) and is_none(t.comparators[0]) \
                and isinstance(t.left, ast.Name):
            x = t.left.id
            if self.env.get(x) != 'optposcols' or s.orelse or len(s.body) != 1 or not isinstance(s.body[0], ast.Assign) \
                    or len(s.body[0].targets) != 1 or not isinstance(s.body[0].targets[0], ast.Name) or s.body[0].targets[0].id != x:
                fail(s, 'only `if pos_columns is None: pos_columns = [...]` is supported')
            self.env[x] = 'none'
            v = self.exT(s.body[0].value, 'poscols')
            self.env[x] = 'poscols'
            return '%slet %s := match %s with None => %s | Some %s => %s end in\n' % (ind, cq(x), cq(x), v, cq(x), cq(x)) + self.seq(rest, ind, ret)
        c = self.exT(t, 'bool')
        if self.pre:
            fail(s, 'a condition that can raise')
        returns_body = any(isinstance(n, (ast.Return, ast.Raise)) for n in s.body)
        if returns_body:
            # if c: ...return / raise   [else: ...return / raise | rest]
            if not isinstance(s.body[-1], (ast.Return, ast.Raise)):
                fail(s, 'unsupported control flow in an if')
            env0 = dict(self.env)
            a = self.seq(list(s.body), ind + '  ', ret)
            self.env = dict(env0)
            if s.orelse:
                if rest or not isinstance(s.orelse[-1], (ast.Return, ast.Raise)):
                    fail(s, 'unsupported control flow in an if')
                b = self.seq(list(s.orelse), ind + '  ', ret)
            else:
                b = self.seq(rest, ind + '  ', ret)
            return '%sif %s then\n%s\n%selse\n%s' % (ind, c, a, ind, b)
        if s.orelse:
            fail(s, 'if / else that assigns is not supported')
        W = self.assigned(s.body)
        for w in W:
            if w not in self.env:
                fail(s, 'variable %s is assigned only under a condition' % w)
        env0 = dict(self.env)
        # the block: assignments, then the tuple of what it assigned
        txt = self.block_value(list(s.body), W, ind + '    ')
        for w in W:
            if self.env[w] != env0[w]:
                fail(s, 'variable %s changes type under a condition' % w)
        return '%slet %s := if %s then\n%s\n%s  else %s in\n' % (ind, self.pat_of(W), c, txt, ind, self.tuple_of(W)) + self.seq(rest, ind, ret)

    def block_value(self, stmts, W, ind):
        """assignments followed by the tuple of W (no monadic operation allowed)"""
        if not stmts:
            return ind + self.tuple_of(W)
        s = stmts[0]
        if not isinstance(s, ast.Assign):
            fail(s, 'only assignments are supported in this block')
        out = self.assign(s, lambda: self.block_value(stmts[1:], W, ind), ind)
        if 'bind (' in out.split(' in\n')[0]:
            fail(s, 'an operation that can raise under a condition')
        return out

    def trystmt(self, s, go, ind):
        if s.orelse or s.finalbody or len(s.handlers) != 1:
            fail(s, 'unsupported try statement')
        h = s.handlers[0]
        if not (isinstance(h.type, ast.Name) and h.type.id == 'ValueError' and h.name is None):
            fail(s, 'only `except ValueError:` is supported')
        if self.pre:
            fail(s, 'try in the middle of an expression')
        W = self.assigned(s.body)
        body = self.mblock(list(s.body), W, ind + '    ')
        types = {w: self.env[w] for w in W}
        env1 = dict(self.env)
        self.in_handler = True
        handler = self.seq(list(h.body), ind + '    ', lambda v: fail(s, 'the handler must raise'))
        self.in_handler = False
        if 'Ret ' in handler:
            fail(s, 'the handler must raise on every path')
        self.env = env1
        for w in W:
            self.env[w] = types[w]
        return ('%sbind (try_except_ValueError (\n%s)\n%s  (\n%s)) (fun %s =>\n' % (ind, body, ind, handler, self.pat_of(W))) + go() + ')'

    def mblock(self, stmts, W, ind):
        """assignments (possibly monadic) followed by Ret <tuple of W>"""
        if not stmts:
            return ind + 'Ret ' + self.tuple_of(W)
        s = stmts[0]
        if not isinstance(s, ast.Assign):
            fail(s, 'only assignments are supported inside try')
        return self.assign(s, lambda: self.mblock(stmts[1:], W, ind), ind)

    def forstmt(self, s, go, ind):
        if s.orelse:
            fail(s, 'for ... else')
        if not (isinstance(s.target, ast.Tuple) and len(s.target.elts) == 2 and all(isinstance(x, ast.Name) for x in s.target.elts)):
            fail(s, 'only `for pid, ptraj in <groups>:` is supported')
        it = self.exT(s.iter, 'groups')
        if self.pre:
            fail(s, 'an iterable that can raise')
        k, g = s.target.elts[0].id, s.target.elts[1].id
        if k in self.env or g in self.env:
            fail(s, 'loop variable shadows a variable')
        # state: the lists appended to
        W = []
        for b in s.body:
            if not (isinstance(b, ast.Expr) and isinstance(b.value, ast.Call) and isinstance(b.value.func, ast.Attribute)
                    and b.value.func.attr == 'append' and isinstance(b.value.func.value, ast.Name) and len(b.value.args) == 1
                    and not b.value.keywords):
                fail(b, 'only <list>.append(<expr>) is supported in the loop body')
            n = b.value.func.value.id
            if self.env.get(n) not in ('listZ', 'listframe'):
                fail(b, '%s is not a list the loop may append to' % n)
            if n not in W:
                W.append(n)
        W = [w for w in self.env if w in W]      # order of first binding
        self.nloop += 1
        lname = 'py_%s_loop%d' % (self.name, self.nloop)
        # free variables of the body other than the state and the loop variables
        used = []
        for b in s.body:
            for x in ast.walk(b):
                if isinstance(x, ast.Name) and x.id in self.env and x.id not in W and x.id not in used:
                    used.append(x.id)
        used = [u for u in self.env if u in used]
        env0 = dict(self.env)
        self.env[k] = 'int'
        self.env[g] = 'tdf'
        i2 = '  '
        lines = ''
        closes = ''
        for b in s.body:
            n = b.value.func.value.id
            v, tv = self.ex(b.value.args[0])
            want = {'listZ': 'int', 'listframe': 'frame'}[self.env[n]]
            if tv != want:
                fail(b, 'append of a %s to %s' % (tv, n))
            head, close = self.flush(i2)
            lines += head + '%slet %s := %s ++ [%s] in\n' % (i2, cq(n), cq(n), v)
            closes += close
        self.env = env0
        stty = ' * '.join(TYPES[self.env[w]] for w in W)
        binders = ''.join(' (%s : %s)' % (cq(u), TYPES[self.env[u]]) for u in used)
        self.aux.append('(* line %d: body of `%s` *)\nDefinition %s%s (st : %s) (it : Z * tdf) : pyres (%s) :=\n'
                        "  let %s := st in\n  let '(%s, %s) := it in\n%s  Ret %s%s.\n"
                        % (s.lineno, cmt(ast.unparse(s).split('\n')[0]), lname, binders, stty, stty, self.pat_of(W), cq(k), cq(g), lines,
                           self.tuple_of(W), closes))
        call = '(%s%s)' % (lname, ''.join(' ' + cq(u) for u in used))
        return '%sbind (foldM %s %s %s) (fun %s =>\n' % (ind, call, it, self.tuple_of(W), self.pat_of(W)) + go() + ')'

    # ---- the FFT autocorrelation: three statements, one primitive
    def is_fft(self, stmts):
        s = stmts[0]
        return isinstance(s.value, ast.Call) and ast.unparse(s.value.func) == 'np.fft.fft'

    def fft(self, stmts, ind, ret):
        if len(stmts) < 3:
            fail(stmts[0], 'incomplete FFT autocorrelation pattern')
        s1, s2, s3 = stmts[0], stmts[1], stmts[2]

        def name_target(s):
            if not (isinstance(s, ast.Assign) and len(s.targets) == 1 and isinstance(s.targets[0], ast.Name)):
                fail(s, 'unsupported statement in the FFT autocorrelation pattern')
            return s.targets[0].id
        F, P, S = name_target(s1), name_target(s2), name_target(s3)
        c1 = s1.value
        k1 = kwmap(c1)
        if not (len(c1.args) == 1 and [k.arg for k in c1.keywords] == ['n', 'axis'] and is_const(k1['axis'], 0)):
            fail(s1, 'only np.fft.fft(r, n=<int>, axis=0) is supported')
        if ast.unparse(s2.value) != '%s * %s.conjugate()' % (F, F):
            fail(s2, 'expected `%s = %s * %s.conjugate()`' % (P, F, F))
        v3 = s3.value
        ok = (isinstance(v3, ast.Attribute) and v3.attr == 'real' and isinstance(v3.value, ast.Subscript)
              and isinstance(v3.value.slice, ast.Slice) and v3.value.slice.step is None and v3.value.slice.lower is not None
              and v3.value.slice.upper is not None and ast.unparse(v3.value.value) == 'np.fft.ifft(%s, axis=0)' % P)
        if not ok:
            fail(s3, 'expected `%s = np.fft.ifft(%s, axis=0)[a:b].real`' % (S, P))
        for st in self.f.body:
            for x in ast.walk(st):
                if isinstance(x, ast.Name) and x.id in (F, P) and not (s1.lineno <= x.lineno <= s3.end_lineno):
                    fail(x, '%s is used outside the FFT autocorrelation pattern' % x.id)
        if F in self.env or P in self.env or len({F, P, S}) != 3:
            fail(s1, 'the names of the FFT autocorrelation pattern clash with other variables')
        r = self.exT(c1.args[0], 'qarr2')
        n = self.exT(k1['n'], 'int')
        lo = self.exT(v3.value.slice.lower, 'int')
        hi = self.exT(v3.value.slice.upper, 'int')
        if self.pre:
            fail(s1, 'unsupported FFT autocorrelation pattern')
        self.bindvar(s3, S, 'qarr2')
        return '%slet %s := np_fft_autocorr %s %s %s %s in\n' % (ind, cq(S), r, n, lo, hi) + self.seq(stmts[3:], ind, ret)

    # ------------------------------------------------------------------ functions
    def check_sig(self):
        a = self.f.args
        names = [x.arg for x in a.args]
        want = [n for n, _ in self.sig['params']]
        if names != want or a.vararg or a.kwarg or a.kwonlyargs or getattr(a, 'posonlyargs', []):
            fail(self.f, 'signature of %s changed: %s' % (self.name, ast.unparse(a)))
        if [ast.unparse(d) for d in a.defaults] != self.sig['defaults']:
            fail(self.f, 'defaults of %s changed: %s' % (self.name, [ast.unparse(d) for d in a.defaults]))
        if self.f.decorator_list:
            fail(self.f, 'decorated function')

    def forbid(self, allowed=()):
        bad = (ast.While, ast.With, ast.For, ast.Try, ast.DictComp, ast.SetComp, ast.GeneratorExp, ast.Yield, ast.YieldFrom, ast.FunctionDef,
               ast.ClassDef, ast.Global, ast.Nonlocal, ast.Delete, ast.Await, ast.NamedExpr, ast.Assert, ast.Import, ast.ImportFrom,
               ast.Lambda, ast.IfExp, ast.Dict, ast.Set, ast.Starred, ast.AsyncFor, ast.AsyncWith, ast.AsyncFunctionDef, ast.Break,
               ast.Continue, ast.BoolOp, ast.JoinedStr)
        for s in self.f.body:
            for n in ast.walk(s):
                if isinstance(n, bad) and not isinstance(n, allowed):
                    fail(n, 'unsupported construct %s in %s' % (type(n).__name__, self.name))

    def header(self, rty):
        binders = ''.join(' (%s : %s)' % (cq(n), TYPES[t]) for n, t in self.sig['params'])
        return 'Definition py_%s%s : %s :=\n' % (self.name, binders, rty)

    def defaults_text(self):
        out = ''
        a = self.f.args
        names = [x.arg for x in a.args][len(a.args) - len(a.defaults):]
        for n, d in zip(names, a.defaults):
            ty = dict(self.sig['params'])[n]
            if ty == 'int' and is_const(d, ty=int):
                v = zlit(d.value)
            elif ty == 'bool' and is_const(d, ty=bool):
                v = 'true' if d.value else 'false'
            elif ty == 'optposcols' and is_none(d):
                v = 'None'
            elif ty == 'lbl' and is_const(d, ty=str) and d.value in LABELS:
                v = LABELS[d.value]
            else:
                fail(d, 'unsupported default value')
            out += 'Definition py_%s_default_%s : %s := %s.\n' % (self.name, n, TYPES[ty], v)
        return out

    def translate(self):
        self.check_sig()
        if self.name == '_msd_iter':
            return self.translate_generator()
        self.forbid(allowed=(ast.Try, ast.For))
        rty = TYPES[self.sig['result']]
        if self.sig['raises']:
            main = self.seq(list(self.f.body), '  ', lambda v: 'Ret %s' % v)
            rty = 'pyres %s' % (rty if ' ' not in rty else '(%s)' % rty)
        else:
            main = self.seq(list(self.f.body), '  ', lambda v: v)
            if 'bind (' in main:
                fail(self.f, 'an operation that can raise in a function translated as pure')
        txt = '(* ===== %s (line %d) ===== *)\n' % (self.name, self.f.lineno)
        txt += self.defaults_text()
        txt += ''.join(a + '\n' for a in self.aux)
        txt += self.header(rty) + main + '.\n'
        return txt

    def translate_generator(self):
        """def _msd_iter(pos, lagtimes): with warnings.catch_warnings(): warnings.simplefilter(..); for lt in lagtimes: ...; yield row"""
        body = [s for s in self.f.body if not (isinstance(s, ast.Expr) and is_const(s.value, ty=str))]
        if len(body) != 1 or not isinstance(body[0], ast.With):
            fail(self.f, '_msd_iter: expected one with-statement')
        w = body[0]
        if len(w.items) != 1 or w.items[0].optional_vars is not None or ast.unparse(w.items[0].context_expr) != 'warnings.catch_warnings()':
            fail(w, '_msd_iter: expected `with warnings.catch_warnings():`')
        if len(w.body) != 2 or ast.unparse(w.body[0]) != "warnings.simplefilter('ignore', category=RuntimeWarning)":
            fail(w, "_msd_iter: expected warnings.simplefilter('ignore', category=RuntimeWarning) and one loop")
        loop = w.body[1]
        if not (isinstance(loop, ast.For) and not loop.orelse and isinstance(loop.target, ast.Name) and isinstance(loop.iter, ast.Name)
                and loop.iter.id == 'lagtimes'):
            fail(loop, '_msd_iter: expected `for lt in lagtimes:`')
        lt = loop.target.id
        if lt in self.env:
            fail(loop, 'loop variable shadows a parameter')
        stmts = list(loop.body)
        if not stmts or not (isinstance(stmts[-1], ast.Expr) and isinstance(stmts[-1].value, ast.Yield) and stmts[-1].value.value is not None):
            fail(loop, '_msd_iter: the loop body must end with one yield')
        for s in stmts[:-1]:
            for n in ast.walk(s):
                if isinstance(n, (ast.Yield, ast.YieldFrom, ast.For, ast.While, ast.If, ast.Try, ast.With, ast.Return)):
                    fail(n, '_msd_iter: unsupported construct in the loop body')
        self.env[lt] = 'int'
        retstmt = ast.copy_location(ast.Return(value=stmts[-1].value.value), stmts[-1])
        self.sig = dict(self.sig, result='ovec')
        main = self.seq(stmts[:-1] + [retstmt], '  ', lambda v: v)
        if 'bind (' in main:
            fail(self.f, 'an operation that can raise in the generator')
        txt = '(* ===== %s (line %d): generator; the row yielded for one lag time ===== *)\n' % (self.name, self.f.lineno)
        txt += 'Definition py__msd_iter_body (pos : oarr2) (%s : Z) : list cell :=\n%s.\n' % (cq(lt), main)
        txt += '(* the rows in the order `for %s in lagtimes` yields them *)\n' % lt
        txt += 'Definition py__msd_iter (pos : oarr2) (lagtimes : list Z) : list (list cell) :=\n  map (py__msd_iter_body pos) lagtimes.\n'
        return txt


DEFINED = set()

PINNED_CONCAT = ("def _pandas_concat_post_023(*args, **kwargs):\n    \"\"\"Pass sort = False. Breaks API by not sorting, but we don't care. \"\"\"\n"
                 "    kwargs.setdefault('sort', False)\n    return pd.concat(*args, **kwargs)")
PINNED_SELECT = "if is_pandas_since_023:\n    pandas_concat = _pandas_concat_post_023\nelse:\n    pandas_concat = pd.concat"
PINNED_IMPORT = 'from .utils import pandas_sort, pandas_concat, guess_pos_columns'


def check_utils(repo):
    path = os.path.join(repo, 'trackpy', 'utils.py')
    tree = ast.parse(open(path).read())
    seen_def = seen_sel = 0
    for n in ast.walk(tree):
        if isinstance(n, ast.FunctionDef) and n.name == '_pandas_concat_post_023':
            if ast.unparse(n) != PINNED_CONCAT:
                raise TranslationError('utils.py: _pandas_concat_post_023 differs from the pinned definition (pd.concat with sort=False)')
            seen_def += 1
        bound = None
        if isinstance(n, ast.Name) and isinstance(n.ctx, (ast.Store, ast.Del)) and n.id in ('pandas_concat', '_pandas_concat_post_023'):
            bound = n
        if isinstance(n, ast.alias) and (n.asname or n.name) in ('pandas_concat', '_pandas_concat_post_023'):
            bound = n
        if bound is not None:
            seen_sel += 1
    ok = any(isinstance(n, ast.If) and ast.unparse(n) == PINNED_SELECT for n in tree.body)
    if seen_def != 1 or not ok or seen_sel != 2:
        raise TranslationError('utils.py: the definition of pandas_concat differs from the pinned one')


HEADER = """(* GENERATED by tools/py2coq_msd.py from trackpy/motion.py -- do not edit.
   msd, _msd_N, _msd_iter, _msd_gaps, _msd_fft, imsd, emsd statement by statement, as Gallina over
   Model/PyMsd.v (the vocabulary: what every numpy / pandas primitive means, the data
   representation, the conventions; see also the translator's docstring).
   Proofs/MSDGen.v proves these functions equal to the hand-written model Model/MSD.v. *)
From Coq Require Import String ZArith QArith Qcanon List Bool.
From TP Require Import Model.MSD Model.PyMsd.
Import ListNotations.
Open Scope Qc_scope.
"""


def translate(repo):
    path = os.path.join(repo, 'trackpy', 'motion.py')
    tree = ast.parse(open(path).read())
    wanted = list(SIGS)
    defs = {}
    for n in tree.body:
        if isinstance(n, ast.FunctionDef) and n.name in wanted:
            if n.name in defs:
                raise TranslationError('motion.py: function %s defined twice' % n.name)
            defs[n.name] = n
    for w in wanted:
        if w not in defs:
            raise TranslationError('motion.py: function %s not found' % w)
    # nothing else in the module may bind the translated names or the module aliases they use
    watched = set(wanted) | {'np', 'pd', 'warnings', 'pandas_concat', 'len', 'min', 'float', 'Exception', 'ValueError'}
    imports = []
    for n in ast.walk(tree):
        bound = []
        if isinstance(n, (ast.FunctionDef, ast.ClassDef, ast.AsyncFunctionDef)) and n.name in watched and defs.get(n.name) is not n:
            bound.append(n.name)
        if isinstance(n, ast.Name) and isinstance(n.ctx, (ast.Store, ast.Del)) and n.id in watched:
            bound.append(n.id)
        if isinstance(n, ast.arg) and n.arg in watched:
            bound.append(n.arg)
        if isinstance(n, (ast.Import, ast.ImportFrom)):
            if n in tree.body:
                imports.append(ast.unparse(n))
            # an import inside another function binds a local name of that function only (the translated
            # functions themselves may not contain one: Fn.forbid)
        if bound:
            raise TranslationError('motion.py: %s is bound a second time (line %s)' % (bound[0], getattr(n, 'lineno', '?')))
    for need in ('import numpy as np', 'import pandas as pd', 'import warnings', PINNED_IMPORT):
        if imports.count(need) != 1:
            raise TranslationError('motion.py: expected exactly one `%s`' % need)
    for imp in imports:
        for a in ast.parse(imp).body[0].names:
            nm = a.asname or a.name
            if nm in watched and imp not in ('import numpy as np', 'import pandas as pd', 'import warnings', PINNED_IMPORT):
                raise TranslationError('motion.py: `%s` rebinds %s' % (imp, nm))
    check_utils(repo)
    out = []
    DEFINED.clear()
    for name in ORDER:
        out.append(Fn(defs[name]).translate())
        DEFINED.add(name)
    # functions must be defined before use in Coq as well: ORDER is a topological order of the calls
    return HEADER + '\n' + '\n'.join(out)


def main():
    ap = argparse.ArgumentParser()
    ap.add_argument('--repo', default=os.environ.get('TRACKPY_REPO', '/repo'))
    ap.add_argument('--out', default=os.path.join(os.path.dirname(os.path.dirname(os.path.abspath(__file__))), 'coq', 'Gen', 'msd.v'))
    ap.add_argument('--stdout', action='store_true')
    a = ap.parse_args()
    try:
        text = translate(a.repo)
    except TranslationError as e:
        sys.stderr.write('py2coq_msd: TRANSLATION ERROR: %s\n' % e)
        sys.exit(2)
    except (OSError, SyntaxError) as e:
        sys.stderr.write('py2coq_msd: TRANSLATION ERROR: cannot read / parse the source: %s\n' % e)
        sys.exit(2)
    except Exception as e:      # fail closed on anything unforeseen
        sys.stderr.write('py2coq_msd: TRANSLATION ERROR: internal error %r\n' % (e,))
        sys.exit(2)
    if a.stdout:
        sys.stdout.write(text)
        return
    old = open(a.out).read() if os.path.exists(a.out) else None
    if old != text:
        os.makedirs(os.path.dirname(a.out), exist_ok=True)
        tmp = a.out + '.tmp%d' % os.getpid()
        with open(tmp, 'w') as f:
            f.write(text)
        os.replace(tmp, a.out)
        print('py2coq_msd: wrote %s (changed)' % a.out)
    else:
        print('py2coq_msd: %s up to date' % a.out)


if __name__ == '__main__':
    main()
