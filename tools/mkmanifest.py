#!/usr/bin/env python3
"""Writes MANIFEST.json from tools/manifest_src.py (single source of truth)."""
import json, os, sys
sys.path.insert(0, os.path.dirname(os.path.abspath(__file__)))
import manifest_src as M
props = [json.loads(l)['id'] for l in open(os.path.join(os.path.dirname(__file__), '..', 'properties.jsonl'))]
checks = []
for pid in props:
    c = M.CHECKS.get(pid)
    if not c:
        continue
    checks.append(dict(
        property_id=pid,
        quick_cmd="./check %s --tier quick" % pid,
        thorough_cmd="./check %s --tier thorough" % pid,
        evidence_file="/verif/evidence/%s.json" % pid,
        replay_cmd_template="./check %s --replay {path}" % pid,
        engine="coq",
        level_claimed=dict(category=c.get('category', 'proof'), text=c['text'], design_ref=c.get('design_ref', 'DESIGN.md §3 ' + pid)),
        level_note=c['note'],
        technique=c.get('technique', 'machine-checked proof in Coq 8.16 about an executable model + model/implementation correspondence run'),
    ))
na = [dict(property_id=p, reason=M.NOT_APPLICABLE.get(p, 'check not built yet in this round (see DESIGN.md §6)')) for p in props if p not in M.CHECKS]
man = dict(version=1, setup_cmd="./setup.sh",
           hooks=dict(guard="TRACKPY_VERIF", enable="no source hooks are needed: checks import trackpy from /repo's working tree (PYTHONPATH=/repo) and drive public/importable functions; TRACKPY_VERIF=1 is set by ./check but nothing in /repo reads it",
                      baseline_off_cmd="cd /repo && /venv/bin/python -m pytest -ra -q -p no:cacheprovider --timeout=900 --continue-on-collection-errors --junitxml=/tmp/baseline_off.junit.xml",
                      source_commits=[], add_only=True),
           engines=[dict(name="coq", path="/verif/coq", serves_properties=[c['property_id'] for c in checks],
                         kind_free_text="Coq 8.16.1 development (Model/ executable models, Proofs/ lemmas, Properties/ one file of theorems per property) + vp/ correspondence harness running model (vm_compute) and implementation on the same generated cases")],
           checks=checks, notes=M.NOTES, not_applicable=na)
json.dump(man, open(os.path.join(os.path.dirname(__file__), '..', 'MANIFEST.json'), 'w'), indent=1)
print('checks:', [c['property_id'] for c in checks], 'n/a:', [x['property_id'] for x in na])
