#!/usr/bin/env python3
"""Fail-closed translator (route T) for the per-step bookkeeping of the Linker (C02).

Reads, with the Python `ast` module, the CURRENT source text of

    Subnets.__init__, reset, compute, __iter__, lost          $TRACKPY_REPO/trackpy/linking/subnet.py
    subnet_linker_recursive                                   $TRACKPY_REPO/trackpy/linking/subnetlinker.py
    Linker.next_level, assign_links, apply_links, particle_ids
                                                              $TRACKPY_REPO/trackpy/linking/linking.py

(default repo /repo) and regenerates /verif/coq/Gen/linkstep.v:

    py_Subnets_reset / py_Subnets_compute / py_Subnets_init / py_Subnets_iter / py_Subnets_lost
    py_subnet_linker_recursive
    py_Linker_assign_links / py_Linker_apply_links / py_Linker_next_level / py_Linker_particle_ids

It complements tools/py2coq_linker.py (SubnetLinker, assign_subnet -> Gen/linker_core.v), whose
generated functions are CALLED by the code generated here (assign_subnet(...), SubnetLinker(...)).

The embedding is shallow and state passing (vocabulary and its meaning: coq/Model/PyLinkstep.v).
A def runs in the state (self, local_1, ..., local_n): the world record and every local the def
assigns at its top level.  Every statement becomes a term of type `oc state value`
(ONormal / OContinue / OReturn / ORaise); `s1; s2` is `obind s1 (fun state => s2)` (a `let` when s1
cannot fail or jump); `for x in l: body` is `ofor (fun x state => body) l state`; a def body is
closed by `fn_end`; a call of another translated def is a `match` on its result (FFail is raised).

Translated subset (ANYTHING else: exit status 2, nothing written):

  control      sequences, if / elif / else, for (no else), return, continue, pass, docstrings,
               raise E('literal') for E in EXNS -- translated generically;
  conditions   `X is None`, `X is not None` on a local that may be None (the branch where the
               value is known binds it; storing or using a possibly-None point where a point is
               needed is refused), `and` / `or`, and the atomic tests of table CONDS;
  statements   everything that is not control is a NAMED PRIMITIVE, matched as the exact source
               text of the statement (ast.unparse) per def in table PRIMS, with the types its
               variables must have at that place; loops are matched by (target, iterable) in
               table LOOPS, returned expressions in table RETS.  The meaning of a primitive is the
               Coq text of its entry, written with the vocabulary of Model/PyLinkstep.v, i.e. the
               meaning the hand-written models Model/Link.v, Model/MemQueue.v and
               Model/SubnetMerge.v give to the same pandas-free Python: sets are lists,
               dictionaries association lists in insertion order, points their indices.
  locals       a local assigned at the top level of a def is part of the state (it may be
               mutated inside loops: spl.extend, new_mem_set.add, ...); it must be assigned before
               it is used.  A local assigned inside a loop or branch is an immutable `let`.

Conventions (all visible in the generated text):
  * partial operations are guarded, in evaluation order, before the statement takes effect:
    `match <lookup> with None => ORaise E | Some v => ... end`;
  * the iteration order of a Python set is the parameter `ord` (Model/PyLinkstep.set_iter);
    the KD-tree query `source_hash.query(...)` with `nn = np.sum(np.isfinite(dists), 1)` is the
    parameter `q` (its rows are read by `nn[i]`, `inds[i, j]`, `dists[i, j]`);
    `self.update_hash(coords, t, extra_data)` is `update_hash_abs` (see the vocabulary file);
  * `self.subnet_linker(...)` is the translated subnet_linker_recursive with max_size =
    self.MAX_SUB_NET_SIZE: the translator CHECKS in Linker.__init__ that link_strategy ==
    'recursive' selects subnet_linker_recursive and that, without adaptive_stop,
    self.subnet_linker = functools.partial(subnet_linker, max_size=self.MAX_SUB_NET_SIZE);
  * distances are carried as their squares (exact integers), as in py2coq_linker.py.

Usage:  py2coq_linkstep.py [--repo /repo] [--out /verif/coq/Gen/linkstep.v] [--stdout]
"""
import ast, sys, os, argparse

EXNS = {'ValueError': 'XValueError', 'IndexError': 'XIndexError', 'KeyError': 'XKeyError', 'TypeError': 'XTypeError'}
OPT = {'OSRC': 'SRC', 'ODST': 'DST'}


class TranslationError(Exception):
    pass


def fail(node, msg):
    raise TranslationError('line %s: %s' % (getattr(node, 'lineno', '?'), msg))


def text(n):
    return ast.unparse(n)


def comment(s):
    t = text(s).split('\n')[0].replace('(*', '( *').replace('*)', '* )').replace('"', "'")
    if len(t) > 110:
        t = t[:107] + '...'
    return '(* %d: %s *)' % (getattr(s, 'lineno', 0), t)


class Prim:
    """what a primitive statement contributes: guards (in evaluation order), then lets, then new env entries.
    guard kinds: ('opt', term, exn, var)            match term with None => ORaise exn | Some var => ..
                 ('call', term, selfvar, valvar)    match term with FFail e_ => ORaise e_ | FDone selfvar valvar => ..
                 ('core', term, var)                match term with Fail e_ => ORaise (of_exn e_) | Done var => ..
                 ('sum', term, var)                 match term with inl e_ => ORaise e_ | inr var => .."""
    def __init__(self, guards=(), lets=(), binds=None, note=None):
        self.guards, self.lets, self.binds, self.note = list(guards), list(lets), dict(binds or {}), note


def wrap_guards(guards, inner):
    for g in reversed(guards):
        if g[0] == 'opt':
            inner = 'match %s with None => ORaise %s | Some %s =>\n%s\nend' % (g[1], g[2], g[3], inner)
        elif g[0] == 'call':
            inner = 'match %s with FFail e_ => ORaise e_ | FDone %s %s =>\n%s\nend' % (g[1], g[2], g[3], inner)
        elif g[0] == 'core':
            inner = 'match %s with Fail e_ => ORaise (of_exn e_) | Done %s =>\n%s\nend' % (g[1], g[2], inner)
        elif g[0] == 'sum':
            inner = 'match %s with inl e_ => ORaise e_ | inr %s =>\n%s\nend' % (g[1], g[2], inner)
        else:
            raise AssertionError(g)
    return inner


class Ctx:
    """per-def translation context handed to the table entries"""
    def __init__(self, fn, env):
        self.fn, self.env = fn, env

    def need(self, name, *tags):
        """Coq name of local `name`, which must have one of the given types here"""
        if name not in self.env:
            fail(self.fn.cur, 'unknown name %s' % name)
        c, t = self.env[name]
        if t == 'UNASSIGNED':
            fail(self.fn.cur, 'local %s is used before it is assigned' % name)
        if t not in tags:
            fail(self.fn.cur, '%s has type %s here, the primitive needs %s' % (name, t, ' / '.join(tags)))
        return c

    def opt(self, name, some, opt):
        """an option-typed Coq term for a local that is known non-None (type `some`) or possibly None (`opt`)"""
        c, t = self.env.get(name, (None, None))
        if t == some:
            return '(Some %s)' % c
        if t == opt:
            return c
        fail(self.fn.cur, '%s has type %s here, the primitive needs %s / %s' % (name, t, some, opt))

    def fresh(self, base='x'):
        return self.fn.fresh(base)


# ---------------------------------------------------------------------------------------------
# tables: per def, exact statement text -> Prim
# ---------------------------------------------------------------------------------------------
def P_struct(c):
    return Prim(note='(* structural: the hashes / range / neighbour cap are the world and the parameter q *)')


PRIMS = {
    'Subnets.__init__': {
        'self.max_neighbors = max_neighbors': P_struct,
        'self.source_hash = source_hash': P_struct,
        'self.dest_hash = dest_hash': P_struct,
        'self.search_range = search_range': P_struct,
        'self.includes_lost = False': lambda c: Prim(lets=[('self', 'set_includes_lost self false')]),
        'self.reset()': lambda c: Prim(guards=[('call', 'py_Subnets_reset self', 'self', '_')]),
        'self.compute()': lambda c: Prim(guards=[('call', 'py_Subnets_compute q self', 'self', '_')]),
    },
    'Subnets.reset': {
        'self.subnets = dict()': lambda c: Prim(lets=[('self', 'dict_clear self')]),
        'p.forward_cands = []': lambda c: Prim(lets=[('self', 'set_forward_cands self %s []' % c.need('p', 'SRC'))]),
        'p.subnet = None': lambda c: Prim(lets=[('self', 'clear_subnet_src self %s' % c.need('p', 'SRC'))]),
        'p.subnet = i': lambda c: Prim(lets=[('self', 'assign_subnet_dst self %s %s' % (c.need('p', 'DST'), c.need('i', 'ID')))]),
        'self.subnets[i] = (set(), {p})': lambda c: Prim(lets=[('self', 'dict_setitem self %s ([], [%s])' % (c.need('i', 'ID'), c.need('p', 'DST')))]),
    },
    'Subnets.compute': {
        'source_hash = self.source_hash': lambda c: Prim(binds={'source_hash': ('', 'SRCHASH')}, note='(* alias *)'),
        'dest_hash = self.dest_hash': lambda c: Prim(binds={'dest_hash': ('', 'DSTHASH')}, note='(* alias *)'),
        'dists, inds = source_hash.query(dest_hash.coords_mapped, self.max_neighbors, rescale=False, search_range=self.search_range)':
            lambda c: (c.need('source_hash', 'SRCHASH'), c.need('dest_hash', 'DSTHASH'),
                       Prim(binds={'dists': ('q', 'KDD'), 'inds': ('q', 'KDI')}, note='(* primitive: the result is the parameter q *)'))[2],
        'nn = np.sum(np.isfinite(dists), 1)':
            lambda c: (c.need('dists', 'KDD'), Prim(binds={'nn': ('q', 'KDN')}, note='(* primitive: row lengths of q *)'))[1],
        'wp = source_hash.points[inds[i, j]]':
            lambda c: (lambda x, y: Prim(guards=[('opt', 'kd_ind %s %s %s' % (c.need('inds', 'KDI'), c.need('i', 'ID'), c.need('j', 'NAT')), 'XIndexError', x),
                                                 ('opt', 'nth_error (source_points self) %s' % x, 'XIndexError', y)],
                                         lets=[('wp', y)], binds={'wp': ('wp', 'SRC')}))(c.need('source_hash', 'SRCHASH') or c.fresh(), c.fresh()),
        'wp.forward_cands.append((p, dists[i, j]))':
            lambda c: (lambda x: Prim(guards=[('opt', 'kd_dist %s %s %s' % (c.need('dists', 'KDD'), c.need('i', 'ID'), c.need('j', 'NAT')), 'XIndexError', x)],
                                      lets=[('self', 'fc_append self %s (Some %s, %s)' % (c.need('wp', 'SRC'), c.need('p', 'DST'), x))]))(c.fresh()),
        'assign_subnet(wp, p, self.subnets)':
            lambda c: (lambda m: Prim(guards=[('core', 'py_assign_subnet (k_mst self) %s %s' % (c.need('wp', 'SRC'), c.need('p', 'DST')), m)],
                                      lets=[('self', 'set_mst self %s' % m)]))(c.fresh('m')),
    },
    'Subnets.lost': {},
    'Linker.particle_ids': {},
    'subnet_linker_recursive': {
        '_s.forward_cands.append((None, search_range))':
            lambda c: Prim(lets=[('self', 'fc_append self %s (None, %s)' % (c.need('_s', 'SRC'), c.need('search_range', 'DIST')))]),
        'snl = SubnetLinker(source_set, len(dest_set), search_range, **kwargs)':
            lambda c: (lambda x: Prim(guards=[('core', 'py_SubnetLinker_init (map (spoint_of self) (set_iter ord %s)) %s'
                                               % (c.need('source_set', 'SRCSET'), c.need('kwargs', 'KW')), x)],
                                      lets=[('snl', x)], binds={'snl': ('snl', 'LINKER')}))(
                                          (c.need('dest_set', 'DSTSET'), c.need('search_range', 'DIST'), c.fresh())[2]),
        'sn_spl, sn_dpl = [list(particles) for particles in zip(*snl.best_pairs)]':
            lambda c: (lambda x: Prim(guards=[('sum', 'unzip_pairs (best_pairs %s)' % c.need('snl', 'LINKER'), x)],
                                      lets=[('sn_spl', 'fst %s' % x), ('sn_dpl', 'snd %s' % x)],
                                      binds={'sn_spl': ('sn_spl', 'LOSRC'), 'sn_dpl': ('sn_dpl', 'LODST')}))(c.fresh()),
        'sn_spl.append(None)': lambda c: Prim(lets=[('sn_spl', '%s ++ [None]' % c.need('sn_spl', 'LOSRC'))]),
        'sn_dpl.append(dp)': lambda c: Prim(lets=[('sn_dpl', '%s ++ [Some %s]' % (c.need('sn_dpl', 'LODST'), c.need('dp', 'DST')))]),
    },
    'Linker.assign_links': {
        'spl, dpl = ([], [])': lambda c: Prim(lets=[('spl', '[]'), ('dpl', '[]')], binds={'spl': ('spl', 'LOSRC'), 'dpl': ('dpl', 'LODST')}),
        'sp.forward_cands.sort(key=lambda x: x[1])': lambda c: Prim(lets=[('self', 'fc_sort self %s' % c.need('sp', 'SRC'))]),
        'sn_spl, sn_dpl = self.subnet_linker(source_set, dest_set, self.search_range)':
            lambda c: (lambda v: Prim(guards=[('call', 'py_subnet_linker_recursive ord self %s %s (k_R2 self) (k_max_size self)'
                                               % (c.need('source_set', 'SRCSET'), c.need('dest_set', 'DSTSET')), 'self', v)],
                                      lets=[('sn_spl', 'fst %s' % v), ('sn_dpl', 'snd %s' % v)],
                                      binds={'sn_spl': ('sn_spl', 'LOSRC'), 'sn_dpl': ('sn_dpl', 'LODST')}))(c.fresh('v')),
        'spl.extend(sn_spl)': lambda c: Prim(lets=[('spl', '%s ++ %s' % (c.need('spl', 'LOSRC'), c.need('sn_spl', 'LOSRC')))]),
        'dpl.extend(sn_dpl)': lambda c: Prim(lets=[('dpl', '%s ++ %s' % (c.need('dpl', 'LODST'), c.need('sn_dpl', 'LODST')))]),
        'lost = self.subnets.lost':
            lambda c: (lambda v: Prim(guards=[('call', 'py_Subnets_lost self', 'self', v)], lets=[('lost', v)], binds={'lost': ('lost', 'LSRC')}))(c.fresh('v')),
        'spl.extend(lost)': lambda c: Prim(lets=[('spl', '%s ++ map Some %s' % (c.need('spl', 'LOSRC'), c.need('lost', 'LSRC')))]),
        'dpl.extend([None] * len(lost))': lambda c: Prim(lets=[('dpl', '%s ++ repeat None (length %s)' % (c.need('dpl', 'LODST'), c.need('lost', 'LSRC')))]),
    },
    'Linker.apply_links': {
        'new_mem_set = set()': lambda c: Prim(lets=[('new_mem_set', '[]')], binds={'new_mem_set': ('new_mem_set', 'PSET')}),
        'sp.track.add_point(dp)':
            lambda c: (lambda w: Prim(guards=[('opt', 'track_add_point self %s %s' % (c.need('sp', 'SRC'), c.need('dp', 'DST')), 'XException', w)],
                                      lets=[('self', w)]))(c.fresh('w')),
        'self.mem_set.remove(sp)':
            lambda c: (lambda w: Prim(guards=[('opt', 'mem_set_remove self %s' % c.need('sp', 'SRC'), 'XKeyError', w)], lets=[('self', w)]))(c.fresh('w')),
        'self.track_cls(dp)':
            lambda c: (lambda w: Prim(guards=[('opt', 'track_new self %s' % c.opt('dp', 'DST', 'ODST'), 'XException', w)], lets=[('self', w)]))(c.fresh('w')),
        'new_mem_set.add(sp)':
            lambda c: Prim(lets=[('new_mem_set', 'pset_add (src_at self %s) %s' % (c.need('sp', 'SRC'), c.need('new_mem_set', 'PSET')))]),
        'sp.forward_cands = []': lambda c: Prim(lets=[('self', 'set_forward_cands self %s []' % c.need('sp', 'SRC'))]),
        'new_mem_set -= self.mem_set': lambda c: Prim(lets=[('new_mem_set', 'pset_minus %s (k_mem_set self)' % c.need('new_mem_set', 'PSET'))]),
        'self.mem_history.append(new_mem_set)':
            lambda c: Prim(lets=[('self', 'set_mem_history self (k_mem_history self ++ [%s])' % c.need('new_mem_set', 'PSET'))]),
        'self.mem_set -= self.mem_history.pop(0)':
            lambda c: (lambda x: Prim(guards=[('opt', 'history_pop0 self', 'XIndexError', x)],
                                      lets=[('self', 'snd %s' % x), ('self', 'set_mem_set self (pset_minus (k_mem_set self) (fst %s))' % x)]))(c.fresh()),
        'self.mem_set |= new_mem_set':
            lambda c: Prim(lets=[('self', 'set_mem_set self (pset_union (k_mem_set self) %s)' % c.need('new_mem_set', 'PSET'))]),
    },
    'Linker.next_level': {
        'prev_hash = self.update_hash(coords, t, extra_data)':
            lambda c: Prim(lets=[('self', 'update_hash_abs ordp self %s %s' % (c.need('coords', 'COORDS'), c.need('t', 'T')))],
                           binds={'prev_hash': ('', 'PREVHASH')}, note='(* primitive: update_hash_abs *)'),
        'self.subnets = Subnets(prev_hash, self.hash, self.search_range, self.MAX_NEIGHBORS)':
            lambda c: (c.need('prev_hash', 'PREVHASH'), Prim(guards=[('call', 'py_Subnets_init q self', 'self', '_')]))[1],
        'spl, dpl = self.assign_links()':
            lambda c: (lambda v: Prim(guards=[('call', 'py_Linker_assign_links ord self', 'self', v)], lets=[('spl', 'fst %s' % v), ('dpl', 'snd %s' % v)],
                                      binds={'spl': ('spl', 'LOSRC'), 'dpl': ('dpl', 'LODST')}))(c.fresh('v')),
        'self.apply_links(spl, dpl)':
            lambda c: Prim(guards=[('call', 'py_Linker_apply_links self %s %s' % (c.need('spl', 'LOSRC'), c.need('dpl', 'LODST')), 'self', '_')]),
    },
}

# atomic conditions: exact text -> Coq bool term
CONDS = {
    'Subnets.compute': {
        'len(source_hash.points) == 0': lambda c: (c.need('source_hash', 'SRCHASH'), '(Nat.eqb (length (source_points self)) 0)')[1],
        'len(dest_hash.points) == 0': lambda c: (c.need('dest_hash', 'DSTHASH'), '(Nat.eqb (length (dest_points self)) 0)')[1],
    },
    'Subnets.lost': {'self.includes_lost': lambda c: '(k_includes_lost self)'},
    'subnet_linker_recursive': {
        'len(source_set) == 0': lambda c: '(Nat.eqb (length %s) 0)' % c.need('source_set', 'SRCSET'),
        'len(source_set) == 1': lambda c: '(Nat.eqb (length %s) 1)' % c.need('source_set', 'SRCSET'),
        'len(dest_set) == 0': lambda c: '(Nat.eqb (length %s) 0)' % c.need('dest_set', 'DSTSET'),
        'len(dest_set) == 1': lambda c: '(Nat.eqb (length %s) 1)' % c.need('dest_set', 'DSTSET'),
    },
    'Linker.apply_links': {
        'sp in self.mem_set': lambda c: '(mem_set_in self %s)' % c.need('sp', 'SRC'),
        'self.memory > 0': lambda c: '(Nat.ltb 0 (k_memory self))',
    },
}

# loops: (target text, iterable text) -> dict(elem, lst, binds [(py, coq, tag, projection or None)], guards)
LOOPS = {
    'Subnets.reset': {
        ('p', 'self.source_hash.points'): lambda c: dict(elem='nat', lst='(source_points self)', binds=[('p', 'p', 'SRC', None)]),
        ('(i, p)', 'enumerate(self.dest_hash.points)'):
            lambda c: dict(elem='nat * nat', lst='(enumerate (dest_points self))', binds=[('i', 'i', 'ID', 'fst'), ('p', 'p', 'DST', 'snd')]),
    },
    'Subnets.compute': {
        ('(i, p)', 'enumerate(dest_hash.points)'):
            lambda c: (c.need('dest_hash', 'DSTHASH'),
                       dict(elem='nat * nat', lst='(enumerate (dest_points self))', binds=[('i', 'i', 'ID', 'fst'), ('p', 'p', 'DST', 'snd')]))[1],
        ('j', 'range(nn[i])'):
            lambda c: (lambda n: dict(elem='nat', lst='(range %s)' % n, binds=[('j', 'j', 'NAT', None)],
                                      guards=[('opt', 'kd_nn %s %s' % (c.need('nn', 'KDN'), c.need('i', 'ID')), 'XIndexError', n)]))(c.fresh('n')),
    },
    'subnet_linker_recursive': {
        ('_s', 'source_set'): lambda c: dict(elem='nat', lst='(set_iter ord %s)' % c.need('source_set', 'SRCSET'), binds=[('_s', 's_', 'SRC', None)]),
        ('dp', 'dest_set - set(sn_dpl)'):
            lambda c: dict(elem='nat', lst='(set_iter ord (nset_diff %s (somes %s)))' % (c.need('dest_set', 'DSTSET'), c.need('sn_dpl', 'LODST')),
                           binds=[('dp', 'dp', 'DST', None)]),
    },
    'Linker.assign_links': {
        ('(source_set, dest_set)', 'self.subnets'):
            lambda c: dict(elem='sets', lst='(py_Subnets_iter self)', binds=[('source_set', 'source_set', 'SRCSET', 'fst'), ('dest_set', 'dest_set', 'DSTSET', 'snd')]),
        ('sp', 'source_set'): lambda c: dict(elem='nat', lst='(set_iter ord %s)' % c.need('source_set', 'SRCSET'), binds=[('sp', 'sp', 'SRC', None)]),
    },
    'Linker.apply_links': {
        ('(sp, dp)', 'zip(spl, dpl)'):
            lambda c: dict(elem='option nat * option nat', lst='(combine %s %s)' % (c.need('spl', 'LOSRC'), c.need('dpl', 'LODST')),
                           binds=[('sp', 'sp', 'OSRC', 'fst'), ('dp', 'dp', 'ODST', 'snd')]),
    },
}

# returned expressions: exact text -> (guards, value term)
RETS = {
    'Subnets.lost': {
        '[p for p in self.source_hash.points if p.subnet is None]': lambda c: ([], '(filter (subnet_is_none self) (source_points self))'),
    },
    'Linker.particle_ids': {
        '[p.track.id for p in self.hash.points]':
            lambda c: (lambda x: ([('opt', 'track_ids (k_dtrack self) (dest_points self)', 'XAttributeError', x)], x))(c.fresh()),
    },
    'subnet_linker_recursive': {
        '([None], [dest_set.pop()])':
            lambda c: (lambda x: ([('opt', 'set_pop ord %s' % c.need('dest_set', 'DSTSET'), 'XKeyError', x)], '([None], [Some %s])' % x))(c.fresh()),
        '([source_set.pop()], [dest_set.pop()])':
            lambda c: (lambda x, y: ([('opt', 'set_pop ord %s' % c.need('source_set', 'SRCSET'), 'XKeyError', x),
                                      ('opt', 'set_pop ord %s' % c.need('dest_set', 'DSTSET'), 'XKeyError', y)], '([Some %s], [Some %s])' % (x, y)))(c.fresh(), c.fresh()),
        '([source_set.pop()], [None])':
            lambda c: (lambda x: ([('opt', 'set_pop ord %s' % c.need('source_set', 'SRCSET'), 'XKeyError', x)], '([Some %s], [None])' % x))(c.fresh()),
        '(sn_spl, sn_dpl)': lambda c: ([], '(%s, %s)' % (c.need('sn_spl', 'LOSRC'), c.need('sn_dpl', 'LODST'))),
    },
    'Linker.assign_links': {
        '(spl, dpl)': lambda c: ([], '(%s, %s)' % (c.need('spl', 'LOSRC'), c.need('dpl', 'LODST'))),
    },
}

LOL = 'list (option nat)'
# def table: key -> file, class, name, expected args, kwarg, decorators, Coq name, Coq parameters, initial env,
#            top-level locals [(python name, Coq name, Coq type, blank value)], aliases (top-level names that are not state),
#            value type, value when falling off the end
DEFS = [
    dict(key='Subnets.reset', file='subnet.py', cls='Subnets', name='reset', args=['self'], coq='py_Subnets_reset', params='(self : lk)',
         env={}, locals=[], aliases=[], vtype='unit', dflt='(Some tt)'),
    dict(key='Subnets.compute', file='subnet.py', cls='Subnets', name='compute', args=['self'], coq='py_Subnets_compute', params='(q : kdq) (self : lk)',
         env={}, locals=[], aliases=['source_hash', 'dest_hash', 'dists', 'inds', 'nn'], vtype='unit', dflt='(Some tt)'),
    dict(key='Subnets.__init__', file='subnet.py', cls='Subnets', name='__init__', args=['self', 'source_hash', 'dest_hash', 'search_range', 'max_neighbors'],
         defaults=['10'], coq='py_Subnets_init', params='(q : kdq) (self : lk)', env={}, locals=[], aliases=[], vtype='unit', dflt='(Some tt)'),
    dict(key='Subnets.lost', file='subnet.py', cls='Subnets', name='lost', args=['self'], decorators=['property'], coq='py_Subnets_lost', params='(self : lk)',
         env={}, locals=[], aliases=[], vtype='list nat', dflt='None'),
    dict(key='subnet_linker_recursive', file='subnetlinker.py', cls=None, name='subnet_linker_recursive', args=['source_set', 'dest_set', 'search_range'],
         kwarg='kwargs', coq='py_subnet_linker_recursive',
         params='(ord : list nat -> list nat) (self : lk) (source_set dest_set : list nat) (search_range_sq : Z) (max_size : nat)',
         env={'source_set': ('source_set', 'SRCSET'), 'dest_set': ('dest_set', 'DSTSET'), 'search_range': ('search_range_sq', 'DIST'), 'kwargs': ('max_size', 'KW')},
         locals=[('snl', 'snl', 'linker', 'blank_linker'), ('sn_spl', 'sn_spl', LOL, '[]'), ('sn_dpl', 'sn_dpl', LOL, '[]')], aliases=[],
         vtype='%s * %s' % (LOL, LOL), dflt='None'),
    dict(key='Linker.assign_links', file='linking.py', cls='Linker', name='assign_links', args=['self'], coq='py_Linker_assign_links',
         params='(ord : list nat -> list nat) (self : lk)', env={},
         locals=[('spl', 'spl', LOL, '[]'), ('dpl', 'dpl', LOL, '[]'), ('lost', 'lost', 'list nat', '[]')], aliases=[],
         vtype='%s * %s' % (LOL, LOL), dflt='None'),
    dict(key='Linker.apply_links', file='linking.py', cls='Linker', name='apply_links', args=['self', 'spl', 'dpl'], coq='py_Linker_apply_links',
         params='(self : lk) (spl dpl : %s)' % LOL, env={'spl': ('spl', 'LOSRC'), 'dpl': ('dpl', 'LODST')},
         locals=[('new_mem_set', 'new_mem_set', 'list src', '[]')], aliases=[], vtype='unit', dflt='(Some tt)'),
    dict(key='Linker.next_level', file='linking.py', cls='Linker', name='next_level', args=['self', 'coords', 't', 'extra_data'], defaults=['None'],
         coq='py_Linker_next_level',
         params='(ord : list nat -> list nat) (ordp : list src -> list src) (q : kdq) (self : lk) (coords : list pt) (t : nat)',
         env={'coords': ('coords', 'COORDS'), 't': ('t', 'T'), 'extra_data': ('', 'IGNORED')},
         locals=[('spl', 'spl', LOL, '[]'), ('dpl', 'dpl', LOL, '[]')], aliases=['prev_hash'], vtype='unit', dflt='(Some tt)'),
    dict(key='Linker.particle_ids', file='linking.py', cls='Linker', name='particle_ids', args=['self'], decorators=['property'], coq='py_Linker_particle_ids',
         params='(self : lk)', env={}, locals=[], aliases=[], vtype='list nat', dflt='None'),
]
ORDER = ['Subnets.reset', 'Subnets.compute', 'Subnets.__init__', 'Subnets.__iter__', 'Subnets.lost', 'subnet_linker_recursive',
         'Linker.assign_links', 'Linker.apply_links', 'Linker.next_level', 'Linker.particle_ids']
FORBIDDEN = (ast.While, ast.Try, ast.With, ast.Yield, ast.YieldFrom, ast.FunctionDef, ast.AsyncFunctionDef, ast.Global, ast.Nonlocal,
             ast.Assert, ast.Break, ast.NamedExpr, ast.Await, ast.ClassDef, ast.Import, ast.ImportFrom, ast.Delete)


class Fn:
    def __init__(self, node, d):
        self.f, self.d, self.key = node, d, d['key']
        self.n = 0
        self.cur = node
        self.locals = d['locals']

    def fresh(self, base='x'):
        self.n += 1
        return '%s%d' % (base, self.n)

    # ---- state tuple
    def st(self):
        return 'self' if not self.locals else '(self, %s)' % ', '.join(c for _, c, _, _ in self.locals)

    def sty(self):
        return 'lk' if not self.locals else '(lk * %s)%%type' % ' * '.join('(%s)' % t for _, _, t, _ in self.locals)

    def binder(self):
        return '(self : lk)' if not self.locals else "(st_ : %s)" % self.sty()

    def unpack(self):
        return '' if not self.locals else "let '%s := st_ in\n" % self.st()

    def bind(self, oc, rest_term):
        return 'obind (%s) (fun %s =>\n%s%s)' % (oc, self.binder(), self.unpack(), rest_term)

    # ---- conditions
    def none_test(self, e, env):
        if isinstance(e, ast.Compare) and len(e.ops) == 1 and isinstance(e.ops[0], (ast.Is, ast.IsNot)) \
                and isinstance(e.comparators[0], ast.Constant) and e.comparators[0].value is None and isinstance(e.left, ast.Name):
            nm = e.left.id
            if nm not in env:
                fail(e, 'unknown name %s' % nm)
            c, t = env[nm]
            if t not in OPT:
                fail(e, '`%s` on %s, which has type %s here (only a local that may be None can be tested)' % (text(e), nm, t))
            return nm, isinstance(e.ops[0], ast.IsNot)
        return None

    def pure_bool(self, e, env):
        """Coq bool term of a condition built from table atoms with and / or (short-circuit evaluation of total
        tests = andb / orb); None when it contains a None-test (those bind a value and become a match)"""
        if self.none_test(e, env):
            return None
        if isinstance(e, ast.BoolOp) and isinstance(e.op, (ast.And, ast.Or)):
            parts = [self.pure_bool(v, env) for v in e.values]
            if any(x is None for x in parts):
                return None
            op = 'andb' if isinstance(e.op, ast.And) else 'orb'
            r = parts[-1]
            for x in reversed(parts[:-1]):
                r = '(%s %s %s)' % (op, x, r)
            return r
        tab = CONDS.get(self.key, {})
        k = text(e)
        if k not in tab:
            if any(isinstance(n, ast.Compare) and any(isinstance(o, (ast.Is, ast.IsNot)) for o in n.ops) for n in ast.walk(e)):
                return None
            fail(e, 'condition `%s` is not in the translated subset of %s' % (k, self.key))
        return tab[k](Ctx(self, env))

    def cond(self, e, env, then_fn, else_fn):
        """Coq term for `if e then .. else ..`; then_fn / else_fn take the (possibly refined) env"""
        nt = self.none_test(e, env)
        if nt:
            nm, is_not = nt
            c, t = env[nm]
            v = self.fresh(nm + '_v')
            envk = dict(env)
            envk[nm] = (v, OPT[t])
            known, unknown = (then_fn, else_fn) if is_not else (else_fn, then_fn)
            return 'match %s with\n| Some %s =>\n%s\n| None =>\n%s\nend' % (c, v, known(envk), unknown(env))
        pb = self.pure_bool(e, env)
        if pb is not None:
            return 'if %s\nthen\n%s\nelse\n%s' % (pb, then_fn(env), else_fn(env))
        if isinstance(e, ast.BoolOp) and isinstance(e.op, ast.And):
            first, rest = e.values[0], e.values[1:]
            rest_e = rest[0] if len(rest) == 1 else ast.BoolOp(op=ast.And(), values=rest)
            return self.cond(first, env, lambda en: self.cond(rest_e, en, then_fn, lambda _e: else_fn(env)), else_fn)
        if isinstance(e, ast.BoolOp) and isinstance(e.op, ast.Or):
            first, rest = e.values[0], e.values[1:]
            rest_e = rest[0] if len(rest) == 1 else ast.BoolOp(op=ast.Or(), values=rest)
            return self.cond(first, env, then_fn, lambda en: self.cond(rest_e, en, lambda _e: then_fn(env), else_fn))
        tab = CONDS.get(self.key, {})
        k = text(e)
        if k not in tab:
            fail(e, 'condition `%s` is not in the translated subset of %s' % (k, self.key))
        b = tab[k](Ctx(self, env))
        return 'if %s\nthen\n%s\nelse\n%s' % (b, then_fn(env), else_fn(env))

    # ---- statements
    def block(self, stmts, env, depth, loops):
        if not stmts:
            return 'ONormal %s' % self.st()
        s, rest = stmts[0], stmts[1:]
        self.cur = s
        return comment(s) + '\n' + self.stmt(s, rest, dict(env), depth, loops)

    def after(self, p, rest, env, depth, loops):
        """guards, lets, then the rest of the block"""
        env = dict(env)
        for k, v in p.binds.items():
            env[k] = v
        inner = ''.join('let %s := %s in\n' % (n, t) for n, t in p.lets) + self.block(rest, env, depth, loops)
        if p.note:
            inner = p.note + '\n' + inner
        return wrap_guards(p.guards, inner)

    def stmt(self, s, rest, env, depth, loops):
        if isinstance(s, ast.Expr) and isinstance(s.value, ast.Constant) and isinstance(s.value.value, str):
            return self.block(rest, env, depth, loops)
        if isinstance(s, ast.Pass):
            return self.block(rest, env, depth, loops)
        if isinstance(s, ast.Return):
            if rest:
                fail(rest[0], 'statement after return')
            if s.value is None or (isinstance(s.value, ast.Constant) and s.value.value is None):
                if self.d['vtype'] != 'unit':
                    fail(s, 'return without a value in a def whose value is used')
                return 'OReturn %s tt' % self.st()
            if self.d['vtype'] == 'unit':
                fail(s, 'return with a value in a def translated as returning nothing')
            tab = RETS.get(self.key, {})
            k = text(s.value)
            if k not in tab:
                fail(s, 'returned expression `%s` is not in the translated subset of %s' % (k, self.key))
            guards, val = tab[k](Ctx(self, env))
            return wrap_guards(guards, 'OReturn %s %s' % (self.st(), val))
        if isinstance(s, ast.Continue):
            if not loops:
                fail(s, 'continue outside a loop')
            if rest:
                fail(rest[0], 'statement after continue')
            return 'OContinue %s' % self.st()
        if isinstance(s, ast.Raise):
            if s.cause is not None or not (isinstance(s.exc, ast.Call) and isinstance(s.exc.func, ast.Name) and s.exc.func.id in EXNS
                                           and not s.exc.keywords and all(isinstance(a, ast.Constant) and isinstance(a.value, str) for a in s.exc.args)):
                fail(s, 'unsupported raise')
            if rest:
                fail(rest[0], 'statement after raise')
            return 'ORaise %s' % EXNS[s.exc.func.id]
        if isinstance(s, ast.If):
            oc = self.cond(s.test, env,
                           lambda en: self.block(list(s.body), en, depth + 1, loops),
                           lambda en: self.block(list(s.orelse), en, depth + 1, loops))
            if not rest:
                return oc
            return self.bind(oc, self.block(rest, env, depth, loops))
        if isinstance(s, ast.For):
            if s.orelse:
                fail(s, 'for ... else')
            tab = LOOPS.get(self.key, {})
            k = (text(s.target), text(s.iter))
            if k not in tab:
                fail(s, 'loop `for %s in %s` is not in the translated subset of %s' % (k[0], k[1], self.key))
            L = tab[k](Ctx(self, env))
            benv = dict(env)
            lets = ''
            for py, c, tag, proj in L['binds']:
                if py in env:
                    fail(s, 'loop variable %s shadows a local' % py)
                if any(py == l[0] for l in self.locals) or py in self.d['aliases']:
                    fail(s, 'loop variable %s is also a top-level local' % py)
                benv[py] = (c, tag)
                if proj:
                    lets += 'let %s := %s it in ' % (c, proj)
            single = len(L['binds']) == 1 and L['binds'][0][3] is None
            itname = L['binds'][0][1] if single else 'it'
            body = self.block(list(s.body), benv, depth + 1, loops + 1)
            oc = 'ofor (fun (%s : %s) %s =>\n%s%s%s)\n%s %s' % (itname, L['elem'], self.binder(), self.unpack(), lets + ('\n' if lets else ''), body,
                                                                 L['lst'], self.st())
            inner = oc if not rest else self.bind(oc, self.block(rest, env, depth, loops))
            return wrap_guards(L.get('guards', []), inner)
        if isinstance(s, (ast.Assign, ast.AugAssign, ast.Expr)):
            tab = PRIMS.get(self.key, {})
            k = text(s)
            if k not in tab:
                fail(s, 'statement `%s` is not a primitive of the translated subset of %s' % (k, self.key))
            # names assigned by this statement
            targets = []
            if isinstance(s, ast.Assign):
                for t in s.targets:
                    for n in ([t] if isinstance(t, ast.Name) else (t.elts if isinstance(t, ast.Tuple) else [])):
                        if isinstance(n, ast.Name):
                            targets.append(n.id)
            p = tab[k](Ctx(self, env))
            for nm in targets:
                is_state = any(nm == l[0] for l in self.locals)
                is_alias = nm in self.d['aliases']
                if depth == 0:
                    if not (is_state or is_alias):
                        fail(s, 'top-level local %s is not declared for %s' % (nm, self.key))
                    if env.get(nm, (None, 'UNASSIGNED'))[1] != 'UNASSIGNED':
                        fail(s, 'local %s is assigned twice' % nm)
                else:
                    if is_state or is_alias or nm in env:
                        fail(s, 'assignment to %s inside a loop / branch (only new immutable locals may be bound there)' % nm)
                if nm not in p.binds:
                    fail(s, 'primitive does not bind %s' % nm)
            return self.after(p, rest, env, depth, loops)
        fail(s, 'unsupported statement %s' % type(s).__name__)

    # ---- whole def
    def check_sig(self):
        a, d = self.f.args, self.d
        if a.vararg or a.kwonlyargs or getattr(a, 'posonlyargs', []):
            fail(self.f, 'unsupported signature')
        names = [x.arg for x in a.args]
        if names != d['args']:
            fail(self.f, '%s: expected arguments (%s), found (%s)' % (self.key, ', '.join(d['args']), ', '.join(names)))
        if (a.kwarg.arg if a.kwarg else None) != d.get('kwarg'):
            fail(self.f, '%s: unexpected **kwargs' % self.key)
        if [text(x) for x in a.defaults] != d.get('defaults', []):
            fail(self.f, '%s: default values changed' % self.key)
        if [text(x) for x in self.f.decorator_list] != d.get('decorators', []):
            fail(self.f, '%s: decorators changed' % self.key)

    def translate(self):
        self.check_sig()
        for n in ast.walk(self.f):
            if isinstance(n, FORBIDDEN) and n is not self.f:
                fail(n, 'unsupported construct %s' % type(n).__name__)
        env = dict(self.d['env'])
        for py, c, t, b in self.locals:
            env[py] = (c, 'UNASSIGNED')
        d = self.d
        body = self.block(list(self.f.body), env, 0, 0)
        blanks = ''.join('let %s : %s := %s in\n' % (c, t, b) for _, c, t, b in self.locals)
        proj = '(fun self : lk => self)' if not self.locals else "(fun st_ : %s => let '%s := st_ in self)" % (self.sty(), self.st())
        hdr = '(* ===== %s (trackpy/linking/%s, line %d) ===== *)\n' % (self.key, d['file'], self.f.lineno)
        return hdr + 'Definition %s %s : fres lk (%s) :=\nfn_end %s %s (\n%s%s).\n' % (d['coq'], d['params'], d['vtype'], proj, d['dflt'], blanks, body)


def find_def(trees, d):
    tree = trees[d['file']]
    if d['cls'] is None:
        hits = [n for n in tree.body if isinstance(n, ast.FunctionDef) and n.name == d['name']]
    else:
        cl = [n for n in tree.body if isinstance(n, ast.ClassDef) and n.name == d['cls']]
        if len(cl) != 1:
            raise TranslationError('class %s: expected exactly one definition' % d['cls'])
        hits = [m for m in cl[0].body if isinstance(m, ast.FunctionDef) and m.name == d['name']]
    if len(hits) != 1:
        raise TranslationError('%s: expected exactly one definition, found %d' % (d['key'], len(hits)))
    return hits[0]


def translate_iter(trees):
    """Subnets.__iter__ : the lazily evaluated generator over the dictionary's values, in key (insertion) order"""
    f = find_def(trees, dict(file='subnet.py', cls='Subnets', name='__iter__', key='Subnets.__iter__'))
    if [a.arg for a in f.args.args] != ['self'] or f.decorator_list:
        fail(f, 'Subnets.__iter__: signature changed')
    body = [s for s in f.body if not (isinstance(s, ast.Expr) and isinstance(s.value, ast.Constant) and isinstance(s.value.value, str))]
    if len(body) != 1 or not isinstance(body[0], ast.Return) or text(body[0].value) != '(self.subnets[key] for key in self.subnets)':
        fail(f, 'Subnets.__iter__ is not `return (self.subnets[key] for key in self.subnets)`')
    return ('(* ===== Subnets.__iter__ (trackpy/linking/subnet.py, line %d) ===== *)\n'
            'Definition py_Subnets_iter (self : lk) : list sets :=\n%s\ndict_values self.\n' % (f.lineno, comment(body[0])))


def check_wiring(trees):
    """Linker.__init__: link_strategy == 'recursive' selects subnet_linker_recursive; without adaptive_stop
    self.subnet_linker = functools.partial(subnet_linker, max_size=self.MAX_SUB_NET_SIZE); Linker does not override
    the Subnets methods; Linker has exactly one class attribute MAX_SUB_NET_SIZE"""
    f = find_def(trees, dict(file='linking.py', cls='Linker', name='__init__', key='Linker.__init__'))
    ok1 = ok2 = False
    for n in ast.walk(f):
        if isinstance(n, ast.If) and text(n.test) == "link_strategy == 'recursive'" and [text(x) for x in n.body] == ['subnet_linker = subnet_linker_recursive']:
            ok1 = True
        if isinstance(n, ast.If) and text(n.test) == 'adaptive_stop is not None' \
                and [text(x) for x in n.orelse] == ['self.subnet_linker = functools.partial(subnet_linker, max_size=self.MAX_SUB_NET_SIZE)']:
            ok2 = True
    if not ok1:
        fail(f, "Linker.__init__: `if link_strategy == 'recursive': subnet_linker = subnet_linker_recursive` not found")
    if not ok2:
        fail(f, 'Linker.__init__: `self.subnet_linker = functools.partial(subnet_linker, max_size=self.MAX_SUB_NET_SIZE)` (no adaptive_stop) not found')
    others = [n for n in ast.walk(f) if isinstance(n, (ast.Assign, ast.AugAssign)) and 'self.subnet_linker' in [text(t) for t in (n.targets if isinstance(n, ast.Assign) else [n.target])]]
    if len(others) != 2:
        fail(f, 'Linker.__init__ assigns self.subnet_linker in %d places (expected 2: adaptive / plain)' % len(others))


def translate(repo):
    trees = {}
    for fn in ('subnet.py', 'subnetlinker.py', 'linking.py'):
        trees[fn] = ast.parse(open(os.path.join(repo, 'trackpy', 'linking', fn)).read())
    check_wiring(trees)
    out = ['(* GENERATED by tools/py2coq_linkstep.py from trackpy/linking/subnet.py (Subnets.__init__, reset, compute,',
           '   __iter__, lost), trackpy/linking/subnetlinker.py (subnet_linker_recursive) and trackpy/linking/linking.py',
           '   (Linker.next_level, assign_links, apply_links, particle_ids) -- do not edit.',
           '   Statement by statement, state passing; the numbered comments are the Python statements.',
           '   Vocabulary and its meaning: Model/PyLinkstep.v; subset, tables of primitives and conventions: the translator.',
           '   Parameters:  ord  iteration order of a Python set of points;  ordp  iteration order of self.mem_set;',
           '   q  the result of the KD-tree query of Subnets.compute. *)',
           'From Coq Require Import ZArith List Bool Arith.',
           'From TP Require Import Model.Assign Model.Link Model.MemQueue Model.SubnetMerge Model.PyLinker Gen.linker_core Model.PyLinkstep.',
           'Import ListNotations.',
           '']
    parts = {}
    for d in DEFS:
        parts[d['key']] = Fn(find_def(trees, d), d).translate()
    parts['Subnets.__iter__'] = translate_iter(trees)
    for k in ORDER:
        out.append(parts[k])
    return '\n'.join(out)


def main():
    ap = argparse.ArgumentParser()
    ap.add_argument('--repo', default=os.environ.get('TRACKPY_REPO', '/repo'))
    ap.add_argument('--out', default=os.path.join(os.path.dirname(os.path.dirname(os.path.abspath(__file__))), 'coq', 'Gen', 'linkstep.v'))
    ap.add_argument('--stdout', action='store_true')
    a = ap.parse_args()
    try:
        out = translate(a.repo)
    except TranslationError as e:
        sys.stderr.write('py2coq_linkstep: TRANSLATION ERROR: %s\n' % e)
        sys.exit(2)
    except (OSError, SyntaxError) as e:
        sys.stderr.write('py2coq_linkstep: TRANSLATION ERROR: cannot read / parse the source: %s\n' % e)
        sys.exit(2)
    if a.stdout:
        sys.stdout.write(out)
        return
    old = open(a.out).read() if os.path.exists(a.out) else None
    if old != out:
        os.makedirs(os.path.dirname(a.out), exist_ok=True)
        tmp = a.out + '.tmp%d' % os.getpid()
        with open(tmp, 'w') as f:
            f.write(out)
        os.replace(tmp, a.out)
        print('py2coq_linkstep: wrote %s (changed)' % a.out)
    else:
        print('py2coq_linkstep: %s up to date' % a.out)


if __name__ == '__main__':
    main()
