#!/usr/bin/env python3
"""Fail-closed translator (route T) for C07: the pure-python engine and the glue.

Reads  $TRACKPY_REPO/trackpy/refine/center_of_mass.py  (default /repo) with the
Python `ast` module and regenerates  /verif/coq/Gen/refine.v :

    _safe_center_of_mass -> py_safe_center_of_mass
    _refine              -> py_refine            (+ py_refine_loop<k>, the lambda-lifted loop bodies)
    refine_com_arr       -> py_refine_com_arr    (calls py_refine and the four generated numba kernels
                                                  of Gen/com_kernels.v, tools/py2coq_com.py)
    refine_com           -> py_refine_com
    py_<f>_defaults      the default values of the keyword parameters

Vocabulary of the generated text: coq/Model/PyRefine.v (read its header for the meaning
of every construct).  Anything outside the subset below, a missing function, a changed
signature: ERROR (exit status 2, nothing written); the check treats that like a broken proof.

Statements
  x = e ; a, b, c = e (unpacking the rows of np.asarray(mask.nonzero())) ; x += e (lists of names) ;
  X[feat] = e / np.sqrt(e)  on a per-feature float64 array (set_row; a float gives a one-cell row,
  a 1-d array a row of cells; that the array is 1-d resp. 2-d there is numpy's business) ;
  coord[<bools>] += k / -= k ; if / elif / else ; `for i, v in enumerate(a)` ; `for i in range(n)` ;
  break ; continue ; return e ; raise ValueError("..") / NotImplementedError("..") ;
  a call of one of the four numba kernels as a statement (the kernel fills `results`;
  a division by zero inside it ends the call with ZeroDivisionError) ;
  DROPPED, after checking their arguments are names / constants only: logger.debug(..),
  warnings.warn(..), the `if walkthrough:` display block of _refine (import matplotlib; plt.imshow),
  the dtype guard of _refine (coords is an integer array by typing).
  An `if` none of whose branches returns / raises / breaks / continues / calls a kernel is a JOIN
  (the variables it assigns come out as a tuple; a variable Python would find unbound is pre-bound
  to an empty default: UnboundLocalError is not modelled); any other `if` gets the rest of the
  block appended to both branches.
Expressions: see `Fn.ex` -- every numpy / pandas / trackpy call is matched as an exact syntactic
  pattern and becomes the named primitive of Model/PyRefine.v; arithmetic on 1-d arrays is written
  out with map / vmap2; floats are exact rationals; Z meets Q through inject_Z.
Sliced out (as in py2coq_com.py): ecc.  `ecc[feat] = ..` / `ecc[feat] /= ..` are dropped, cosmask /
  sinmask weights handed to the kernels become ecc_weights_not_modelled; it is an ERROR if any other
  translated statement mentions cosmask / sinmask.

Usage:  py2coq_refine.py [--repo /repo] [--out /verif/coq/Gen/refine.v] [--stdout]
"""
import ast, sys, os, argparse, copy
from fractions import Fraction


class TranslationError(Exception):
    pass


def fail(node, msg):
    raise TranslationError('line %s: %s' % (getattr(node, 'lineno', '?'), msg))


COQTYPE = {'Z': 'Z', 'Q': 'Q', 'B': 'bool', 'S': 'string', 'ZV': 'list Z', 'QV': 'list Q', 'BV': 'list bool',
           'SV': 'list string', 'SL': 'list slice', 'ZA': 'zarr', 'QA': 'qarr', 'BA': 'barr', 'ZAS': 'list zarr',
           'QAS': 'list qarr', 'F': 'farr', 'ROWS': 'list (list cell)', 'ZM': 'zmat', 'QM': 'qmat', 'CA': 'coords_arg',
           'RA': 'radius_arg', 'OSV': 'option (list string)', 'OIDX': 'option (list Z)', 'FRAME': 'out_frame',
           'ZVS': 'list (list Z)'}
DEFAULT = {'Z': '0%Z', 'Q': '0%Q', 'B': 'false', 'ZV': '[]', 'QV': '[]', 'BV': '[]', 'SL': '[]', 'ZA': '(empty_arr 0%Z)',
           'F': 'farr_unbound', 'ROWS': '[]', 'ZAS': '[]', 'QAS': '[]', 'SV': '[]', 'OIDX': 'None', 'ZVS': '[]'}

# name -> (parameter types in order, result type, monadic?)
SIGS = {
    '_safe_center_of_mass': ([('x', 'ZA'), ('radius', 'ZV'), ('grids', 'QAS')], 'QV', False),
    '_refine': ([('raw_image', 'ZA'), ('image', 'ZA'), ('radius', 'ZV'), ('coords', 'ZM'), ('max_iterations', 'Z'),
                 ('shift_thresh', 'Q'), ('characterize', 'B'), ('walkthrough', 'B')], 'ROWS', False),
    'refine_com_arr': ([('raw_image', 'ZA'), ('image', 'ZA'), ('radius', 'RA'), ('coords', 'QM'), ('max_iterations', 'Z'),
                        ('engine', 'S'), ('shift_thresh', 'Q'), ('characterize', 'B'), ('walkthrough', 'B')], 'ROWS', True),
    'refine_com': ([('raw_image', 'ZA'), ('image', 'ZA'), ('radius', 'RA'), ('coords', 'CA'), ('max_iterations', 'Z'),
                    ('engine', 'S'), ('shift_thresh', 'Q'), ('characterize', 'B'), ('pos_columns', 'OSV')], 'FRAME', True),
}
ORDER = ['_safe_center_of_mass', '_refine', 'refine_com_arr', 'refine_com']
GLOBALS = {'NUMBA_AVAILABLE': 'B'}       # module-level names read by the translated functions: extra first parameters
USES_GLOBALS = {'refine_com_arr': ['NUMBA_AVAILABLE'], 'refine_com': ['NUMBA_AVAILABLE']}
# the numba kernels (types as in tools/py2coq_com.py)
KPARAMS = {'radiusZ': 'Z', 'radiusY': 'Z', 'radiusX': 'Z', 'shapeZ': 'Z', 'shapeY': 'Z', 'shapeX': 'Z',
           'coords': 'ZVS', 'N': 'Z', 'max_iterations': 'Z', 'N_mask': 'Z', 'shift_thresh': 'Q', 'characterize': 'B',
           'maskZ': 'ZV', 'maskY': 'ZV', 'maskX': 'ZV', 'r2_mask': 'ZV', 'z2_mask': 'ZV', 'y2_mask': 'ZV', 'x2_mask': 'ZV',
           'cmask': 'QV', 'smask': 'QV', 'results': 'ROWS', 'image': 'IMG', 'raw_image': 'IMG'}
KERNELS = ['_numba_refine_2D', '_numba_refine_2D_c', '_numba_refine_2D_c_a', '_numba_refine_3D']
SLICED_FUNCS = ('cosmask', 'sinmask')


def pyname(f):
    return 'py_' + f.lstrip('_')


def is_name(e, n=None):
    return isinstance(e, ast.Name) and (n is None or e.id == n)


def is_attr(e, base, attr):
    return isinstance(e, ast.Attribute) and e.attr == attr and is_name(e.value, base)


def is_np(e, attr):
    return is_attr(e, 'np', attr)


def is_call(e, fname=None, nargs=None, kw=()):
    if not isinstance(e, ast.Call):
        return False
    if fname is not None and not is_name(e.func, fname):
        return False
    if nargs is not None and len(e.args) != nargs:
        return False
    return sorted(k.arg or '*' for k in e.keywords) == sorted(kw)


def is_npcall(e, attr, nargs=None, kw=()):
    return isinstance(e, ast.Call) and is_np(e.func, attr) and (nargs is None or len(e.args) == nargs) \
        and sorted(k.arg or '*' for k in e.keywords) == sorted(kw)


def is_method(e, attr, nargs=0):
    return isinstance(e, ast.Call) and isinstance(e.func, ast.Attribute) and e.func.attr == attr \
        and len(e.args) == nargs and not e.keywords


def kwval(e, name):
    for k in e.keywords:
        if k.arg == name:
            return k.value
    return None


def const_int(e, v=None):
    return isinstance(e, ast.Constant) and isinstance(e.value, int) and not isinstance(e.value, bool) and (v is None or e.value == v)


def coqstr(s):
    if any(ord(c) > 126 or ord(c) < 32 for c in s):
        raise TranslationError('non-printable character in a string literal')
    return '"%s"' % s.replace('"', '""')


def names_in(node):
    return {n.id for n in ast.walk(node) if isinstance(n, ast.Name)}


TERMINAL = (ast.Return, ast.Raise, ast.Break, ast.Continue)


def is_kernel_call_stmt(s):
    return isinstance(s, ast.Expr) and isinstance(s.value, ast.Call) and isinstance(s.value.func, ast.Name) and s.value.func.id in KERNELS


def is_monadic_assign(n):
    if not isinstance(n, ast.Assign):
        return False
    v = n.value
    if isinstance(v, ast.Call) and isinstance(v.func, ast.Name) and (v.func.id == 'validate_tuple' or (v.func.id in SIGS and SIGS[v.func.id][2])):
        return True
    return isinstance(v, ast.Attribute) and v.attr == 'values' and isinstance(v.value, ast.Subscript)


def has_terminal(s):
    for n in ast.walk(s):
        if isinstance(n, TERMINAL) or is_kernel_call_stmt(n) or is_monadic_assign(n):
            return True
    return False


def assigned(stmts):
    out = []

    def add(n):
        if n not in out:
            out.append(n)

    def tgt(t):
        if isinstance(t, ast.Name):
            add(t.id)
        elif isinstance(t, ast.Subscript) and isinstance(t.value, ast.Name):
            add(t.value.id)
        elif isinstance(t, ast.Tuple):
            for x in t.elts:
                tgt(x)

    def walk(ss):
        for s in ss:
            if isinstance(s, ast.Assign):
                for t in s.targets:
                    tgt(t)
            elif isinstance(s, ast.AugAssign):
                tgt(s.target)
            elif isinstance(s, ast.If):
                walk(s.body); walk(s.orelse)
            elif isinstance(s, ast.For):
                walk(s.body)
            elif is_kernel_call_stmt(s):
                add('results')
    walk(stmts)
    return out


def loop_targets(s):
    t = s.target
    if isinstance(t, ast.Name):
        return [t.id]
    if isinstance(t, ast.Tuple) and all(isinstance(x, ast.Name) for x in t.elts):
        return [x.id for x in t.elts]
    fail(s, 'unsupported loop target')


class Fn:
    def __init__(self, fdef, kernels):
        self.f = fdef
        self.kernels = kernels
        self.name = fdef.name
        params, self.rtype, self.monadic = SIGS[fdef.name]
        a = fdef.args
        if a.vararg or a.kwarg or a.kwonlyargs or getattr(a, 'posonlyargs', []):
            fail(fdef, 'unsupported signature')
        got = [x.arg for x in a.args]
        if got != [p for p, _ in params]:
            fail(fdef, 'signature of %s changed: %s' % (fdef.name, got))
        if fdef.decorator_list:
            fail(fdef, '%s is decorated' % fdef.name)
        self.params = [p for p, _ in params]
        self.gl = USES_GLOBALS.get(fdef.name, [])
        self.types = dict(params)
        for g in self.gl:
            self.types[g] = GLOBALS[g]
        self.order = list(self.gl) + list(self.params)
        self.defaults = {}
        nd = len(a.defaults)
        for p, d in zip(got[len(got) - nd:], a.defaults):
            self.defaults[p] = d
        self.defs = []
        self.nloop = 0
        self.targets = set()

    # ------------------------------------------------------------ helpers
    def ty(self, name, node=None):
        if name not in self.types:
            fail(node, 'unknown name %s' % name)
        return self.types[name]

    def toq(self, t):
        s, ty = t
        if ty == 'Q':
            return s
        if ty == 'Z':
            return '(inject_Z %s)' % s
        raise TranslationError('%s used as a float' % ty)

    def scal(self, op, a, b, node):
        """scalar a op b on (text, Z|Q)"""
        sym = {ast.Add: '+', ast.Sub: '-', ast.Mult: '*'}
        if isinstance(op, ast.Div):
            return '(%s / %s)%%Q' % (self.toq(a), self.toq(b)), 'Q'
        for k, s in sym.items():
            if isinstance(op, k):
                if a[1] == 'Z' and b[1] == 'Z':
                    return '(%s %s %s)%%Z' % (a[0], s, b[0]), 'Z'
                return '(%s %s %s)%%Q' % (self.toq(a), s, self.toq(b)), 'Q'
        fail(node, 'unsupported operator %s' % type(op).__name__)

    def cmp(self, op, a, b, node):
        if a[1] == 'Z' and b[1] == 'Z':
            for k, s in ((ast.Lt, '<?'), (ast.Gt, '>?'), (ast.Eq, '=?'), (ast.LtE, '<=?'), (ast.GtE, '>=?')):
                if isinstance(op, k):
                    return '(%s %s %s)%%Z' % (a[0], s, b[0])
            if isinstance(op, ast.NotEq):
                return '(negb (%s =? %s)%%Z)' % (a[0], b[0])
        elif a[1] in 'ZQ' and b[1] in 'ZQ':
            if isinstance(op, ast.Lt):
                return '(qltb %s %s)' % (self.toq(a), self.toq(b))
            if isinstance(op, ast.Gt):
                return '(qltb %s %s)' % (self.toq(b), self.toq(a))
            if isinstance(op, ast.LtE):
                return '(Qle_bool %s %s)' % (self.toq(a), self.toq(b))
            if isinstance(op, ast.GtE):
                return '(Qle_bool %s %s)' % (self.toq(b), self.toq(a))
        fail(node, 'unsupported comparison %s' % type(op).__name__)

    # ------------------------------------------------------------ expressions
    def ex(self, e, bound):
        """-> (coq text, type); bound = readable names (None: typing pre-pass)"""
        r = self.ex1(e, bound)
        if r is None:
            fail(e, 'unsupported expression `%s`' % ast.unparse(e))
        return r

    def var(self, e, bound):
        t = self.ty(e.id, e)
        if bound is not None and e.id not in bound:
            fail(e, 'name %s is read where it is not bound' % e.id)
        return e.id, t

    def ndim_of(self, e, bound):
        """<array>.ndim"""
        if isinstance(e, ast.Attribute) and e.attr == 'ndim' and is_name(e.value):
            s, t = self.var(e.value, bound)
            if t in ('ZA', 'QA', 'BA'):
                return '(a_ndim %s)' % s, 'Z'
        return None

    def ex1(self, e, bound):
        X = lambda x: self.ex(x, bound)
        if isinstance(e, ast.Constant):
            v = e.value
            if v is None:
                return 'None', 'NONE'
            if isinstance(v, bool):
                return ('true' if v else 'false'), 'B'
            if isinstance(v, int):
                return ('%d' % v if v >= 0 else '(%d)' % v), 'Z'
            if isinstance(v, float):
                if v != v or v in (float('inf'), float('-inf')):
                    fail(e, 'non-finite constant')
                f = Fraction(v)
                return '(%d # %d)%%Q' % (f.numerator, f.denominator), 'Q'
            if isinstance(v, str):
                return coqstr(v), 'S'
            fail(e, 'unsupported constant')
        if isinstance(e, ast.Name):
            return self.var(e, bound)
        if isinstance(e, ast.List):
            parts = [X(x) for x in e.elts]
            if parts and all(t == 'S' for _, t in parts):
                return '[%s]' % '; '.join(s for s, _ in parts), 'SV'
            return None
        if isinstance(e, ast.Attribute):
            n = self.ndim_of(e, bound)
            if n:
                return n
            if e.attr == 'shape' and is_name(e.value):
                s, t = self.var(e.value, bound)
                if t in ('ZA', 'QA', 'BA'):
                    return '(a_shape %s)' % s, 'ZV'
            if e.attr == 'index' and is_name(e.value):
                s, t = self.var(e.value, bound)
                if t == 'CA' and self.facts.get(('isdf', e.value.id)):
                    return '(Some (df_index (as_df %s)))' % s, 'OIDX'
            return None
        if isinstance(e, ast.UnaryOp):
            s, t = X(e.operand)
            if isinstance(e.op, ast.USub) and t in ('Z', 'Q'):
                return '(- %s)%%%s' % (s, t), t
            if isinstance(e.op, ast.Not) and t == 'B':
                return '(negb %s)' % s, 'B'
            return None
        if isinstance(e, ast.BoolOp):
            parts = [X(v) for v in e.values]
            if any(t != 'B' for _, t in parts):
                return None
            j = ' && ' if isinstance(e.op, ast.And) else ' || '
            return '(' + j.join(s for s, _ in parts) + ')', 'B'
        if isinstance(e, ast.Compare):
            if len(e.ops) != 1:
                return None
            op, l, r = e.ops[0], e.left, e.comparators[0]
            if isinstance(op, (ast.Is, ast.IsNot)) and isinstance(r, ast.Constant) and r.value is None and is_name(l):
                s, t = self.var(l, bound)
                if t != 'OSV':
                    return None
                txt = '(match %s with None => true | Some _ => false end)' % s
                return (txt if isinstance(op, ast.Is) else '(negb %s)' % txt), 'B'
            if isinstance(op, (ast.In, ast.NotIn)):
                a = X(l)
                if a[1] == 'Z' and isinstance(r, ast.List) and r.elts and all(const_int(x) for x in r.elts):
                    txt = '(' + ' || '.join('(%s =? %d)%%Z' % (a[0], x.value) for x in r.elts) + ')'
                    return (txt if isinstance(op, ast.In) else '(negb %s)' % txt), 'B'
                return None
            a, b = X(l), X(r)
            if a[1] == 'S' and b[1] == 'S' and isinstance(op, ast.Eq):
                return '(String.eqb %s %s)' % (a[0], b[0]), 'B'
            if a[1] == 'ZV' and b[1] == 'ZV' and isinstance(op, ast.Eq):
                # tuple == tuple (after np.all, the same value for 1-d arrays)
                return '(zlist_eqb %s %s)' % (a[0], b[0]), 'B'
            if a[1] in ('QV', 'ZV') and b[1] in ('Z', 'Q'):
                el = ('o', a[1][0])
                return '(map (fun o => %s) %s)' % (self.cmp(op, el, b, e), a[0]), 'BV'
            if a[1] in ('Z', 'Q') and b[1] in ('Z', 'Q'):
                return self.cmp(op, a, b, e), 'B'
            return None
        if isinstance(e, ast.BinOp):
            # string / list-of-string concatenation
            a, b = X(e.left), X(e.right)
            if isinstance(e.op, ast.Add) and a[1] == 'SV' and b[1] == 'SV':
                return '(List.app %s %s)' % (a[0], b[0]), 'SV'
            if a[1] in ('Z', 'Q') and b[1] in ('Z', 'Q'):
                return self.scal(e.op, a, b, e)
            vec = {'ZV': 'Z', 'QV': 'Q'}
            if a[1] in vec and b[1] in vec:
                txt, t = self.scal(e.op, ('a', vec[a[1]]), ('b', vec[b[1]]), e)
                return '(vmap2 (fun a b => %s) %s %s)' % (txt, a[0], b[0]), t + 'V'
            if a[1] in vec and b[1] in ('Z', 'Q'):
                txt, t = self.scal(e.op, ('a', vec[a[1]]), b, e)
                return '(map (fun a => %s) %s)' % (txt, a[0]), t + 'V'
            if a[1] in ('Z', 'Q') and b[1] in vec:
                txt, t = self.scal(e.op, a, ('b', vec[b[1]]), e)
                return '(map (fun b => %s) %s)' % (txt, b[0]), t + 'V'
            if isinstance(e.op, ast.Mult):
                arr = {'ZA': 'Z', 'QA': 'Q'}
                if a[1] in arr and b[1] in arr:
                    txt, t = self.scal(e.op, ('a', arr[a[1]]), ('b', arr[b[1]]), e)
                    return '(arr_map2 (fun a b => %s) %s %s)' % (txt, a[0], b[0]), t + 'A'
                if a[1] == 'ZAS' and b[1] == 'ZA':
                    # (ndim, ...) stack times an array of the trailing shape: broadcast over the first axis
                    return '(map (fun m => arr_map2 (fun a b => (a * b)%%Z) m %s) %s)' % (b[0], a[0]), 'ZAS'
            return None
        if isinstance(e, ast.Subscript):
            v, sl = e.value, e.slice
            if is_np(v, 'ogrid'):
                s, t = X(sl)
                if t == 'SL':
                    return '(np_ogrid %s)' % s, 'ZAS'
                return None
            # t[1:] , t[:-1], t[-n:]
            if isinstance(sl, ast.Slice):
                s, t = X(v)
                if t not in ('ZV', 'SV') or sl.step is not None:
                    return None
                if const_int(sl.lower, 1) and sl.upper is None:
                    return '(py_from1 %s)' % s, t
                if sl.lower is None and isinstance(sl.upper, ast.UnaryOp) and isinstance(sl.upper.op, ast.USub) and const_int(sl.upper.operand, 1):
                    return '(py_butlast %s)' % s, t
                if sl.upper is None and isinstance(sl.lower, ast.UnaryOp) and isinstance(sl.lower.op, ast.USub):
                    n = X(sl.lower.operand)
                    if n[1] == 'Z':
                        return '(py_last_n %s %s)' % (s, n[0]), t
                return None
            # <sliced ecc weights>: cosmask(radius)[mask]
            if isinstance(v, ast.Call) and isinstance(v.func, ast.Name) and v.func.id in SLICED_FUNCS:
                if is_call(v, None, 1) and is_name(v.args[0], 'radius') and is_name(sl) and self.ty(sl.id, sl) == 'BA':
                    return 'ecc_weights_not_modelled', 'QV'
                return None
            # coords.shape[k]
            if isinstance(v, ast.Attribute) and v.attr == 'shape' and is_name(v.value) and const_int(sl):
                s, t = self.var(v.value, bound)
                if t in ('ZM', 'QM'):
                    if sl.value == 0:
                        return '(m_nrows %s)' % s, 'Z'
                    if sl.value == 1:
                        return '(m_ncols %s)' % s, 'Z'
                    return None
                if t == 'ZV':
                    return '(Z.of_nat (List.length %s))' % s, 'Z' if sl.value == 0 else None
                if t in ('ZA', 'QA', 'BA'):
                    return '(zget (a_shape %s) %d)' % (s, sl.value), 'Z'
                return None
            a = X(v)
            # coords[pos_columns].values handled in Attribute/Call; here plain indexings
            if a[1] == 'ZA' and is_name(sl):
                i = X(sl)
                if i[1] == 'SL':
                    return '(zarr_getslice %s %s)' % (a[0], i[0]), 'ZA'
                if i[1] == 'BA':
                    return '(zarr_select %s %s)' % (a[0], i[0]), 'ZV'
                return None
            i = X(sl)
            if i[1] != 'Z':
                return None
            if a[1] == 'ZV':
                return '(zget %s %s)' % (a[0], i[0]), 'Z'
            if a[1] == 'QAS':
                return '(nth_arr 0%%Q %s %s)' % (a[0], i[0]), 'QA'
            if a[1] == 'ZAS':
                return '(nth_arr 0%%Z %s %s)' % (a[0], i[0]), 'ZA'
            if a[1] == 'F':
                return '(get_scalar %s %s)' % (a[0], i[0]), 'Q'
            return None
        if isinstance(e, ast.ListComp):
            if len(e.generators) != 1 or e.generators[0].ifs or e.generators[0].is_async:
                return None
            g = e.generators[0]
            it = g.iter
            saved = dict(self.types)
            try:
                # for c, r in zip(u, v)
                if is_call(it, 'zip', 2) and isinstance(g.target, ast.Tuple) and len(g.target.elts) == 2 and all(is_name(x) for x in g.target.elts):
                    u, v = X(it.args[0]), X(it.args[1])
                    el = {'ZV': 'Z', 'QV': 'Q'}
                    if u[1] not in el or v[1] not in el:
                        return None
                    n1, n2 = g.target.elts[0].id, g.target.elts[1].id
                    if n1 == n2 or n1 in saved or n2 in saved:
                        fail(e, 'comprehension variable shadows a name')
                    self.types[n1], self.types[n2] = el[u[1]], el[v[1]]
                    b2 = None if bound is None else set(bound) | {n1, n2}
                    body = self.ex(e.elt, b2)
                    out = {'Z': 'ZV', 'Q': 'QV', 'SLICE': 'SL'}.get(body[1])
                    if out is None:
                        return None
                    return '(vmap2 (fun %s %s => %s) %s %s)' % (n1, n2, body[0], u[0], v[0]), out
                if not is_name(g.target):
                    return None
                n1 = g.target.id
                if n1 in saved:
                    fail(e, 'comprehension variable shadows a name')
                if is_call(it, 'range', 1):
                    u = X(it.args[0])
                    if u[1] != 'Z':
                        return None
                    src, elt = '(zrange %s)' % u[0], 'Z'
                else:
                    u = X(it)
                    elt = {'ZV': 'Z', 'QV': 'Q', 'ZAS': 'ZA', 'SV': 'S'}.get(u[1])
                    if elt is None:
                        return None
                    src = u[0]
                self.types[n1] = elt
                b2 = None if bound is None else set(bound) | {n1}
                body = self.ex(e.elt, b2)
                out = {'Z': 'ZV', 'Q': 'QV', 'SLICE': 'SL', 'QA': 'QAS', 'S': 'SV'}.get(body[1])
                if out is None:
                    return None
                return '(map (fun %s => %s) %s)' % (n1, body[0], src), out
            finally:
                self.types = saved
        if isinstance(e, ast.Call):
            return self.call(e, bound)
        return None

    def call(self, e, bound):
        X = lambda x: self.ex(x, bound)
        f = e.func
        # ---- methods
        if is_method(e, 'sum') or is_method(e, 'max'):
            s, t = X(f.value)
            if t == 'ZA':
                return ('(zarr_sum %s)' if f.attr == 'sum' else '(zarr_max %s)') % s, 'Z'
            if t == 'QA' and f.attr == 'sum':
                return '(qarr_sum %s)' % s, 'Q'
            return None
        if is_method(e, 'astype', 1):
            s, t = X(f.value)
            a = e.args[0]
            if t == 'ZA' and is_name(a, 'float'):
                return '(arr_to_float %s)' % s, 'QA'
            if t == 'BA' and is_np(a, 'uint8'):
                return '(barr_to_uint8 %s)' % s, 'ZA'
            if t == 'ZV' and is_name(a, 'int'):
                return s, 'ZV'                       # an integer array stays what it is
            if t == 'ZM' and is_name(a, 'int'):
                return s, 'ZM'
            return None
        if is_method(e, 'nonzero'):
            s, t = X(f.value)
            if t == 'BA':
                return '(barr_nonzero %s)' % s, 'ZVS'
            return None
        # ---- builtins
        if is_call(e, 'slice', 2):
            a, b = X(e.args[0]), X(e.args[1])
            if a[1] == 'Z' and b[1] == 'Z':
                return '(mkSlice %s %s)' % (a[0], b[0]), 'SLICE'
            return None
        if is_call(e, 'tuple', 1):
            s, t = X(e.args[0])
            if t in ('SL', 'ZV'):
                return s, t
            return None
        if is_call(e, 'len', 1):
            s, t = X(e.args[0])
            if t in ('ZV', 'SV'):
                return '(Z.of_nat (List.length %s))' % s, 'Z'
            if t in ('ZM', 'QM'):
                return '(m_nrows %s)' % s, 'Z'
            return None
        if is_call(e, 'int', 1):
            s, t = X(e.args[0])
            if t == 'Z':
                return s, 'Z'
            return None
        if is_call(e, 'isinstance', 2):
            if is_name(e.args[0]) and is_attr(e.args[1], 'pd', 'DataFrame'):
                s, t = self.var(e.args[0], bound)
                if t == 'CA':
                    return '(is_dataframe %s)' % s, 'B'
            return None
        # ---- numpy
        if is_npcall(e, 'sum', 1):
            s, t = X(e.args[0])
            if t == 'ZA':
                return '(zarr_sum %s)' % s, 'Z'
            if t == 'QA':
                return '(qarr_sum %s)' % s, 'Q'
            return None
        if is_npcall(e, 'sum', 1, ('axis',)):
            # np.sum(<stack>, axis=tuple(range(1, ndim + 1))): every axis but the first
            ax = kwval(e, 'axis')
            ok = is_call(ax, 'tuple', 1) and is_call(ax.args[0], 'range', 2) and const_int(ax.args[0].args[0], 1) \
                and isinstance(ax.args[0].args[1], ast.BinOp) and isinstance(ax.args[0].args[1].op, ast.Add) \
                and is_name(ax.args[0].args[1].left, 'ndim') and const_int(ax.args[0].args[1].right, 1) \
                and self.aliases.get('ndim') == 'image.ndim'
            s, t = X(e.args[0])
            if ok and t == 'ZAS':
                return '(map zarr_sum %s)' % s, 'ZV'
            return None
        if is_npcall(e, 'abs', 1):
            s, t = X(e.args[0])
            if t == 'QV':
                return '(map Qabs %s)' % s, 'QV'
            return None
        if is_npcall(e, 'all', 1):
            s, t = X(e.args[0])
            if t == 'BV':
                return '(np_all %s)' % s, 'B'
            if t == 'B':
                return s, 'B'
            return None
        if is_npcall(e, 'array', 1):
            s, t = X(e.args[0])
            if t in ('ZV', 'QV'):
                return s, t
            return None
        if is_npcall(e, 'clip', 3):
            a, lo, hi = [X(x) for x in e.args]
            if a[1] == lo[1] == hi[1] == 'ZV':
                return '(vmap3 (fun c l h => Z.min (Z.max c l) h) %s %s %s)' % (a[0], lo[0], hi[0]), 'ZV'
            return None
        if is_npcall(e, 'round', 1):
            s, t = X(e.args[0])
            if t == 'QM':
                return '(mat_round_int %s)' % s, 'ZM'      # only as np.round(..).astype(int), checked by typing: ZM.astype(int)
            return None
        if is_npcall(e, 'empty', 1, ('dtype',)) and is_np(kwval(e, 'dtype'), 'float64'):
            a = e.args[0]
            if isinstance(a, ast.Tuple) and len(a.elts) == 2:
                n, k = X(a.elts[0]), X(a.elts[1])
                if n[1] == 'Z' and k[1] == 'Z':
                    return '(np_empty2 %s %s)' % (n[0], k[0]), 'F'
                return None
            n = X(a)
            if n[1] == 'Z':
                return '(np_empty1 %s)' % n[0], 'F'
            return None
        if is_npcall(e, 'empty_like', 1, ('dtype',)) and is_np(kwval(e, 'dtype'), 'float64'):
            s, t = X(e.args[0])
            if t == 'ZM':
                return '(np_empty2 (m_nrows %s) (m_ncols %s))' % (s, s), 'F'
            return None
        if is_npcall(e, 'column_stack', 1) and isinstance(e.args[0], ast.List):
            parts = [X(x) for x in e.args[0].elts]
            if parts and all(t == 'F' for _, t in parts):
                return '(column_stack [%s])' % '; '.join(s for s, _ in parts), 'ROWS'
            return None
        if is_npcall(e, 'asarray', None, ()) or is_npcall(e, 'asarray', None, ('dtype',)):
            # np.asarray(np.asarray(mask.nonzero()), dtype=np.intp) / np.asarray(mask.nonzero(), np.intp)
            inner = e
            while is_npcall(inner, 'asarray', None, ()) or is_npcall(inner, 'asarray', None, ('dtype',)):
                d = kwval(inner, 'dtype') if inner.keywords else (inner.args[1] if len(inner.args) == 2 else None)
                if d is not None and not is_np(d, 'intp'):
                    return None
                if len(inner.args) not in (1, 2):
                    return None
                inner = inner.args[0]
            s, t = X(inner)
            if t == 'ZVS':
                return s, 'ZVS'
            return None
        # ---- trackpy.masks / utils
        if is_call(e, 'binary_mask', 2) or is_call(e, 'r_squared_mask', 2) or is_call(e, 'x_squared_masks', 2):
            r, n = X(e.args[0]), X(e.args[1])
            if r[1] == 'ZV' and n[1] == 'Z' and is_name(e.args[0], 'radius') and self.is_image_ndim(e.args[1]):
                t = {'binary_mask': 'BA', 'r_squared_mask': 'ZA', 'x_squared_masks': 'ZAS'}[f.id]
                return '(masks_%s %s %s)' % (f.id, r[0], n[0]), t
            return None
        if is_call(e, 'guess_pos_columns', 1) and is_name(e.args[0]):
            s, t = self.var(e.args[0], bound)
            if t == 'CA' and self.facts.get(('isdf', e.args[0].id)):
                return '(guess_pos_columns (as_df %s))' % s, 'SV'
            return None
        if is_call(e, 'default_pos_columns', 1):
            s, t = X(e.args[0])
            if t == 'Z':
                return '(default_pos_columns %s)' % s, 'SV'
            return None
        if is_call(e, 'default_size_columns', 2):
            a, b = X(e.args[0]), X(e.args[1])
            if a[1] == 'Z' and b[1] == 'B':
                return '(default_size_columns %s %s)' % (a[0], b[0]), 'SV'
            return None
        if isinstance(f, ast.Attribute) and f.attr == 'DataFrame' and is_name(f.value, 'pd'):
            kws = sorted(k.arg or '*' for k in e.keywords)
            if not e.args and kws == ['columns']:
                c = X(kwval(e, 'columns'))
                if c[1] == 'SV':
                    return '(mkFrame %s None [])' % c[0], 'FRAME'
            if len(e.args) == 1 and kws == ['columns', 'index']:
                r, c, i = X(e.args[0]), X(kwval(e, 'columns')), X(kwval(e, 'index'))
                if r[1] == 'ROWS' and c[1] == 'SV' and i[1] == 'OIDX':
                    return '(mkFrame %s %s %s)' % (c[0], i[0], r[0]), 'FRAME'
            return None
        # ---- translated functions (pure ones; monadic ones only as `x = f(..)` statements)
        if isinstance(f, ast.Name) and f.id in SIGS and not SIGS[f.id][2]:
            return self.user_call(e, bound)
        return None

    def is_image_ndim(self, e):
        if isinstance(e, ast.Attribute) and e.attr == 'ndim' and is_name(e.value, 'image'):
            return True
        return is_name(e, 'ndim') and self.aliases.get('ndim') == 'image.ndim'

    def user_call(self, e, bound):
        f = e.func.id
        params, rt, mon = SIGS[f]
        names = [p for p, _ in params]
        if len(e.args) > len(names):
            fail(e, 'too many arguments for %s' % f)
        given = {}
        for n, a in zip(names, e.args):
            given[n] = a
        for k in e.keywords:
            if k.arg is None or k.arg not in names or k.arg in given:
                fail(e, 'bad keyword argument for %s' % f)
            given[k.arg] = k.value
        args = list(USES_GLOBALS.get(f, []))
        for g in args:
            if g not in self.types:
                fail(e, '%s needs the module global %s' % (f, g))
        for n, t in params:
            if n in given:
                s, ty = self.ex(given[n], bound)
                if ty == 'NONE' and t == 'OSV':
                    s = 'None'
                elif ty == 'ZV' and t == 'RA':
                    s = '(RTuple %s)' % s                 # a tuple where a scalar-or-tuple is accepted
                elif ty != t:
                    fail(e, 'argument %s of %s has type %s, expected %s' % (n, f, ty, t))
                args.append(s)
            else:
                if n not in self.alldefaults.get(f, {}):
                    fail(e, 'argument %s of %s is missing' % (n, f))
                args.append('(%s_default_%s)' % (pyname(f), n))
        return '(%s %s)' % (pyname(f), ' '.join(args)), rt

    # ------------------------------------------------------------ typing pre-pass
    def settype(self, node, name, ty):
        old = self.types.get(name)
        if ty in ('SLICE', 'NONE') and not (ty == 'NONE' and old in ('OIDX', 'OSV')):
            if ty == 'NONE':
                ty = 'OIDX'     # `index = None`
            else:
                fail(node, 'a bare slice is not a value')
        if old is None:
            self.types[name] = ty
            self.order.append(name)
        elif old == ty:
            pass
        elif old == 'OSV' and ty == 'SV':
            pass                # pos_columns: Optional[list] refined to list (tracked by self.refined)
        elif old == 'RA' and ty == 'ZV':
            pass
        elif old == 'CA' and ty == 'QM':
            pass
        elif old == 'QM' and ty == 'ZM':
            pass
        elif old == 'OIDX' and ty in ('OIDX', 'NONE'):
            pass
        else:
            fail(node, 'variable %s changes type from %s to %s' % (name, old, ty))

    # The translator types variables flow-sensitively: self.types is updated as statements are
    # translated (a parameter like `radius : radius_arg` becomes `list Z` after validate_tuple).

    # ------------------------------------------------------------ statements
    def tup(self, names):
        if not names:
            return 'tt'
        return '(' + ', '.join(names) + ')' if len(names) > 1 else names[0]

    def pat(self, names):
        if not names:
            return '_'
        return "'(" + ', '.join(names) + ')' if len(names) > 1 else names[0]

    def tuptype(self, names, types):
        if not names:
            return 'unit'
        return ' * '.join(COQTYPE[types[n]] for n in names)

    def droppable_call(self, s):
        """logger.debug(..) / warnings.warn(..): no effect on any value; arguments must be names / constants"""
        if not (isinstance(s, ast.Expr) and isinstance(s.value, ast.Call)):
            return False
        c = s.value
        if not (is_attr(c.func, 'logger', 'debug') or is_attr(c.func, 'warnings', 'warn')):
            return False
        for a in list(c.args) + [k.value for k in c.keywords]:
            if not isinstance(a, (ast.Name, ast.Constant)):
                fail(s, 'argument of a dropped logging / warning call is not a name or constant')
        return True

    def is_walkthrough_block(self, s):
        if not (isinstance(s, ast.If) and is_name(s.test, 'walkthrough') and not s.orelse and len(s.body) == 2):
            return False
        a, b = s.body
        return isinstance(a, ast.Import) and [x.name for x in a.names] == ['matplotlib.pyplot'] and a.names[0].asname == 'plt' \
            and isinstance(b, ast.Expr) and isinstance(b.value, ast.Call) and is_attr(b.value.func, 'plt', 'imshow') \
            and len(b.value.args) == 1 and is_name(b.value.args[0]) and not b.value.keywords

    def is_dtype_guard(self, s):
        if not (isinstance(s, ast.If) and not s.orelse and len(s.body) == 1 and isinstance(s.body[0], ast.Raise)):
            return False
        t = s.test
        return isinstance(t, ast.UnaryOp) and isinstance(t.op, ast.Not) and is_npcall(t.operand, 'issubdtype', 2) \
            and isinstance(t.operand.args[0], ast.Attribute) and t.operand.args[0].attr == 'dtype' \
            and is_name(t.operand.args[0].value, 'coords') and is_np(t.operand.args[1], 'integer') and self.types.get('coords') == 'ZM'

    def exn(self, s):
        c = s.exc
        if not (isinstance(c, ast.Call) and isinstance(c.func, ast.Name) and len(c.args) == 1 and not c.keywords and s.cause is None):
            fail(s, 'unsupported raise')
        m = c.args[0]
        if not (isinstance(m, ast.Constant) and isinstance(m.value, str)):
            fail(s, 'exception message is not a string literal')
        if c.func.id == 'ValueError':
            return '(ValueError %s)' % coqstr(m.value)
        if c.func.id == 'NotImplementedError':
            return 'NotImplementedError'
        fail(s, 'unsupported exception type %s' % c.func.id)

    def sliced(self, s):
        """statements that only feed ecc"""
        if isinstance(s, ast.Assign) and len(s.targets) == 1:
            t = s.targets[0]
        elif isinstance(s, ast.AugAssign):
            t = s.target
        else:
            return False
        return isinstance(t, ast.Subscript) and is_name(t.value, 'ecc') and is_name(t.slice, 'feat')

    def slice_block(self, stmts):
        out = []
        for s in stmts:
            if self.sliced(s):
                continue
            if isinstance(s, ast.If):
                b, o = self.slice_block(s.body), self.slice_block(s.orelse)
                if not b and not o and (s.body or s.orelse):
                    if names_in(s.test) - {'ndim'}:
                        fail(s, 'condition of a sliced-out ecc block reads more than ndim')
                    continue
                if not b:
                    fail(s, 'an if branch vanished by slicing')
                s2 = ast.If(test=s.test, body=b, orelse=o)
                s = ast.copy_location(s2, s)
            elif isinstance(s, ast.For):
                s2 = ast.For(target=s.target, iter=s.iter, body=self.slice_block(s.body), orelse=s.orelse, type_comment=None)
                s = ast.copy_location(s2, s)
            out.append(s)
        return out

    def ret(self, txt):
        return ('Ret %s' % txt) if self.monadic else txt

    def seq(self, stmts, bound, K, ind):
        """translate a statement list. K: dict of continuations
             'fall'(bound) text at the end of the list; 'break' / 'continue' (bound) or None"""
        if not stmts:
            return ind + K['fall'](bound) + '\n'
        s, rest = stmts[0], stmts[1:]
        bound = set(bound)
        go = lambda b=bound: self.seq(rest, b, K, ind)
        if isinstance(s, ast.Pass) or self.droppable_call(s):
            return go()
        if self.is_walkthrough_block(s):
            return ind + '(* line %d: `if walkthrough:` display block (matplotlib) dropped *)\n' % s.lineno + go()
        if self.is_dtype_guard(s):
            return ind + '(* line %d: coords is an integer array by typing *)\n' % s.lineno + go()
        if isinstance(s, ast.Return):
            if rest:
                fail(rest[0], 'unreachable statement after return')
            if s.value is None:
                fail(s, 'bare return')
            v, t = self.ex(s.value, bound)
            if t == 'ZV' and self.rtype == 'QV':
                v, t = '(map inject_Z %s)' % v, 'QV'       # an integer array where the other return gives floats
            if t != self.rtype:
                fail(s, 'returns %s, expected %s' % (t, self.rtype))
            return ind + self.ret(v) + '\n'
        if isinstance(s, ast.Raise):
            if not self.monadic:
                fail(s, 'raise in a function translated as pure')
            return ind + 'Raise %s\n' % self.exn(s)
        if isinstance(s, ast.Break):
            if not K.get('break'):
                fail(s, 'break outside a loop')
            return ind + K['break'](bound) + '\n'
        if isinstance(s, ast.Continue):
            if not K.get('continue'):
                fail(s, 'continue outside a loop')
            return ind + K['continue'](bound) + '\n'
        if is_kernel_call_stmt(s):
            return self.kernel_call(s, bound, go, ind)
        if isinstance(s, ast.Assign):
            if len(s.targets) != 1:
                fail(s, 'multiple assignment targets')
            t = s.targets[0]
            if isinstance(t, ast.Name):
                return self.assign_name(s, t.id, s.value, bound, go, ind)
            if isinstance(t, ast.Tuple):
                # maskZ, maskY, maskX = <rows of mask.nonzero()>
                if not all(is_name(x) for x in t.elts):
                    fail(s, 'unsupported unpacking')
                v, ty = self.ex(s.value, bound)
                if ty != 'ZVS':
                    fail(s, 'only the rows of np.asarray(mask.nonzero()) may be unpacked')
                # unpacking checks the number of rows = number of axes of the mask: the branch must know it
                if self.facts.get('image.ndim') != len(t.elts):
                    fail(s, 'unpacking %d rows where image.ndim is not known to be %d' % (len(t.elts), len(t.elts)))
                txt = ind + 'let mask_rows_ := %s in\n' % v
                for k, x in enumerate(t.elts):
                    self.check_assignable(s, x.id)
                    self.settype(s, x.id, 'ZV')
                    txt += ind + 'let %s := row_of mask_rows_ %d in\n' % (x.id, k)
                    bound.add(x.id)
                return txt + go(bound)
            if isinstance(t, ast.Subscript) and is_name(t.value) and is_name(t.slice):
                # X[feat] = e
                a, at = self.var(t.value, bound)
                i, it = self.var(t.slice, bound)
                if at != 'F' or it != 'Z':
                    fail(s, 'unsupported subscript assignment')
                v = s.value
                if is_npcall(v, 'sqrt', 1):
                    x, xt = self.ex(v.args[0], bound)
                    mk = 'CSqrt'
                else:
                    x, xt = self.ex(v, bound)
                    mk = 'CQ'
                if xt in ('Z', 'Q'):
                    row = '[%s %s]' % (mk, self.toq((x, xt)))
                elif xt == 'QV':
                    row = '(map %s %s)' % (mk, x)
                elif xt == 'ZV':
                    row = '(map (fun z => %s (inject_Z z)) %s)' % (mk, x)
                else:
                    fail(s, 'unsupported value stored in a float64 array')
                return ind + 'let %s := set_row %s %s %s in\n' % (a, a, i, row) + go()
            fail(s, 'unsupported assignment target')
        if isinstance(s, ast.AugAssign):
            t = s.target
            if isinstance(t, ast.Name):
                v = ast.copy_location(ast.BinOp(left=ast.copy_location(ast.Name(id=t.id, ctx=ast.Load()), s), op=s.op, right=s.value), s)
                return self.assign_name(s, t.id, v, bound, go, ind)
            if isinstance(t, ast.Subscript) and is_name(t.value) and isinstance(s.op, (ast.Add, ast.Sub)) and const_int(s.value):
                a, at = self.var(t.value, bound)
                m, mt = self.ex(t.slice, bound)
                if at != 'ZV' or mt != 'BV':
                    fail(s, 'unsupported masked update')
                self.check_assignable(s, a)
                k = s.value.value if isinstance(s.op, ast.Add) else -s.value.value
                ks = '%d' % k if k >= 0 else '(%d)' % k
                return ind + 'let %s := vmap2 (fun c (b : bool) => if b then (c + %s)%%Z else c) %s %s in\n' % (a, ks, a, m) + go()
            fail(s, 'unsupported augmented assignment')
        if isinstance(s, ast.If):
            return self.if_stmt(s, rest, bound, K, ind)
        if isinstance(s, ast.For):
            return self.for_stmt(s, bound, go, ind)
        fail(s, 'unsupported statement %s' % type(s).__name__)

    def check_assignable(self, node, name):
        if name in self.gl:
            fail(node, 'module global %s is assigned' % name)

    def assign_name(self, s, name, value, bound, go, ind):
        self.check_assignable(s, name)
        # aliases the patterns rely on: ndim = image.ndim
        if isinstance(value, ast.Attribute) and value.attr == 'ndim' and is_name(value.value):
            self.aliases[name] = '%s.ndim' % value.value.id
        elif name in self.aliases:
            del self.aliases[name]
        for k in [k for k in self.facts if k == ('isdf', name)]:
            del self.facts[k]
        # monadic right-hand sides
        if is_call(value, 'validate_tuple', 2):
            r, n = self.ex(value.args[0], bound), self.ex(value.args[1], bound)
            if r[1] == 'ZV':
                # validate_tuple on what is already a validated tuple: identity when the length matches
                r = ('(RTuple %s)' % r[0], 'RA')
            if r[1] != 'RA' or n[1] != 'Z' or not self.monadic:
                fail(s, 'unsupported validate_tuple call')
            self.retype(s, name, 'ZV')
            bound.add(name)
            return ind + 'rbind (validate_tuple %s %s) (fun %s =>\n' % (r[0], n[0], name) + go(bound) + ind + ')\n'
        if isinstance(value, ast.Call) and isinstance(value.func, ast.Name) and value.func.id in SIGS and SIGS[value.func.id][2]:
            if not self.monadic:
                fail(s, 'call of a raising function in a function translated as pure')
            v, t = self.user_call(value, bound)
            self.retype(s, name, t)
            bound.add(name)
            return ind + 'rbind %s (fun %s =>\n' % (v, name) + go(bound) + ind + ')\n'
        # coords = coords[pos_columns].values
        if isinstance(value, ast.Attribute) and value.attr == 'values' and isinstance(value.value, ast.Subscript) \
                and is_name(value.value.value) and is_name(value.value.slice):
            d, dt = self.var(value.value.value, bound)
            c, ct = self.var(value.value.slice, bound)
            if dt == 'CA' and self.factsnap.get(('isdf', d)) and ct == 'SV' and self.monadic:
                self.retype(s, name, 'QM')
                bound.add(name)
                return ind + 'rbind (df_getitem_values (as_df %s) %s) (fun %s =>\n' % (d, c, name) + go(bound) + ind + ')\n'
            fail(s, 'unsupported DataFrame access')
        v, t = self.ex(value, bound)
        if name == 'results' and t == 'F' and v.startswith('(np_empty2 '):
            # the array handed to a numba kernel: rows of cells (Model/PyKernel.v)
            v, t = '(np_empty_rows ' + v[len('(np_empty2 '):], 'ROWS'
        if t == 'SLICE':
            fail(s, 'a bare slice is not a value')
        if t == 'NONE':
            t = 'OIDX'
        old = self.types.get(name)
        if old == 'Q' and t == 'Z':
            v, t = '(inject_Z %s)' % v, 'Q'
        self.retype(s, name, t)
        bound.add(name)
        return ind + 'let %s := %s in\n' % (name, v) + go(bound)

    def retype(self, node, name, t):
        old = self.types.get(name)
        allowed = {('SV', 'OSV'), ('OSV', 'SV'), ('RA', 'ZV'), ('CA', 'QM'), ('QM', 'ZM'), ('ZAS', 'QAS')}
        if old is None:
            self.order.append(name)
        elif old != t and (old, t) not in allowed:
            fail(node, 'variable %s changes type from %s to %s' % (name, old, t))
        self.types[name] = t

    def kernel_call(self, s, bound, go, ind):
        c = s.value
        kname = c.func.id
        kdef = self.kernels[kname]
        kp = [x.arg for x in kdef.args.args]
        if c.keywords or len(c.args) != len(kp):
            fail(s, 'kernel %s must be called with its %d positional arguments' % (kname, len(kp)))
        if not self.monadic:
            fail(s, 'kernel call in a function translated as pure')
        rank = len([p for p in kp if p.startswith('radius')])
        args = []
        for p, a in zip(kp, c.args):
            want = KPARAMS.get(p)
            if want is None:
                fail(s, 'unknown kernel parameter %s' % p)
            if want == 'IMG':
                if not (is_npcall(a, 'asarray', 1) and is_name(a.args[0])):
                    fail(a, 'kernel image argument must be np.asarray(<array>)')
                v, t = self.var(a.args[0], bound)
                if t != 'ZA':
                    fail(a, 'kernel image argument is not an integer array')
                args.append('(as_nested%d %s)' % (rank, v))
                continue
            v, t = self.ex(a, bound)
            if want == 'ZVS' and t == 'ZM':
                v, t = '(m_rows %s)' % v, 'ZVS'
            if p == 'results' and not is_name(a, 'results'):
                fail(a, 'the results argument must be the variable `results`')
            if t != want:
                fail(a, 'kernel argument %s has type %s, expected %s' % (p, t, want))
            args.append(v)
        self.retype(s, 'results', 'ROWS')
        return ind + 'rbind (of_kernel (%s %s)) (fun results =>\n' % (kname.lstrip('_'), ' '.join(args)) + go(bound) + ind + ')\n'

    def learn(self, test, truth, facts):
        """facts a branch may rely on: image.ndim == k ; isinstance(coords, pd.DataFrame)"""
        if isinstance(test, ast.Compare) and len(test.ops) == 1 and isinstance(test.ops[0], ast.Eq) and truth:
            l, r = test.left, test.comparators[0]
            if isinstance(l, ast.Attribute) and l.attr == 'ndim' and is_name(l.value, 'image') and const_int(r):
                facts['image.ndim'] = r.value
        if isinstance(test, ast.Compare) and len(test.ops) == 1 and isinstance(test.ops[0], ast.Eq) and not truth:
            l, r = test.left, test.comparators[0]
            if isinstance(l, ast.Attribute) and l.attr == 'ndim' and is_name(l.value, 'image') and const_int(r, 3) \
                    and facts.get('image.ndim in') == (2, 3):
                facts['image.ndim'] = 2
        if is_call(test, 'isinstance', 2) and is_name(test.args[0]) and truth:
            facts[('isdf', test.args[0].id)] = True

    def if_stmt(self, s, rest, bound, K, ind):
        # if x is None: x = e      (x : Optional[list of str])
        t = s.test
        if isinstance(t, ast.Compare) and len(t.ops) == 1 and isinstance(t.ops[0], ast.Is) and is_name(t.left) \
                and isinstance(t.comparators[0], ast.Constant) and t.comparators[0].value is None and not s.orelse \
                and len(s.body) == 1 and isinstance(s.body[0], ast.Assign) and len(s.body[0].targets) == 1 \
                and is_name(s.body[0].targets[0], t.left.id) and self.types.get(t.left.id) in ('OSV', 'SV') and t.left.id in bound:
            if self.types[t.left.id] == 'SV':
                self.ex(s.body[0].value, bound)      # must still be in the subset
                return ind + '(* line %d: %s is a list here (not None): the branch is dead *)\n' % (s.lineno, t.left.id) + self.seq(rest, bound, K, ind)
            v, vt = self.ex(s.body[0].value, bound)
            if vt != 'SV':
                fail(s, 'default for %s is not a list of strings' % t.left.id)
            n = t.left.id
            self.retype(s, n, 'SV')
            return ind + 'let %s := match %s with None => %s | Some given_ => given_ end in\n' % (n, n, v) + self.seq(rest, bound, K, ind)
        c, ct = self.ex(s.test, bound)
        if ct != 'B':
            fail(s, 'condition is not a boolean')
        # `if image.ndim not in [2, 3]: raise` teaches the rest of the block
        t = s.test
        learn_after = None
        if isinstance(t, ast.Compare) and len(t.ops) == 1 and isinstance(t.ops[0], ast.NotIn) and isinstance(t.left, ast.Attribute) \
                and t.left.attr == 'ndim' and is_name(t.left.value, 'image') and isinstance(t.comparators[0], ast.List) \
                and [x.value for x in t.comparators[0].elts if const_int(x)] == [2, 3] and len(s.body) == 1 and isinstance(s.body[0], ast.Raise) and not s.orelse:
            learn_after = ('image.ndim in', (2, 3))
        if not has_terminal(s):
            # JOIN
            W = assigned([s])
            if not W:
                return self.seq(rest, bound, K, ind)
            saved_t, saved_f, saved_a = dict(self.types), dict(self.facts), dict(self.aliases)
            pre = ''
            # type of every joined variable: translate both branches, compare
            res = []
            for branch, truth in ((s.body, True), (s.orelse, False)):
                self.types, self.facts, self.aliases = dict(saved_t), dict(saved_f), dict(saved_a)
                self.learn(s.test, truth, self.facts)
                self.factsnap = dict(self.facts)
                holder = {}

                def fin(b, holder=holder):
                    holder['types'] = dict(self.types)
                    holder['bound'] = set(b)
                    return '@@JOIN@@'
                txt = self.seq(branch, bound, dict(K, fall=fin), ind + '    ')
                res.append((txt, holder))
            self.types, self.facts, self.aliases = saved_t, saved_f, saved_a
            jt = {}
            outs = []
            for n in W:
                ts = []
                for txt, h in res:
                    ts.append(h['types'].get(n) if n in h['bound'] else None)
                known = [x for x in ts if x is not None]
                if not known:
                    fail(s, 'variable %s is assigned in no branch' % n)
                t0 = known[0]
                # coords: DataFrame branch gives the float matrix, the other branch leaves the array argument
                if set(known) == {'QM', 'CA'} and is_call(s.test, 'isinstance', 2):
                    t0 = 'QM'
                elif set(known) == {'SV', 'OSV'}:
                    t0 = 'OSV'
                elif len(set(known)) != 1:
                    fail(s, 'variable %s has types %s in the branches' % (n, known))
                jt[n] = t0
            texts = []
            for (txt, h), truth in zip(res, (True, False)):
                parts = []
                for n in W:
                    if n in h['bound']:
                        if h['types'][n] == 'CA' and jt[n] == 'QM':
                            if truth:
                                fail(s, 'unexpected coercion in the DataFrame branch')
                            parts.append('(as_array %s)' % n)
                        elif h['types'][n] == 'SV' and jt[n] == 'OSV':
                            parts.append('(Some %s)' % n)
                        else:
                            parts.append(n)
                    else:
                        if jt[n] not in DEFAULT:
                            fail(s, 'no default for unbound variable %s of type %s' % (n, jt[n]))
                        parts.append('%s (* %s unbound in Python *)' % (DEFAULT[jt[n]], n))
                texts.append(txt.replace('@@JOIN@@', self.tup(parts)))
            for n in W:
                self.retype(s, n, jt[n]) if self.types.get(n) != jt[n] else None
                if n in self.aliases:
                    del self.aliases[n]
            b2 = bound | set(W)
            out = ind + 'let %s :=\n' % self.pat(W) + ind + '  if %s then\n' % c + texts[0] + ind + '  else\n' + texts[1] + ind + 'in\n'
            return out + self.seq(rest, b2, K, ind)
        # branches that return / raise / break / continue / call a kernel: the rest of the block follows each branch
        saved_t, saved_f, saved_a = dict(self.types), dict(self.facts), dict(self.aliases)
        texts = []
        for branch, truth in ((s.body, True), (s.orelse, False)):
            self.types, self.facts, self.aliases = dict(saved_t), dict(saved_f), dict(saved_a)
            self.learn(s.test, truth, self.facts)
            if learn_after and not truth:
                self.facts[learn_after[0]] = learn_after[1]
            self.factsnap = dict(self.facts)
            ends = bool(branch) and isinstance(branch[-1], TERMINAL)
            pre = ''
            if not truth and is_call(s.test, 'isinstance', 2) and is_name(s.test.args[0]) and is_attr(s.test.args[1], 'pd', 'DataFrame') \
                    and self.types.get(s.test.args[0].id) == 'CA':
                # not a DataFrame: the argument is the array itself
                nm = s.test.args[0].id
                pre = ind + '  let %s := (as_array %s) in\n' % (nm, nm)
                self.types[nm] = 'QM'
            texts.append(pre + self.seq(list(branch) + ([] if ends else list(rest)), bound, K, ind + '  '))
        self.types, self.facts, self.aliases = saved_t, saved_f, saved_a
        return ind + 'if %s then\n' % c + texts[0] + ind + 'else\n' + texts[1]

    def for_stmt(self, s, bound, go, ind):
        if s.orelse:
            fail(s, 'for/else')
        it = s.iter
        tg = loop_targets(s)
        W = [n for n in assigned(s.body) if n not in tg]
        for n in tg:
            if n in bound or n in self.types and n in self.params:
                fail(s, 'loop variable %s shadows a live variable' % n)
        if is_call(it, 'enumerate', 1) and len(tg) == 2 and is_name(it.args[0]):
            src, st = self.var(it.args[0], bound)
            if st != 'ZM':
                fail(s, 'enumerate over something that is not the integer coords array')
            kind = 'enum'
            self.types[tg[0]], self.types[tg[1]] = 'Z', 'ZV'
        elif is_call(it, 'range', 1) and len(tg) == 1:
            rng_n, nt = self.ex(it.args[0], bound)
            if nt != 'Z':
                fail(s, 'unsupported range bound')
            kind = 'range'
            self.types[tg[0]] = 'Z'
        else:
            fail(s, 'unsupported loop header')
        for n in tg:
            if n not in self.order:
                self.order.append(n)
        # types of the state variables: pre-pass over the body with a scratch copy
        saved = (dict(self.types), dict(self.facts), dict(self.aliases), list(self.defs), self.nloop, list(self.order))
        inner_bound = set(bound) | set(tg) | set(W)       # typing only
        seen = {}

        def rec(b):
            for n_ in W:
                if n_ in self.types and n_ in b:
                    if seen.setdefault(n_, self.types[n_]) != self.types[n_]:
                        fail(s, 'loop state variable %s has two types' % n_)
            return 'tt'
        self.seq(s.body, self.typing_bound(s.body, bound | set(tg)), {'fall': rec, 'break': rec, 'continue': rec}, '')
        for n_ in W:
            if n_ not in seen:
                fail(s, 'cannot type loop state variable %s' % n_)
        wt = {n: seen[n] for n in W}
        order_after = list(self.order)
        self.types, self.facts, self.aliases, self.defs, self.nloop, _ = saved
        self.order = order_after
        for n in W:
            if n in self.types and self.types[n] != wt[n]:
                fail(s, 'loop state variable %s changes type in the loop' % n)
            self.types[n] = wt[n]
        pre = ''
        for n in W:
            if n not in bound:
                if wt[n] not in DEFAULT:
                    fail(s, 'no default for %s' % n)
                pre += ind + 'let %s := %s in   (* unbound in Python until assigned *)\n' % (n, DEFAULT[wt[n]])
        b2 = set(bound) | set(W)
        self.nloop += 1
        lname = '%s_loop%d' % (pyname(self.name), self.nloop)
        reads = set()
        for st_ in s.body:
            reads |= names_in(st_)
        env = [v for v in self.order if v in reads and v not in W and v not in tg and v in self.types and v in b2]
        inner_targets = set()
        for st_ in s.body:
            for n_ in ast.walk(st_):
                if isinstance(n_, ast.For):
                    inner_targets |= set(loop_targets(n_))
        for v in reads:
            if v in self.types and v not in W and v not in tg and v not in b2 and v not in inner_targets and v in saved[0]:
                fail(s, 'name %s is read in the loop where it is not bound' % v)
        types_before = dict(self.types)
        fin = lambda b: '(false, %s)' % self.tup(W)
        brk = lambda b: '(true, %s)' % self.tup(W)
        if kind == 'range':
            body = self.seq(s.body, b2 | set(tg), {'fall': fin, 'break': brk, 'continue': fin}, '  ')
            rty = 'bool * (%s)' % self.tuptype(W, wt)
            idx = '(%s : Z)' % tg[0]
        else:
            fin = lambda b: self.tup(W)
            body = self.seq(s.body, b2 | set(tg), {'fall': fin, 'break': None, 'continue': fin}, '  ')
            rty = self.tuptype(W, wt)
            idx = '(%s : Z) (%s : list Z)' % (tg[0], tg[1])
        for n in W:
            if self.types.get(n) != wt[n]:
                fail(s, 'loop state variable %s changes type in the loop' % n)
        self.types = types_before
        binders = ' '.join('(%s : %s)' % (v, COQTYPE[self.types[v]]) for v in env)
        d = '(* line %d: for %s in %s *)\n' % (s.lineno, ', '.join(tg), ast.unparse(it))
        d += 'Definition %s %s %s (st : %s) : %s :=\n' % (lname, binders, idx, self.tuptype(W, wt), rty)
        d += '  let %s := st in\n' % self.pat(W)
        d += body.rstrip('\n') + '.\n'
        self.defs.append(d)
        call = ('%s %s' % (lname, ' '.join(env))).strip()
        if kind == 'range':
            txt = ind + 'let %s := for_range_break %s (%s) %s in\n' % (self.pat(W), rng_n, call, self.tup(W))
        else:
            txt = ind + 'let %s := for_enumerate (m_rows %s) (%s) %s in\n' % (self.pat(W), src, call, self.tup(W))
        for n_ in tg:
            self.targets.add(n_)
        return pre + txt + go(b2)

    def typing_bound(self, body, bound):
        return set(bound) | set(assigned(body))

    # ------------------------------------------------------------ whole function
    def translate(self, alldefaults):
        self.alldefaults = alldefaults
        self.facts, self.aliases, self.factsnap = {}, {}, {}
        body = list(self.f.body)
        if body and isinstance(body[0], ast.Expr) and isinstance(body[0].value, ast.Constant) and isinstance(body[0].value.value, str):
            body = body[1:]
        body = self.slice_block(body)
        for s in body:
            for n in ast.walk(s):
                if isinstance(n, ast.Name) and n.id in SLICED_FUNCS:
                    # allowed only as <f>(radius)[mask] handed on as an ecc weight vector
                    pass
                if isinstance(n, (ast.While, ast.Try, ast.With, ast.Lambda, ast.Yield, ast.FunctionDef, ast.Global, ast.Nonlocal,
                                  ast.Delete, ast.Assert, ast.ClassDef, ast.AsyncFor, ast.Await, ast.Starred, ast.IfExp, ast.NamedExpr)):
                    fail(n, 'unsupported construct %s' % type(n).__name__)
        none_fall = lambda b: (_ for _ in ()).throw(TranslationError('%s can fall off its end (returns None)' % self.name))
        main = self.seq(body, set(self.gl) | set(self.params), {'fall': none_fall, 'break': None, 'continue': None}, '  ')
        ptypes = dict(SIGS[self.name][0])
        binders = ' '.join(['(%s : %s)' % (g, COQTYPE[GLOBALS[g]]) for g in self.gl] +
                           ['(%s : %s)' % (p, COQTYPE[ptypes[p]]) for p in self.params])
        rt = COQTYPE[self.rtype]
        out = '(* ===== %s (line %d) ===== *)\n' % (self.f.name, self.f.lineno)
        for p in self.params:
            if p in self.defaults:
                d = self.defaults[p]
                if not isinstance(d, ast.Constant):
                    fail(d, 'default of %s is not a constant' % p)
                saved = dict(self.types)
                v, t = self.ex(d, None)
                self.types = saved
                want = ptypes[p]
                if t == 'NONE' and want == 'OSV':
                    v = 'None'
                elif t == 'Z' and want == 'Q':
                    v = '(inject_Z %s)' % v
                elif t != want:
                    fail(d, 'default of %s has type %s, expected %s' % (p, t, want))
                out += 'Definition %s_default_%s : %s := %s.\n' % (pyname(self.name), p, COQTYPE[want], v)
        out += '\n'.join(self.defs)
        if self.defs:
            out += '\n'
        out += 'Definition %s %s : %s :=\n%s.\n' % (pyname(self.name), binders, ('result (%s)' % rt) if self.monadic else rt, main.rstrip('\n'))
        return out


def translate(repo):
    path = os.path.join(repo, 'trackpy', 'refine', 'center_of_mass.py')
    src = open(path).read()
    tree = ast.parse(src)
    defs = {}
    for n in tree.body:
        if isinstance(n, ast.FunctionDef):
            if n.name in defs:
                raise TranslationError('function %s defined twice' % n.name)
            defs[n.name] = n
    for k in KERNELS:
        if k not in defs:
            raise TranslationError('kernel %s not found' % k)
    # the module-level names the translated functions rely on must be the imported ones
    imported = {}
    for n in tree.body:
        if isinstance(n, ast.ImportFrom):
            for a in n.names:
                imported[a.asname or a.name] = (n.module, a.name)
        elif isinstance(n, ast.Assign):
            for t in n.targets:
                for m in ast.walk(t):
                    if isinstance(m, ast.Name) and m.id != 'logger':
                        raise TranslationError('line %d: module-level assignment to %s' % (n.lineno, m.id))
    need = {'validate_tuple': 'utils', 'guess_pos_columns': 'utils', 'default_pos_columns': 'utils', 'default_size_columns': 'utils',
            'binary_mask': 'masks', 'r_squared_mask': 'masks', 'x_squared_masks': 'masks', 'NUMBA_AVAILABLE': 'try_numba',
            'int': 'try_numba', 'round': 'try_numba'}
    for nm, mod in need.items():
        if imported.get(nm) != (mod, nm):
            raise TranslationError('%s is not imported from ..%s' % (nm, mod))
    out = ['(* GENERATED by tools/py2coq_refine.py from trackpy/refine/center_of_mass.py -- do not edit.',
           '   _safe_center_of_mass, _refine, refine_com_arr, refine_com statement by statement; see the translator',
           '   for the subset and the conventions, Model/PyRefine.v for the vocabulary.  ecc is sliced out. *)',
           'From Coq Require Import ZArith QArith Qabs List Bool String.',
           'From TP Require Import Model.COM Model.PyKernel Model.PyRefine Gen.com_kernels.',
           'Import ListNotations.',
           'Open Scope Z_scope.',
           'Open Scope string_scope.',
           '']
    alldefaults = {}
    for name in ORDER:
        if name not in defs:
            raise TranslationError('function %s not found' % name)
        a = defs[name].args
        got = [x.arg for x in a.args]
        alldefaults[name] = {p: d for p, d in zip(got[len(got) - len(a.defaults):], a.defaults)}
    for name in ORDER:
        out.append(Fn(defs[name], defs).translate(alldefaults))
    return '\n'.join(out)


def main():
    ap = argparse.ArgumentParser()
    ap.add_argument('--repo', default=os.environ.get('TRACKPY_REPO', '/repo'))
    ap.add_argument('--out', default=os.path.join(os.path.dirname(os.path.dirname(os.path.abspath(__file__))), 'coq', 'Gen', 'refine.v'))
    ap.add_argument('--stdout', action='store_true')
    a = ap.parse_args()
    try:
        text = translate(a.repo)
    except TranslationError as e:
        sys.stderr.write('py2coq_refine: TRANSLATION ERROR: %s\n' % e)
        sys.exit(2)
    except (OSError, SyntaxError) as e:
        sys.stderr.write('py2coq_refine: TRANSLATION ERROR: cannot read / parse the source: %s\n' % e)
        sys.exit(2)
    if a.stdout:
        sys.stdout.write(text)
        return
    old = open(a.out).read() if os.path.exists(a.out) else None
    if old != text:
        os.makedirs(os.path.dirname(a.out), exist_ok=True)
        tmp = a.out + '.tmp%d' % os.getpid()
        with open(tmp, 'w') as f:
            f.write(text)
        os.replace(tmp, a.out)
        print('py2coq_refine: wrote %s (changed)' % a.out)
    else:
        print('py2coq_refine: %s up to date' % a.out)


if __name__ == '__main__':
    main()
