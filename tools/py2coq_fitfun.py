#!/usr/bin/env python3
"""Fail-closed translator (route T) for C15.

Reads  $TRACKPY_REPO/trackpy/refine/least_squares.py  (default /repo) with the
Python `ast` module and regenerates  /verif/coq/Gen/fitfun.v : the scalar
model functions of refine_leastsq as Coq terms over R,

    r2_{isotropic,anisotropic}_{2d,3d}[_safe], dr2_{...}, gauss_fun, gauss_dfun,
    ring_fun, ring_dfun

numpy broadcasting is pointwise, so one scalar instance (one pixel) is the
model.  Conventions of the translation (all recorded in the generated file):

  * `y, x = mesh` / `cy, cx, size = p[2:5]` : the unpacked names become the
    arguments of the Coq function, mesh names first, then the names of the
    p-slice in slice order; the slice bounds are emitted as `<fn>_pslice`.
  * `t = p[0]` : argument `t`; its index is emitted as `<fn>_pidx`.
  * float literals are emitted as exact rationals; `e ** k` (k a non-negative
    integer literal) is `e ^ k`; `e ** 0.5` is `sqrt e`; `safe_exp(e)` is
    `exp e` (the underflow cut-off to 0 below EXPONENT_EPS_FLOAT64 and the NaN
    propagation of safe_exp are NOT modelled: stated as an assumption);
  * `np.vstack([e0, e1, ...])` is the Coq list `[e0; e1; ...]`;
    `return a, [b, c]` is the pair `(a, [b; c])`.
  * the `_safe` variants (`d[d < 1.] = np.nan`, `result[mask] = np.nan`) are
    split into `<fn>_val` (value where not NaN) and `<fn>_nan` (the Prop under
    which the pixel is NaN-ed out, i.e. dropped by np.nansum).

Any statement or expression outside this subset, a missing function or a
changed argument list is an ERROR (exit status 2, nothing written): the check
treats that like a broken proof.  Usage:

    py2coq_fitfun.py [--repo /repo] [--out /verif/coq/Gen/fitfun.v] [--stdout]
"""
import ast, sys, os, argparse, hashlib
from fractions import Fraction

R2_FUNS = ['r2_isotropic_2d', 'r2_isotropic_3d', 'r2_anisotropic_2d', 'r2_anisotropic_3d']
SAFE_FUNS = [f + '_safe' for f in R2_FUNS]
DR2_FUNS = ['d' + f for f in R2_FUNS]
MODEL_FUNS = ['gauss_fun', 'gauss_dfun', 'ring_fun', 'ring_dfun']


class TranslationError(Exception):
    pass


def fail(node, msg):
    raise TranslationError('line %s: %s' % (getattr(node, 'lineno', '?'), msg))


def lit(v, node=None):
    if isinstance(v, bool) or not isinstance(v, (int, float)):
        fail(node, 'unsupported constant %r' % (v,))
    if isinstance(v, float) and (v != v or v in (float('inf'), float('-inf'))):
        fail(node, 'non-finite constant')
    f = Fraction(v)
    if f < 0:
        return '(- %s)' % lit(-v, node)
    if f.denominator == 1:
        return '%d' % f.numerator
    return '(%d / %d)' % (f.numerator, f.denominator)


class Expr:
    """translate an expression; `env` maps python local names to Coq terms"""

    def __init__(self, env):
        self.env = env

    def tr(self, e):
        if isinstance(e, ast.Constant):
            return lit(e.value, e)
        if isinstance(e, ast.Name):
            if e.id not in self.env:
                fail(e, 'unknown name %s' % e.id)
            return self.env[e.id]
        if isinstance(e, ast.UnaryOp):
            if isinstance(e.op, ast.USub):
                return '(- %s)' % self.tr(e.operand)
            if isinstance(e.op, ast.UAdd):
                return self.tr(e.operand)
            fail(e, 'unsupported unary operator')
        if isinstance(e, ast.BinOp):
            if isinstance(e.op, ast.Pow):
                if isinstance(e.right, ast.Constant) and isinstance(e.right.value, int) \
                        and not isinstance(e.right.value, bool) and 0 <= e.right.value <= 16:
                    return '(%s ^ %d)' % (self.tr(e.left), e.right.value)
                if isinstance(e.right, ast.Constant) and e.right.value == 0.5:
                    return '(sqrt %s)' % self.tr(e.left)
                fail(e, 'unsupported exponent')
            ops = {ast.Add: '+', ast.Sub: '-', ast.Mult: '*', ast.Div: '/'}
            for k, s in ops.items():
                if isinstance(e.op, k):
                    return '(%s %s %s)' % (self.tr(e.left), s, self.tr(e.right))
            fail(e, 'unsupported binary operator %s' % type(e.op).__name__)
        if isinstance(e, ast.Call):
            if isinstance(e.func, ast.Name) and e.func.id == 'safe_exp' and len(e.args) == 1 and not e.keywords:
                return '(exp %s)' % self.tr(e.args[0])
            fail(e, 'unsupported call')
        fail(e, 'unsupported expression %s' % type(e).__name__)

    def cond(self, e):
        """comparison -> Prop"""
        if isinstance(e, ast.Compare) and len(e.ops) == 1:
            ops = {ast.Lt: '<', ast.LtE: '<=', ast.Gt: '>', ast.GtE: '>='}
            for k, s in ops.items():
                if isinstance(e.ops[0], k):
                    return '(%s %s %s)' % (self.tr(e.left), s, self.tr(e.comparators[0]))
        fail(e, 'unsupported condition')


def is_nan(e):
    return isinstance(e, ast.Attribute) and e.attr == 'nan' and isinstance(e.value, ast.Name) and e.value.id == 'np'


def names_of_tuple(t):
    if not isinstance(t, ast.Tuple) or not all(isinstance(x, ast.Name) for x in t.elts):
        fail(t, 'expected a tuple of names')
    return [x.id for x in t.elts]


def argnames(fn):
    a = fn.args
    if a.vararg or a.kwarg or a.kwonlyargs or a.defaults or getattr(a, 'posonlyargs', []):
        fail(fn, 'unsupported signature')
    return [x.arg for x in a.args]


def body_wo_doc(fn):
    b = list(fn.body)
    if b and isinstance(b[0], ast.Expr) and isinstance(b[0].value, ast.Constant) and isinstance(b[0].value.value, str):
        b = b[1:]
    return b


def tr_mesh_fun(fn):
    """r2_* / r2_*_safe / dr2_* : (mesh, p)"""
    if argnames(fn) != ['mesh', 'p']:
        fail(fn, '%s: expected arguments (mesh, p)' % fn.name)
    body = body_wo_doc(fn)
    if len(body) < 3:
        fail(fn, 'body too short')
    s0, s1 = body[0], body[1]
    if not (isinstance(s0, ast.Assign) and len(s0.targets) == 1 and isinstance(s0.value, ast.Name) and s0.value.id == 'mesh'):
        fail(s0, 'expected `<names> = mesh`')
    mesh = names_of_tuple(s0.targets[0])
    if not (isinstance(s1, ast.Assign) and len(s1.targets) == 1 and isinstance(s1.value, ast.Subscript)
            and isinstance(s1.value.value, ast.Name) and s1.value.value.id == 'p' and isinstance(s1.value.slice, ast.Slice)):
        fail(s1, 'expected `<names> = p[a:b]`')
    sl = s1.value.slice
    if sl.step is not None or not all(isinstance(z, ast.Constant) and isinstance(z.value, int) for z in (sl.lower, sl.upper)):
        fail(s1, 'unsupported slice')
    lo, hi = sl.lower.value, sl.upper.value
    pn = names_of_tuple(s1.targets[0])
    if hi - lo != len(pn):
        fail(s1, 'slice length does not match the number of names')
    args = mesh + pn
    if len(set(args)) != len(args):
        fail(s1, 'duplicate names')
    env = {a: a for a in args}
    X = Expr(env)
    nan_cond = None
    result = None
    for st in body[2:]:
        if isinstance(st, ast.Return):
            v = st.value
            if isinstance(v, ast.Call) and isinstance(v.func, ast.Attribute) and v.func.attr == 'vstack' \
                    and isinstance(v.func.value, ast.Name) and v.func.value.id == 'np' and len(v.args) == 1 \
                    and isinstance(v.args[0], ast.List) and not v.keywords:
                result = ('list', [X.tr(z) for z in v.args[0].elts])
            else:
                result = ('scalar', X.tr(v))
            if st is not body[-1]:
                fail(st, 'statements after return')
        elif isinstance(st, ast.Assign) and len(st.targets) == 1 and isinstance(st.targets[0], ast.Name):
            nm = st.targets[0].id
            if nm in args:
                fail(st, 'argument reassigned')
            if isinstance(st.value, ast.Compare):
                env[nm] = ('cond', X.cond(st.value))
            else:
                env[nm] = X.tr(st.value)
        elif isinstance(st, ast.Assign) and len(st.targets) == 1 and isinstance(st.targets[0], ast.Subscript) and is_nan(st.value):
            tg = st.targets[0]
            if not isinstance(tg.value, ast.Name) or tg.value.id not in env:
                fail(st, 'unsupported masked assignment')
            if nan_cond is not None:
                fail(st, 'second NaN mask')
            if isinstance(tg.slice, ast.Name):
                c = env.get(tg.slice.id)
                if not (isinstance(c, tuple) and c[0] == 'cond'):
                    fail(st, 'mask is not a comparison')
                nan_cond = c[1]
            else:
                nan_cond = X.cond(tg.slice)
        elif isinstance(st, ast.AugAssign) and isinstance(st.target, ast.Name) and st.target.id in env \
                and isinstance(st.op, ast.Div) and st.target.id not in args:
            env[st.target.id] = '(%s / %s)' % (env[st.target.id], X.tr(st.value))
        else:
            fail(st, 'unsupported statement %s' % type(st).__name__)
    if result is None:
        fail(fn, 'no return')
    for v in env.values():
        pass
    return dict(name=fn.name, args=args, nmesh=len(mesh), slice=(lo, hi), result=result, nan=nan_cond)


def tr_model_fun(fn):
    """gauss_fun / gauss_dfun / ring_fun / ring_dfun : (r2, p, ndim)"""
    if argnames(fn) != ['r2', 'p', 'ndim']:
        fail(fn, '%s: expected arguments (r2, p, ndim)' % fn.name)
    env = {'r2': 'r2', 'ndim': 'ndim'}
    pargs = []   # (name, index)
    X = Expr(env)
    result = None
    body = body_wo_doc(fn)
    for st in body:
        if isinstance(st, ast.Return):
            v = st.value
            if isinstance(v, ast.Tuple) and len(v.elts) == 2 and isinstance(v.elts[1], ast.List):
                result = ('pair', X.tr(v.elts[0]), [X.tr(z) for z in v.elts[1].elts])
            else:
                result = ('scalar', X.tr(v))
            if st is not body[-1]:
                fail(st, 'statements after return')
        elif isinstance(st, ast.Assign) and len(st.targets) == 1 and isinstance(st.targets[0], ast.Name):
            nm = st.targets[0].id
            if nm in ('r2', 'ndim', 'p') or nm in [a for a, _ in pargs]:
                fail(st, 'argument reassigned')
            v = st.value
            if isinstance(v, ast.Subscript) and isinstance(v.value, ast.Name) and v.value.id == 'p':
                if not (isinstance(v.slice, ast.Constant) and isinstance(v.slice.value, int) and v.slice.value >= 0):
                    fail(st, 'unsupported index into p')
                pargs.append((nm, v.slice.value))
                env[nm] = nm
            else:
                env[nm] = X.tr(v)
        else:
            fail(st, 'unsupported statement %s' % type(st).__name__)
    if result is None:
        fail(fn, 'no return')
    if [i for _, i in pargs] != list(range(len(pargs))):
        fail(fn, 'model parameters must be p[0], p[1], ... in order')
    return dict(name=fn.name, args=['r2'] + [a for a, _ in pargs] + ['ndim'], pidx=[i for _, i in pargs], result=result)


def coq_list(items):
    return '[' + ';\n     '.join(items) + ']'


def emit(funs, src_sha):
    out = []
    out.append('(* GENERATED by tools/py2coq_fitfun.py from trackpy/refine/least_squares.py -- do not edit.')
    out.append('   One scalar instance (one pixel) of each numpy expression; see the translator for the conventions.')
    out.append('   safe_exp is rendered as exp (underflow cut-off and NaN propagation not modelled). *)')
    out.append('From Coq Require Import Reals List.')
    out.append('Import ListNotations.')
    out.append('Open Scope R_scope.')
    out.append('')
    for f in funs:
        n = f['name']
        args = ' '.join(f['args'])
        r = f['result']
        if 'slice' in f:
            out.append('Definition %s_nmesh : nat := %d.' % (n, f['nmesh']))
            out.append('Definition %s_pslice : nat * nat := (%d, %d)%%nat.' % (n, f['slice'][0], f['slice'][1]))
            if f['nan'] is not None:
                if r[0] != 'scalar':
                    fail(None, '%s: NaN mask on a list result' % n)
                out.append('Definition %s_val (%s : R) : R :=\n  %s.' % (n, args, r[1]))
                out.append('Definition %s_nan (%s : R) : Prop :=\n  %s.' % (n, args, f['nan']))
            elif r[0] == 'scalar':
                out.append('Definition %s (%s : R) : R :=\n  %s.' % (n, args, r[1]))
            else:
                out.append('Definition %s (%s : R) : list R :=\n    %s.' % (n, args, coq_list(r[1])))
        else:
            out.append('Definition %s_pidx : list nat := [%s]%%nat.' % (n, '; '.join(str(i) for i in f['pidx'])))
            if r[0] == 'scalar':
                out.append('Definition %s (%s : R) : R :=\n  %s.' % (n, args, r[1]))
            else:
                out.append('Definition %s (%s : R) : R * list R :=\n  (%s,\n    %s).' % (n, args, r[1], coq_list(r[2])))
        out.append('')
    return '\n'.join(out)


def translate(repo):
    path = os.path.join(repo, 'trackpy', 'refine', 'least_squares.py')
    src = open(path).read()
    tree = ast.parse(src)
    defs = {n.name: n for n in tree.body if isinstance(n, ast.FunctionDef)}
    funs = []
    for name in R2_FUNS + SAFE_FUNS + DR2_FUNS:
        if name not in defs:
            raise TranslationError('function %s not found' % name)
        funs.append(tr_mesh_fun(defs[name]))
    for name in MODEL_FUNS:
        if name not in defs:
            raise TranslationError('function %s not found' % name)
        funs.append(tr_model_fun(defs[name]))
    # the templates must still pair the functions the proofs are about
    return emit(funs, hashlib.sha1(src.encode()).hexdigest())


def main():
    ap = argparse.ArgumentParser()
    ap.add_argument('--repo', default=os.environ.get('TRACKPY_REPO', '/repo'))
    ap.add_argument('--out', default=os.path.join(os.path.dirname(os.path.dirname(os.path.abspath(__file__))), 'coq', 'Gen', 'fitfun.v'))
    ap.add_argument('--stdout', action='store_true')
    a = ap.parse_args()
    try:
        text = translate(a.repo)
    except TranslationError as e:
        sys.stderr.write('py2coq_fitfun: TRANSLATION ERROR: %s\n' % e)
        sys.exit(2)
    if a.stdout:
        sys.stdout.write(text)
        return
    old = open(a.out).read() if os.path.exists(a.out) else None
    if old != text:
        os.makedirs(os.path.dirname(a.out), exist_ok=True)
        tmp = a.out + '.tmp%d' % os.getpid()
        with open(tmp, 'w') as f:
            f.write(text)
        os.replace(tmp, a.out)
        print('py2coq_fitfun: wrote %s (changed)' % a.out)
    else:
        print('py2coq_fitfun: %s up to date' % a.out)


if __name__ == '__main__':
    main()
