#!/usr/bin/env python3
"""Inventory of process-wide mutable state in the linking code (route T for C04).

Properties/C04.v proves isolation and reproducibility for jobs whose steps read and write only
their own state (Model/Jobs.v).  That hypothesis is about the CODE: a linking job must not keep
anything in a place another job can reach - a module global, a class attribute, a function
attribute, a memoising decorator, a mutable default argument.  This tool reads the current source
(Python ast, nothing is imported or run) and lists every such place:

  global      module-level name bound to a mutable container / counter, or rebound through `global`
  classattr   class-body attribute that is mutable or a counter; attribute written on a class object
              (ClassName.x = , cls.x = , type(self).x = , self.__class__.x = ), in-place update of one
  funcattr    attribute stored on a function object (f.cache = ...)
  memo        lru_cache / cache / memo decorators
  default     mutable default argument
  counter     next(x.attr): an iterator stored on an object or class is advanced
  identity    a class defines __eq__/__hash__/ordering/pickling itself (identity of the objects kept in sets and dicts)

The result is compared (by vp/props/c04.py, on every run) with the committed, reviewed inventory
vp/shared_state_expected.json.  Every entry there carries the reason why it cannot couple two
jobs.  A new or changed entry means the isolation theorem's hypothesis is no longer known to hold:
the check reports the obligation as broken and goes on searching for a schedule on which a job's
labels actually depend on another job.

usage: audit_shared_state.py [--repo DIR] [--json]      exit 0 always (2 on a syntax error in the source)
"""
import ast, json, os, sys

FILES = ['trackpy/linking/linking.py', 'trackpy/linking/subnet.py', 'trackpy/linking/subnetlinker.py',
         'trackpy/linking/utils.py', 'trackpy/linking/find_link.py', 'trackpy/linking/partial.py',
         'trackpy/linking/__init__.py', 'trackpy/predict.py', 'trackpy/utils.py',
         # what a find_link job calls into for detection, relocation and characterisation
         'trackpy/find.py', 'trackpy/feature.py', 'trackpy/masks.py', 'trackpy/preprocessing.py',
         'trackpy/refine/center_of_mass.py', 'trackpy/uncertainty.py', 'trackpy/try_numba.py']

MUTABLE_CALLS = {'dict', 'list', 'set', 'defaultdict', 'OrderedDict', 'deque', 'count', 'Counter', 'WeakValueDictionary',
                 'WeakKeyDictionary', 'array', 'zeros', 'empty', 'ones'}
MEMO_NAMES = {'lru_cache', 'cache', 'memo', 'memoize', 'cached_property', 'memoized'}


def call_name(node):
    f = node.func if isinstance(node, ast.Call) else node
    if isinstance(f, ast.Attribute):
        return f.attr
    if isinstance(f, ast.Name):
        return f.id
    return None


def is_mutable_value(v):
    if isinstance(v, (ast.Dict, ast.List, ast.Set, ast.ListComp, ast.DictComp, ast.SetComp)):
        return True
    if isinstance(v, ast.Call) and call_name(v) in MUTABLE_CALLS:
        return True
    return False


def targets_of(node):
    if isinstance(node, ast.Assign):
        return node.targets
    if isinstance(node, (ast.AugAssign, ast.AnnAssign)):
        return [node.target]
    return []


def audit_file(path, rel):
    out = []
    src = open(path).read()
    tree = ast.parse(src)
    classes = {n.name for n in ast.walk(tree) if isinstance(n, ast.ClassDef)}
    module_funcs = {n.name for n in tree.body if isinstance(n, (ast.FunctionDef, ast.AsyncFunctionDef))}

    # module level
    for n in tree.body:
        for t in targets_of(n):
            if isinstance(t, ast.Name) and getattr(n, 'value', None) is not None and is_mutable_value(n.value):
                out.append(('global', rel, t.id, 'module-level mutable %s' % type(n.value).__name__))

    def decorators(fn, owner):
        for d in fn.decorator_list:
            nm = call_name(d)
            if nm in MEMO_NAMES:
                out.append(('memo', rel, owner + fn.name, '@' + nm))

    def defaults(fn, owner):
        for d in list(fn.args.defaults) + [x for x in fn.args.kw_defaults if x is not None]:
            if is_mutable_value(d):
                out.append(('default', rel, owner + fn.name, 'mutable default argument'))

    def class_object_expr(e, in_class):
        """does expression e denote a class object (not an instance)?"""
        if isinstance(e, ast.Name) and (e.id in classes or e.id == 'cls'):
            return e.id
        if isinstance(e, ast.Attribute) and e.attr == '__class__':
            return 'type(self)'
        if isinstance(e, ast.Call) and call_name(e) == 'type' and len(e.args) == 1:
            return 'type(self)'
        if isinstance(e, ast.Attribute) and e.attr in ('track_cls', 'hash_cls') :
            return 'self.' + e.attr          # attributes that hold class objects in the linker
        return None

    def scan_function(fn, owner, in_class):
        decorators(fn, owner)
        defaults(fn, owner)
        globs = set()
        for n in ast.walk(fn):
            if isinstance(n, ast.Global):
                globs.update(n.names)
        for n in ast.walk(fn):
            for t in targets_of(n):
                if isinstance(t, ast.Name) and t.id in globs:
                    out.append(('global', rel, t.id, 'rebound through `global` in %s%s' % (owner, fn.name)))
                if isinstance(t, ast.Attribute):
                    co = class_object_expr(t.value, in_class)
                    if co:
                        out.append(('classattr', rel, '%s.%s' % (co, t.attr), 'written in %s%s' % (owner, fn.name)))
                    elif isinstance(t.value, ast.Name) and t.value.id in module_funcs | {fn.name}:
                        out.append(('funcattr', rel, '%s.%s' % (t.value.id, t.attr), 'written in %s%s' % (owner, fn.name)))
                if isinstance(t, ast.Subscript):
                    base = t.value
                    if isinstance(base, ast.Attribute):
                        co = class_object_expr(base.value, in_class)
                        if co:
                            out.append(('classattr', rel, '%s.%s[...]' % (co, base.attr), 'item written in %s%s' % (owner, fn.name)))
                        elif isinstance(base.value, ast.Name) and base.value.id in module_funcs | {fn.name}:
                            out.append(('funcattr', rel, '%s.%s[...]' % (base.value.id, base.attr), 'item written in %s%s' % (owner, fn.name)))
            # setattr(cls, ...), cls.x.update(...), f.cache.setdefault(...), next(self.counter)
            if isinstance(n, ast.Call):
                nm = call_name(n)
                if nm == 'next' and n.args and isinstance(n.args[0], ast.Attribute):
                    a = n.args[0]
                    base = class_object_expr(a.value, in_class) or (a.value.id if isinstance(a.value, ast.Name) else None)
                    if base:
                        out.append(('counter', rel, 'next(%s.%s)' % (base, a.attr), 'in %s%s' % (owner, fn.name)))
                if nm == 'setattr' and n.args:
                    co = class_object_expr(n.args[0], in_class)
                    if co:
                        out.append(('classattr', rel, '%s.<setattr>' % co, 'setattr in %s%s' % (owner, fn.name)))
                if isinstance(n.func, ast.Attribute) and nm in ('update', 'setdefault', 'append', 'add', 'extend', 'pop', 'clear', 'insert', 'remove', '__setitem__'):
                    recv = n.func.value
                    if isinstance(recv, ast.Attribute):
                        co = class_object_expr(recv.value, in_class)
                        if co:
                            out.append(('classattr', rel, '%s.%s' % (co, recv.attr), '.%s() in %s%s' % (nm, owner, fn.name)))
                        elif isinstance(recv.value, ast.Name) and recv.value.id in module_funcs | {fn.name}:
                            out.append(('funcattr', rel, '%s.%s' % (recv.value.id, recv.attr), '.%s() in %s%s' % (nm, owner, fn.name)))

    for n in tree.body:
        if isinstance(n, (ast.FunctionDef, ast.AsyncFunctionDef)):
            scan_function(n, '', False)
        elif isinstance(n, ast.ClassDef):
            for m in n.body:
                for t in targets_of(m):
                    if isinstance(t, ast.Name) and getattr(m, 'value', None) is not None and is_mutable_value(m.value):
                        out.append(('classattr', rel, '%s.%s' % (n.name, t.id), 'class-body mutable %s' % (call_name(m.value) or type(m.value).__name__)))
                if isinstance(m, (ast.FunctionDef, ast.AsyncFunctionDef)):
                    if m.name in ('__eq__', '__ne__', '__hash__', '__lt__', '__le__', '__gt__', '__ge__', '__reduce__', '__getstate__', '__setstate__', '__copy__', '__deepcopy__'):
                        # object identity / ordering defined by the class: sets and dicts of such objects (memory sets,
                        # subnet sets) then depend on whatever these methods read, e.g. a counter shared between jobs
                        out.append(('identity', rel, '%s.%s' % (n.name, m.name), 'defined'))
                    scan_function(m, n.name + '.', True)
                    # nested functions are walked by ast.walk inside scan_function
    return out


def audit(repo):
    items = []
    for rel in FILES:
        p = os.path.join(repo, rel)
        if os.path.exists(p):
            items += audit_file(p, rel)
    # canonical: one entry per (kind, file, name), the places joined
    d = {}
    for kind, rel, name, where in items:
        d.setdefault((kind, rel, name), set()).add(where)
    return [dict(kind=k[0], file=k[1], name=k[2], where=sorted(v)) for k, v in sorted(d.items())]


if __name__ == '__main__':
    repo = '/repo'
    args = sys.argv[1:]
    if '--repo' in args:
        repo = args[args.index('--repo') + 1]
    try:
        inv = audit(repo)
    except SyntaxError as e:
        print('syntax error: %s' % e); sys.exit(2)
    if '--json' in args:
        print(json.dumps(inv, indent=1))
    else:
        for it in inv:
            print('%-9s %-34s %-40s %s' % (it['kind'], it['file'], it['name'], '; '.join(it['where'])))
